"""C17 bounded stand-in: substrate queries of stDAG / stDiGraph vs plain breadth-first search and brute force.

Four families of cases:
  dag_reach : stDAG.reachable_nodes_from / nodes_reaching / reachable_edges_from / reachable_edges_rev_from, asked in every order of first access
              (the four tables are built lazily) and asked again (warm), with width / antichain calls interleaved, vs BFS on an independently augmented graph;
  dig_reach : stDiGraph.nodes_reachable / nodes_reaching for every node, compute_edge_max_reachable_value, is_scc_edge for every edge, issued in
              several orders on ONE object (second half of every sequence is warm) or on a fresh object per query (cold), vs BFS;
  antichain : stDAG.compute_max_edge_antichain(get_antichain=True, weight_function=wf): edges of the graph, pairwise unreachable, weight = reported value
              = brute-force maximum over all antichains = value with get_antichain=False;
  peel      : stDAG.decompose_using_max_bottleneck on conserving flows (also with zero-flow edges): source-to-sink paths of the base graph, positive
              weights, weights add up to the flow on every edge.
Edge e1=(a,b) reaches e2=(c,d) iff b == c or there is a path from b to c.  A weight function assigns 0 to every edge it does not mention (docstring),
so the empty dict is the all-zero weight function.
"""
import itertools
import random
from fractions import Fraction
import networkx as nx
from rc import graphs
from rc.common import is_route, explained, close

BIG = 10 ** 6


# ---------------------------------------------------------------------------------------------
# oracles

def _bfs(adj, start):
    seen = {start}
    queue = [start]
    while queue:
        x = queue.pop(0)
        for y in adj.get(x, ()):
            if y not in seen:
                seen.add(y)
                queue.append(y)
    return seen


def _augment(E, nodes, starts, ends, S, T):
    """edge list of the graph with global source S / sink T, built from the class docstring"""
    indeg = {v: 0 for v in nodes}
    outdeg = {v: 0 for v in nodes}
    for u, v in E:
        outdeg[u] += 1
        indeg[v] += 1
    A = list(E)
    A += [(S, v) for v in nodes if indeg[v] == 0 or v in starts]
    A += [(v, T) for v in nodes if outdeg[v] == 0 or v in ends]
    return A


def _adj(A):
    fw, bw = {}, {}
    for u, v in A:
        fw.setdefault(u, []).append(v)
        bw.setdefault(v, []).append(u)
    return fw, bw


def _max_antichain(A, w, fw):
    """brute force: maximum total weight of a set of pairwise unreachable edges (only positive-weight edges matter)"""
    P = [e for e in A if w.get(e, 0) > 0]
    reach = {v: _bfs(fw, v) for v in {e[1] for e in P}}
    comp = {e: {f for f in P if f != e and (f[0] in reach[e[1]] or e[0] in reach[f[1]])} for e in P}

    def rec(cands):
        if not cands:
            return 0
        e = cands[0]
        rest = cands[1:]
        best = rec(rest)
        with_e = w[e] + rec([f for f in rest if f not in comp[e]])
        return max(best, with_e)
    return rec(P)


# ---------------------------------------------------------------------------------------------
# cases

def _nodes(E):
    V = []
    for e in E:
        for x in e:
            if x not in V:
                V.append(x)
    return V


def _dag_list(tier, names=graphs.NAMES1):
    out = []
    for n in (2, 3, 4) if tier == "quick" else (2, 3, 4, 5):
        for gi, G in enumerate(graphs.dags(n, names)):
            if n == 5 and gi % 9:
                continue
            out.append(list(G.edges()))
    return out


def _all_digraphs(n, names, selfloops=True):
    pairs = [(i, j) for i in range(n) for j in range(n) if (i != j or selfloops)]
    for mask in range(1, 1 << len(pairs)):
        E = [(names[i], names[j]) for b, (i, j) in enumerate(pairs) if mask >> b & 1]
        if len(_nodes(E)) == n:
            yield E


def cases(tier):
    rnd = random.Random(17)
    q = tier == "quick"
    perms = list(itertools.permutations(range(4)))
    # ---- dag_reach
    for names in (graphs.NAMES1, graphs.NAMES2):
        for gi, E in enumerate(_dag_list(tier, names)):
            if names is graphs.NAMES2 and gi % 4:
                continue
            V = _nodes(E)
            opts = [([], [])]
            if len(V) > 2:
                opts.append(([V[(gi + 1) % len(V)]], [V[gi % len(V)]]))
            for starts, ends in opts:
                for pi, perm in enumerate(perms):
                    if q and (pi + gi) % 2:
                        continue
                    yield dict(kind="dag_reach", edges=E, starts=starts, ends=ends, order=list(perm), interleave=(pi + gi) % 3)
    # ---- dig_reach
    digs = []
    for n in (1, 2, 3):
        for gi, E in enumerate(_all_digraphs(n, graphs.NAMES1)):
            digs.append(E)
    for gi, E in enumerate(_all_digraphs(3, graphs.NAMES2)):
        if gi % 5 == 0:
            digs.append(E)
    for gi, E in enumerate(_all_digraphs(4, graphs.NAMES1, selfloops=False)):
        if gi % (37 if q else 7) == 0:
            digs.append(E)
    for gi, E in enumerate(digs):
        V = _nodes(E)
        has_src = any(all(e[1] != v for e in E) for v in V)
        has_snk = any(all(e[0] != v for e in E) for v in V)
        variants = []
        if has_src and has_snk:
            variants.append(([], []))
        a, b = V[gi % len(V)], V[(gi // 2 + 1) % len(V)]
        if not (has_src and has_snk) or gi % 3 == 0:
            variants.append(([] if has_src and gi % 2 else [a], [] if has_snk and gi % 2 == 0 else [b]))
        for starts, ends in variants:
            wts = [rnd.choice((0, 1, 2, 5, 5, BIG * 1000, None)) for _ in E]
            for oi in ((0, 2, 3) if q else (0, 1, 2, 3, 4, 5)):
                yield dict(kind="dig_reach", edges=E, starts=starts, ends=ends, weights=wts, order=oi, mode="warm")
            yield dict(kind="dig_reach", edges=E, starts=starts, ends=ends, weights=wts, order=1, mode="cold")
    # ---- antichain
    for names in (graphs.NAMES1, graphs.NAMES2):
        for gi, E in enumerate(_dag_list(tier, names)):
            if names is graphs.NAMES2 and gi % 5:
                continue
            V = _nodes(E)
            A = _augment(E, V, (), (), "S", "T")
            st = [e for e in A if e not in E]
            yield dict(kind="antichain", edges=E, wf=None)
            yield dict(kind="antichain", edges=E, wf=[])
            yield dict(kind="antichain", edges=E, wf=[[u, v, 1] for u, v in E])
            yield dict(kind="antichain", edges=E, wf=[[u, v, 0] for u, v in A])
            for r in range(8 if q else 16):
                pool = (0, 1, 2, 5) if r % 4 else (0, 1, 2, 5, BIG)
                wf = [[u, v, rnd.choice(pool)] for u, v in E if r % 3 or rnd.random() < 0.7]       # some keys missing
                if r % 2:
                    wf += [[u, v, rnd.choice((0, 1, 2, 5))] for u, v in st]                       # weights on source / sink edges too
                yield dict(kind="antichain", edges=E, wf=wf)
    # node names that can collide once auxiliary names are derived from them ('a_b' + 'c' vs 'a' + 'b_c', 'z1', '1' + '0' vs '10'): the width /
    # antichain computed through an auxiliary network must not depend on how the caller names the nodes
    NAMES_U = ("a", "a_b", "b_c", "c", "z1")
    for gi, E in enumerate(_dag_list(tier, NAMES_U)):
        if gi % (3 if q else 1):
            continue
        yield dict(kind="antichain", edges=E, wf=None)
        yield dict(kind="antichain", edges=E, wf=[[u, v, 1 + (i % 2)] for i, (u, v) in enumerate(E)])
    for E in ([["a_b", "c"], ["a", "b_c"]], [["a_b", "c"], ["a", "b_c"], ["a", "c"]], [["1", "0"], ["10", "2"]], [["x_y", "z"], ["x", "y_z"], ["x", "z"], ["x_y", "y_z"]]):
        yield dict(kind="antichain", edges=E, wf=None)
        yield dict(kind="antichain", edges=E, wf=[[u, v, 2] for u, v in E])
    # ---- peel
    for names in (graphs.NAMES1, graphs.NAMES2):
        for gi, E in enumerate(_dag_list(tier, names)):
            if names is graphs.NAMES2 and gi % 5:
                continue
            G = nx.DiGraph()
            G.add_edges_from(E)
            fl = list(graphs.flows_from_paths(G))[: (3 if q else 8)]
            flows = [[[u, v, f[(u, v)]] for u, v in E] for H, f in fl]
            # conserving flows with zero-flow edges: superpositions of a subset of the paths
            P = [p for p in graphs.st_paths(G) if len(p) > 1]
            for r in range(2 if q else 5):
                sub = [p for p in P if rnd.random() < 0.5]
                f = {e: 0 for e in E}
                for p in sub:
                    w = rnd.choice((1, 2, 3, 7))
                    for e in graphs.pedges(p):
                        f[e] += w
                if any(f.values()) and not all(f.values()):
                    flows.append([[u, v, f[(u, v)]] for u, v in E])
            for fi, fe in enumerate(flows):
                yield dict(kind="peel", edges=fe, wt="int")
                if fi % 2 == 0:
                    yield dict(kind="peel", edges=[[u, v, x * 0.5] for u, v, x in fe], wt="float")


# ---------------------------------------------------------------------------------------------
# checks

class _LibRaised(Exception):
    pass


def _lib(what, f, *a, **kw):
    try:
        return f(*a, **kw)
    except Exception as e:
        raise _LibRaised(what, "%s: %s" % (type(e).__name__, e))


def _fail(fp_, what, **detail):
    return dict(ok=False, nontrivial=True, fingerprint=fp_, what=what, detail=detail)


def _graph(E, weights=None):
    G = nx.DiGraph()
    G.graph["id"] = "g"
    for i, e in enumerate(E):
        u, v = e[0], e[1]
        if weights is not None and weights[i] is not None:
            G.add_edge(u, v, flow=weights[i])
        else:
            G.add_edge(u, v)
    return G


def _check_dag_reach(case):
    import flowpaths as fp
    E = [tuple(e) for e in case["edges"]]
    V = _nodes(E)
    D = _lib("stDAG()", fp.stDAG, _graph(E), additional_starts=list(case["starts"]), additional_ends=list(case["ends"]))
    A = _augment(E, V, set(case["starts"]), set(case["ends"]), D.source, D.sink)
    fw, bw = _adj(A)
    allv = V + [D.source, D.sink]
    want = [
        ("reachable_nodes_from", {v: _bfs(fw, v) for v in allv}),
        ("nodes_reaching", {v: _bfs(bw, v) for v in allv}),
        ("reachable_edges_from", {v: {e for e in A if e[0] in _bfs(fw, v)} for v in allv}),
        ("reachable_edges_rev_from", {v: {e for e in A if e[1] in _bfs(bw, v)} for v in allv}),
    ]
    desc = "DAG %s starts=%s ends=%s access order %s" % (E, case["starts"], case["ends"], [want[i][0] for i in case["order"]])
    seq = list(case["order"]) + list(reversed(case["order"])) + list(case["order"])
    for step, i in enumerate(seq):
        name, exp = want[i]
        if case["interleave"] == 1 and step == 1:
            _lib("stDAG.get_width", D.get_width)
        if case["interleave"] == 2 and step in (1, 5):
            _lib("stDAG.compute_max_edge_antichain", D.compute_max_edge_antichain, get_antichain=True)
        got = _lib("stDAG." + name, getattr, D, name)
        got = {k: set(v) for k, v in got.items()}
        if got != exp:
            bad = sorted(k for k in set(got) | set(exp) if got.get(k) != exp.get(k))[0]
            return _fail("stDAG.%s differs from breadth-first search" % name, "%s query (step %d) node %s: %s vs BFS %s; %s" % (
                "first" if step < 4 else "repeated", step, bad, sorted(got.get(bad, ())), sorted(exp.get(bad, ())), desc))
    return dict(ok=True, nontrivial=len(E) > 1)


def _check_dig_reach(case):
    import flowpaths as fp
    E = [tuple(e) for e in case["edges"]]
    V = _nodes(E)
    starts, ends = list(case["starts"]), list(case["ends"])
    base = _graph(E, case["weights"])

    def fresh():
        return _lib("stDiGraph()", fp.stDiGraph, base, additional_starts=starts, additional_ends=ends)
    D = fresh()
    A = _augment(E, V, set(starts), set(ends), D.source, D.sink)
    fw, bw = _adj(A)
    allv = V + [D.source, D.sink]
    wmap = {e: (0 if w is None else w) for e, w in zip(E, case["weights"])}
    ops = [("R", v) for v in allv] + [("A", v) for v in allv] + [("M", None), ("S", None)]
    oi = case["order"]
    if oi == 1:
        ops = ops[::-1]
    elif oi >= 2:
        random.Random(1000 + oi + len(E)).shuffle(ops)
    second = ops[::-1] if oi % 2 else ops
    desc = "digraph %s weights=%s starts=%s ends=%s order#%d %s" % (E, case["weights"], starts, ends, oi, case["mode"])
    for step, (op, v) in enumerate(ops + second):
        if case["mode"] == "cold":
            D = fresh()
            A = _augment(E, V, set(starts), set(ends), D.source, D.sink)
            fw, bw = _adj(A)
            if v is not None and v not in V:
                v = D.source if v.startswith("source") else D.sink
        phase = "first pass" if step < len(ops) else "second pass (warm)"
        if op == "R":
            got, exp = set(_lib("stDiGraph.nodes_reachable", D.nodes_reachable, v)), _bfs(fw, v)
            if got != exp:
                return _fail("stDiGraph.nodes_reachable differs from breadth-first search", "%s node %s: %s vs BFS %s; %s" % (phase, v, sorted(got), sorted(exp), desc))
        elif op == "A":
            got, exp = set(_lib("stDiGraph.nodes_reaching", D.nodes_reaching, v)), _bfs(bw, v)
            if got != exp:
                return _fail("stDiGraph.nodes_reaching differs from breadth-first search", "%s node %s: %s vs BFS %s; %s" % (phase, v, sorted(got), sorted(exp), desc))
        elif op == "M":
            got = _lib("stDiGraph.compute_edge_max_reachable_value", D.compute_edge_max_reachable_value, "flow")
            if set(got) != set(A):
                return _fail("compute_edge_max_reachable_value is not defined on exactly the edges of the graph", "%s; %s" % (sorted(got), desc))
            for (a, b) in A:
                down = _bfs(fw, b)
                up = _bfs(bw, a)
                exp = max([wmap.get((a, b), 0)] + [wmap.get(e, 0) for e in A if e[0] in down] + [wmap.get(e, 0) for e in A if e[1] in up])
                if got[(a, b)] != exp:
                    return _fail("compute_edge_max_reachable_value differs from the maximum over searched edges",
                                 "%s edge %s: %r vs %r; %s" % (phase, (a, b), got[(a, b)], exp, desc))
        else:
            for (a, b) in A:
                got, exp = _lib("stDiGraph.is_scc_edge", D.is_scc_edge, a, b), a in _bfs(fw, b)
                if bool(got) != exp:
                    return _fail("is_scc_edge differs from mutual reachability of the endpoints", "%s edge %s: %r vs %r; %s" % (phase, (a, b), got, exp, desc))
    return dict(ok=True, nontrivial=len(E) > 1)


def _check_antichain(case):
    import flowpaths as fp
    E = [tuple(e) for e in case["edges"]]
    V = _nodes(E)
    D = fp.stDAG(_graph(E))
    ren = {"S": D.source, "T": D.sink}
    A = _augment(E, V, (), (), D.source, D.sink)
    fw, bw = _adj(A)
    if case["wf"] is None:
        wf = None
        w = {e: 1 for e in E}           # documented default: 1 on the graph's own edges, 0 on source / sink edges
    else:
        wf = {(ren.get(u, u), ren.get(v, v)): x for u, v, x in case["wf"]}
        w = dict(wf)
    desc = "DAG %s weight_function=%s" % (E, None if wf is None else [list(x) for x in case["wf"]])
    empty = wf is not None and len(wf) == 0
    tag = " (empty weight function)" if empty else ""
    try:
        val, anti = D.compute_max_edge_antichain(get_antichain=True, weight_function=wf)
        val2 = D.compute_max_edge_antichain(get_antichain=False, weight_function=wf)
    except Exception as e:
        return _fail("compute_max_edge_antichain raises" + tag, "%s: %s; %s" % (type(e).__name__, e, desc))
    anti = [tuple(e) for e in anti]
    if len(set(anti)) != len(anti) or any(e not in A for e in anti):
        return _fail("returned antichain is not a set of edges of the graph" + tag, "%s; %s" % (anti, desc))
    for e, f in itertools.combinations(anti, 2):
        if f[0] in _bfs(fw, e[1]) or e[0] in _bfs(fw, f[1]):
            return _fail("returned antichain contains two edges one of which reaches the other" + tag, "%s and %s in %s; %s" % (e, f, anti, desc))
    got = sum(w.get(e, 0) for e in anti)
    if got != val:
        return _fail("weight of the returned antichain differs from the reported value" + tag, "antichain %s weighs %s, reported %s; %s" % (anti, got, val, desc))
    best = _max_antichain(A, w, fw)
    if val != best:
        return _fail("reported antichain weight is not the maximum over all antichains" + tag, "reported %s, brute force %s; %s" % (val, best, desc))
    if val2 != val:
        return _fail("get_antichain=False reports another value than get_antichain=True" + tag, "%s vs %s; %s" % (val2, val, desc))
    return dict(ok=True, nontrivial=best > 0 and len(E) > 1, detail=dict(best=best))


def _check_peel(case):
    import flowpaths as fp
    wt = int if case["wt"] == "int" else float
    E = [(u, v) for u, v, f in case["edges"]]
    flow = {(u, v): f for u, v, f in case["edges"]}
    G = _graph(E, [f for u, v, f in case["edges"]])
    D = _lib("stDAG()", fp.stDAG, G)
    desc = "flow %s" % (case["edges"],)
    paths, weights = _lib("stDAG.decompose_using_max_bottleneck", D.decompose_using_max_bottleneck, "flow")
    if len(paths) != len(weights):
        return _fail("peeling returns different numbers of paths and weights", desc)
    for p, w in zip(paths, weights):
        r, why = is_route(G, list(p), simple=True)
        if not r:
            return _fail("peeled path is not a source-to-sink path of the base graph", "%s: %s; %s" % (p, why, desc))
        if not w > 0:
            return _fail("peeled path has a non-positive weight", "%s weight %r; %s" % (p, w, desc))
    for e, fe in flow.items():
        if not close(explained(paths, weights, e), fe, wt):
            return _fail("peeled path weights do not add up to the flow on an edge", "edge %s: %s vs %s; paths %s weights %s; %s" % (
                e, explained(paths, weights, e), fe, paths, weights, desc))
    if any(D.edges[e].get("flow") != f for e, f in flow.items()) or any(G.edges[e].get("flow") != f for e, f in flow.items()):
        return _fail("peeling changed the flow values stored in the graph", desc)
    return dict(ok=True, nontrivial=len(paths) > 1)


def check(case):
    try:
        return {"dag_reach": _check_dag_reach, "dig_reach": _check_dig_reach, "antichain": _check_antichain, "peel": _check_peel}[case["kind"]](case)
    except _LibRaised as e:
        return _fail("%s raises on a valid graph" % e.args[0], "%s; case %s" % (e.args[1], case))


def run(tier="quick", seed=0, chunk=0, nchunks=1):
    from vf.bounded import run_cases
    return run_cases(cases(tier), check, chunk, nchunks, engine="rc",
                     rule="dag_reach: all DAGs n<=4 (thorough: + every 9th n=5), two naming schemes, with/without one additional start+end, 12 of the 24 (thorough: all 24) "
                          "first-access orders of the four lazily built tables, each table read three times, width/antichain calls interleaved; "
                          "dig_reach: all digraphs with self-loops on <=3 nodes + sampled 4-node digraphs, source/sink natural or via additional "
                          "start/end, weights from {0,1,2,5,1e9,missing}, 3 (thorough 6) query orders on one object (every query issued twice) + 1 cold order (fresh object "
                          "per query); antichain: all DAGs n<=4 x {None, {}, all-1, all-0, 8 (thorough 16) pseudo-random weightings from {0,1,2,5} (every 4th with 1e6; "
                          "missing keys; weights on source/sink edges)} vs brute force over all antichains; peel: <=3 (thorough 8) positive conserving flows per DAG "
                          "+ flows with zero edges, int and x0.5 float; non-trivial = more than one edge / positive optimum / more than one peeled path",
                     bounds="DAGs n<=%d, digraphs n<=3 (+sampled n=4), weights in {0,1,2,5,1e6,1e9}" % (4 if tier == "quick" else 5))
