"""C08 bounded stand-in: kMinPathError / kMinPathErrorCycles on a small universe vs exact enumeration oracles.

Clauses (taken from the statement of C08), for non-negative not-all-zero values and every k >= the number of source-to-sink routes
needed to cover all non-ignored elements (covering number by exhaustive enumeration over the explicit route list):
the model is solved; the returned routes are routes of the caller's graph, weights and slacks of the requested type; for every non-ignored
element  scale * |value - sum of weights through it| <= sum of (length-scaled) slacks through it  (recomputed exactly); get_objective_value()
is the sum of the returned slacks; that sum is the minimum over all such choices (exact optimum: enumeration for integers, one exact LP per
covering route subset with an `objective < v` unsat certificate for reals); with k=None the model uses the covering number.

Spec-level helpers (instance reading, explicit routes, optimisers, classification of repetition-cap failures) are shared with p_C07."""
import functools
from fractions import Fraction

from rc import p_C07 as A
from rc.p_C07 import Inst, spec_opt, closeq, fail, check_routes, classify_cap, stable_under_cap, F
from rc.common import TOL


@functools.lru_cache(maxsize=4096)
def _width_cached(key):
    I = Inst(dict(key_to_case(key)))
    return I.width(I.routes()), len(I.vectors(I.routes()))


def case_key(c):
    import json
    return json.dumps({k: c[k] for k in c if k not in ("k", "wt", "fam", "plf", "sup")}, sort_keys=True)


def key_to_case(key):
    import json
    d = json.loads(key)
    d.update(k=1, wt="int")
    # values may be floats in the key; the covering number does not depend on them
    return d


def cases(tier):
    """the C07 universe with k mapped onto the covering number w: base k=1 -> w, k=2 -> w+1, k=3 -> None (the model picks w);
    plus path-length-factor cases (DAG model, integer weights, factors whose reading does not depend on how path length is counted)"""
    n = 0
    for c in A.cases(tier, "mpe"):
        w, nv = _width_cached(case_key(c))
        if w is None:
            continue
        if c.get("sup") is not None:
            k = max(w, min(c["k"], len(c["sup"])))
            if k > len(c["sup"]) or k > 3:
                continue
            yield dict(c, k=k, w=w)
            continue
        kk = {1: w, 2: w + 1, 3: None}[c["k"]]
        keff = w if kk is None else kk
        if keff > 3 or (keff == 3 and nv > (12 if c.get("cyc") else 40)) or (keff == 2 and nv > 30):
            continue
        if c.get("cyc") and c["wt"] == "float" and keff >= 2 and nv > 16:
            continue
        yield dict(c, k=kk, w=w)
        n += 1
        # path length factors: constant factor on every non-empty path (ranges [0,0] -> 1.0, [1,1000] -> c)
        if not c.get("cyc") and c["wt"] == "int" and c.get("mode", "edge") == "edge" and kk is not None and n % 5 == 0:
            yield dict(c, k=kk, w=w, plf=[[[0, 0], [1, 1000]], [1.0, (0.5, 2.0)[n // 5 % 2]]], fam=c.get("fam", "") + "/plf")


def check(case):
    import flowpaths as fp
    A.quiet()
    I = Inst(case)
    cls = "kMinPathErrorCycles" if I.cyc else "kMinPathError"
    routes = I.routes()
    w = I.width(routes)
    if w is None:
        return dict(ok=None, nontrivial=False, what="no route cover of the non-ignored elements exists | %s" % I.describe())
    k = w if I.k is None else I.k
    if k < w:
        return dict(ok=None, nontrivial=False, what="k below the covering number: outside C08 | %s" % I.describe())
    plf = case.get("plf")
    factor = Fraction(1)
    J = I
    if plf:
        # every route of a DAG has at least one edge, so its length is >= 1 under any way of counting: factor = plf[1][1]
        factor = F(plf[1][1])
        J = Inst(dict(case, sc=[[list(e) if isinstance(e, tuple) else e, float(I.scale.get(e, Fraction(1)) / factor)] for e in I.X] +
                      [[list(e) if isinstance(e, tuple) else e, 0] for e in I.flow if e not in I.X]))
    opt = spec_opt(J, "mpe", k)
    if opt == "unknown":
        return dict(ok=None, nontrivial=False, what="oracle LP undecided | %s" % I.describe())
    kw = I.lib_kwargs()
    if plf:
        kw.update(path_length_ranges=[list(r) for r in plf[0]], path_length_factors=list(plf[1]))
    try:
        m = getattr(fp, cls)(I.G, k=I.k, **kw)
        solved = bool(m.solve()) and m.is_solved()
        exc = None
    except Exception as e:
        m, solved, exc = None, False, "%s: %s" % (type(e).__name__, str(e)[:200])
    if not solved:
        why = classify_cap(I, m, "mpe", k, None) if (m is not None and opt is not None) else None
        if why is None and A.dead_nodes(I):
            why = "the graph has a node that lies on no source-to-sink walk"
        if why is None and m is not None and A.fractional_cap(m):
            why = "the library's own repetition cap is a non-integral upper bound on an integer edge variable"
        if opt is None:
            return dict(ok=None, nontrivial=False, what="harness: oracle finds no feasible choice although k >= covering number | %s" % I.describe())
        status = exc or getattr(getattr(m, "solver", None), "get_model_status", lambda: "?")()
        return fail(("%s raised for k >= covering number" if exc else "%s unsolved for k >= covering number") % cls + (": " + why if why else ""),
                    "status %s; covering number %s, k=%s, spec optimum %s | %s" % (status, w, I.k, opt, I.describe()), oracle=str(opt), width=w)
    if I.k is None and getattr(m, "k", None) != w:
        return fail("%s with k=None does not use the covering number" % cls, "model k = %s, covering number %s | %s" % (getattr(m, "k", None), w, I.describe()))
    sol = m.get_solution()
    rk = "walks" if I.cyc else "paths"
    R, W, S = sol[rk], sol["weights"], sol["slacks"]
    sold = {rk: R, "weights": W, "slacks": S}
    bad = check_routes(I, cls, R, {"weights": W, "slacks": S}, typed=I.sup is None)
    if bad is None and I.sup is not None:
        bad = check_routes(I, cls, R, {"slacks": S}) or A.check_superset(I, cls, R, W)
    if bad:
        return fail(bad["fingerprint"], bad["what"], solution=sold)
    if I.sup is None and not I.st and not I.en and len(R) != k:
        return fail("%s does not return k routes" % cls, "k=%s (given %s), got %d | %s" % (k, I.k, len(R), I.describe()), solution=sold)
    # slack inequality on every non-ignored element, recomputed exactly
    for e in I.X:
        lhs = I.scale.get(e, Fraction(1)) * abs(I.flow[e] - I.through(R, W, e))
        rhs = factor * I.through(R, S, e)
        if not (lhs <= rhs if I.wt is int else float(lhs) <= float(rhs) + TOL * (1 + abs(float(rhs)))):
            return fail("%s slack inequality violated on a non-ignored element" % cls,
                        "element %s: scale*|value - weights through| = %s > (length-scaled) slacks through = %s | solution %s | %s" % (e, lhs, rhs, sold, I.describe()), solution=sold)
    mine = sum(Fraction(x).limit_denominator(10 ** 9) for x in S)
    issues = []
    if opt is not None and not closeq(mine, opt, I.wt):
        if mine < opt:
            return dict(ok=None, nontrivial=False, what="harness: library total slack %s below oracle optimum %s | solution %s | %s" % (mine, opt, sold, I.describe()))
        if not stable_under_cap(J, "mpe", k, opt):
            return dict(ok=None, nontrivial=False, what="spec optimum changes with the spec-level multiplicity cap: library %s, cap %d optimum %s | %s" % (mine, I.cap, opt, I.describe()))
        why = classify_cap(I, m, "mpe", k, mine)
        issues.append(("%s total slack above the spec minimum: %s" % (cls, why) if why else "%s total slack is not the minimum" % cls,
                       "library %s, spec optimum %s | solution %s | %s" % (mine, opt, sold, I.describe())))
    try:
        ov = m.get_objective_value()
    except Exception as e:
        ov = "raised %s" % type(e).__name__
    if isinstance(ov, str) or not closeq(ov, mine, I.wt):
        issues.append(("%s get_objective_value differs from the sum of the returned slacks" % cls, "reported %s, sum of slacks %s | solution %s | %s" % (ov, mine, sold, I.describe())))
    if issues:
        return fail(issues[0][0], issues[0][1], all_failed_clauses=[i[0] for i in issues], solution=sold, oracle=str(opt))
    return dict(ok=True, nontrivial=len(I.vectors(routes)) > 1 and len(I.X) > 1, detail=dict(opt=str(opt), width=w))


def run(tier="quick", seed=0, chunk=0, nchunks=1):
    from vf.bounded import run_cases
    return run_cases(cases(tier), check, chunk, nchunks, engine="rc",
                     rule="the C07 universe (all DAGs on <=4 (thorough: sampled 5) nodes, 3-node and sampled 4-node digraphs with cycles, defect witnesses; arbitrary values 0..3 / 0..2 "
                          "and conserving flows; ignore / error_scaling variants; additional starts/ends; values on nodes; solution_weights_superset (int); second naming scheme) with "
                          "k = covering number w, w+1 and None; path-length factors 0.5 / 2 on a fifth of the integer DAG cases. Oracle: exhaustive enumeration over explicit route lists "
                          "(integers) / exact LP per covering route subset with unsat certificate (reals). Non-trivial = at least 2 distinct candidate routes and 2 counted elements",
                     bounds="DAGs n<=%d, digraphs n<=4 with SCC-edge multiplicity <= %d at spec level (re-checked at +2 before any optimality verdict), values <=3 (cyclic <=2), k<=3"
                            % (4 if tier == "quick" else 5, A.SPEC_CAP))
