"""C02 bounded stand-in: every solved k-/minimum flow decomposition (DAG and cyclic) explains the flow of every non-ignored edge
(node, for node-weighted input) exactly: sum over the returned routes of weight x number of traversals == input value
(Fraction equality for weight_type=int, |delta| <= 1e-6*(1+|value|) for float), and the weights have the requested numeric type.

The recomputation is done from the RETURNED routes and weights on the CALLER's graph with exact arithmetic; nothing of the library's
own bookkeeping (pi variables, is_valid_solution, _paths_internal) is used.  Instance universe and model builder: rc.p_C01."""
import numbers
from fractions import Fraction
from rc import graphs
from rc import p_C01 as U
from rc.common import close

FDMODELS = ("kFlowDecomp", "MinFlowDecomp", "kFlowDecompCycles", "MinFlowDecompCycles")
FSCALES = (1, 0.5, 0.1)


def _variants(model, tier):
    V = [v for v in U.variants(model, tier)]
    # C02 is about the value clauses: keep every route-producing configuration, and give the main optimisation routes extra weight
    if model == "kFlowDecomp":
        V += [dict(tag="greedy off+ignore1", opts={"optimize_with_greedy": False}, nign=1),
              dict(tag="weights superset+ignore1", superset=True, nign=1), dict(tag="weights superset (greedy on)", superset=True),
              dict(tag="greedy off+constraint", opts={"optimize_with_greedy": False}, cons=1)]
    if model == "MinFlowDecomp":
        V += [dict(tag="guessed weights+ignore1", opts={"optimize_with_greedy": False, "optimize_with_guessed_weights": True}, nign=1),
              dict(tag="guessed weights (greedy on)", opts={"optimize_with_guessed_weights": True}),
              dict(tag="greedy off+ignore1+perturbed", opts={"optimize_with_greedy": False}, nign=1, perturb=True),
              dict(tag="greedy off+node+ignore1", opts={"optimize_with_greedy": False}, origin="node", nign=1)]
    return V


def cases(tier):
    q = tier == "quick"
    ti = 0
    for kind, names, G in U._topologies(tier):
        ti += 1
        models = ("kFlowDecomp", "MinFlowDecomp") if kind == "dag" else ("kFlowDecompCycles", "MinFlowDecompCycles")
        for mi, model in enumerate(models):
            V = _variants(model, tier)
            width = 9 if q else len(V)
            chosen = [V[(ti * 3 + mi + j * 5) % len(V)] for j in range(width)] if q else V
            seen = set()
            for vi, var in enumerate(chosen):
                if var["tag"] in seen or var.get("arbitrary"):
                    continue
                seen.add(var["tag"])
                salt = ti + vi
                mix = (ti * 2654435761 + vi * 40503 + mi * 977) >> 7
                combos = U.wk_combos(model, G, var, names, kind == "cyc", mix, "thorough")
                if q and combos[0][1] is not None:       # both weight types at the cover number w, plus one other (type, k) pair
                    w = max(k for wt_, k in combos if wt_ == "float")
                    combos = sorted(set([("int", w), ("float", w), combos[(mix >> 9) % len(combos)]]), key=lambda x: (x[1], x[0]))
                for wt, k in combos:
                    for rep in range(2 if q else 3):
                        c = U.make_case(model, G, names, var, k, wt, salt + rep, fscale=FSCALES[((mix >> 5) + rep) % 3] if wt == "float" else 1, count=4)
                        if c is not None:
                            yield c
    # one-node routes of node-weighted input
    for names in (graphs.NAMES1, graphs.NAMES2):
        a, b, c3 = names[0], names[1], names[2]
        for model in FDMODELS:
            for wt in ("int", "float"):
                for opts in ({}, {"optimize_with_greedy": False}):
                    if opts and model.endswith("Cycles"):
                        continue
                    base = dict(model=model, names="N2" if names is graphs.NAMES2 else "N1", origin="node", wt=wt, starts=[], ends=[], ignore=[], opts=opts, cons=[], cov=1.0)
                    yield dict(base, tag="single node", k=1, edges=[], nodes={a: 2})
                    yield dict(base, tag="edge + isolated node", k=2, edges=[[a, b, None]], nodes={a: 2, b: 2, c3: 1})


def _count(route, elem, node):
    if node:
        return sum(1 for v in route if v == elem)
    return sum(1 for e in zip(route, route[1:]) if e == elem)


def explained(routes, weights, elem, node):
    tot = Fraction(0)
    for r, w in zip(routes, weights):
        c = _count(r, elem, node)
        if c:
            tot += Fraction(w).limit_denominator(10 ** 9) * c
    return tot


def check(case):
    name = case["model"]
    wt = int if case["wt"] == "int" else float
    node = case["origin"] == "node"
    G, m, solved, sol, note = U.solve(case)
    if not solved:
        return dict(ok=True, nontrivial=False, detail=dict(vacuous=note))
    what0 = "%s tag=%s origin=%s k=%s wt=%s edges=%s nodes=%s starts=%s ends=%s ignore=%s opts=%s superset=%s" % (
        name, case["tag"], case["origin"], case["k"], case["wt"], case["edges"], case.get("nodes"), case["starts"], case["ends"], case["ignore"], case["opts"], case.get("superset"))
    if sol is None:
        return dict(ok=None, nontrivial=False, what="model reports solved but " + note + " | " + what0)
    key = "walks" if U.is_cyclic_model(name) else "paths"
    routes, weights = sol.get(key), sol.get("weights")
    if not isinstance(routes, list) or not isinstance(weights, (list, tuple)) or len(routes) != len(weights) or \
            any(not isinstance(w, numbers.Real) or isinstance(w, bool) or w != w for w in weights):
        return dict(ok=False, nontrivial=True, fingerprint="%s: solved, but the solution has no numeric weight per returned route" % name,
                    what="%s=%r weights=%r | %s" % (key, routes, weights, what0), detail=dict(solution=U._jsonable(sol)))
    # clause 1: every non-ignored element that carries a value is explained
    if node:
        ignored = set(case["ignore"])
        elems = [(v, f) for v, f in (case["nodes"] or {}).items() if f is not None and v not in ignored]
    else:
        ignored = set(tuple(e) for e in case["ignore"])
        elems = [((u, v), f) for u, v, f in case["edges"] if f is not None and (u, v) not in ignored]
    for el, f in elems:
        got = explained(routes, weights, el, node)
        if not close(got, Fraction(f).limit_denominator(10 ** 9) if wt is int else f, wt):
            return dict(ok=False, nontrivial=True,
                        fingerprint="%s: weight x traversals summed over the returned routes differs from the value of a non-ignored %s" % (name, "node" if node else "edge"),
                        what="%s %r: routes explain %s, input value %r; %s=%r weights=%r | %s" % ("node" if node else "edge", el, got, f, key, routes, weights, what0),
                        detail=dict(solution=U._jsonable(sol)))
    # clause 2: numeric type of the weights
    for w in weights:
        good = (isinstance(w, numbers.Integral) and not isinstance(w, bool)) if wt is int else isinstance(w, float)
        if not good:
            return dict(ok=False, nontrivial=True, fingerprint="%s: a returned weight does not have the requested weight_type" % name,
                        what="weight_type=%s, weights=%r (types %s) | %s" % (case["wt"], weights, sorted(set(type(x).__name__ for x in weights)), what0),
                        detail=dict(solution=U._jsonable(sol)))
    return dict(ok=True, nontrivial=any(f for _, f in elems) and len(routes) > 0, detail=dict(routes=len(routes), checked=len(elems)))


def run(tier="quick", seed=0, chunk=0, nchunks=1):
    from vf.bounded import run_cases
    return run_cases(cases(tier), check, chunk, nchunks, engine="rc", exhaustive=False,
                     rule="topologies as in C01 (DAGs n<=4 / sampled 5; digraphs with self-loops n<=3 / sampled 4, strided; two naming schemes); values: superpositions of <=3 "
                          "explicit start-to-end routes with weights 1..3 (float cases also scaled by 0.5 and 0.1), ignored elements optionally missing or perturbed by +1; "
                          "classes kFlowDecomp, MinFlowDecomp, kFlowDecompCycles, MinFlowDecompCycles x rotating window (thorough: all) of variants: greedy route, MILP route "
                          "(greedy off, safety off), optimize_with_guessed_weights, solution_weights_superset, node-weighted, 1-2 ignored edges/nodes, missing attributes, "
                          "additional starts/ends, allow-empty, one constraint, k around the cover number; non-trivial = solved, at least one returned route and one "
                          "non-ignored element with non-zero value checked",
                     bounds="DAGs n<=%d, digraphs n<=%d, k<=4, values<=6" % ((4, 3) if tier == "quick" else (5, 4)))
