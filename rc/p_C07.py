"""C07 bounded stand-in: kLeastAbsErrors / kLeastAbsErrorsCycles on a small universe vs exact enumeration oracles.

Clauses (taken from the statement of C07): a solved model returns k routes of the caller's graph with weights of the
requested type; the per-edge errors and get_objective_value() equal the values recomputed (exactly, Fractions) from the
returned routes and weights; is_valid_solution() accepts the model's own optimum; the (scaled) total error is the minimum
over all choices of k source-to-sink routes and weights (exact optimum by exhaustive enumeration over explicit route lists).

The spec-level helpers at the top (instance building, explicit routes, exact optimisers) are shared with p_C08.
The optimisers are independent of the library's MILP: explicit route lists (oracles.routes_dag / routes_walks), exact
arithmetic, exhaustive enumeration (integers) / enumeration of all LP vertices (reals, LAE) / exact LP per route subset
with an `objective < v` unsat certificate (reals, MPE)."""
import functools
import itertools
import math
from fractions import Fraction

import networkx as nx

from rc import graphs, oracles as O
from rc.common import mkgraph, is_route, TOL

SPEC_CAP = 3          # spec-level cap on the multiplicity of an edge inside a strongly connected component (generous: flows <= 2)


# ---------------------------------------------------------------------------------------------------------------------
# small utilities

def _h(*xs):
    """deterministic hash of small ints (instance selection only)"""
    v = 1469598103
    for x in xs:
        v = (v * 1103515245 + 12345 + (int(x) + 1) * 2654435761) % (1 << 31)
    return v >> 7


def F(x):
    return Fraction(x).limit_denominator(10 ** 6)


def _tup(x):
    return tuple(x) if isinstance(x, (list, tuple)) else x


def _lcm(xs):
    r = 1
    for x in xs:
        r = r * x // math.gcd(r, x)
    return r


_quiet_done = []


def quiet():
    if _quiet_done:
        return
    _quiet_done.append(1)
    try:
        import logging
        import flowpaths as fp
        fp.utils.logger.setLevel(logging.CRITICAL + 1)
    except Exception:
        pass


def closeq(a, b, wt):
    """the property's 'equal': exact for integer weights, 1e-6*(1+|v|) for float weights"""
    if wt is int:
        try:
            return Fraction(a) == Fraction(b)
        except (TypeError, ValueError):
            return False
    return abs(float(a) - float(b)) <= TOL * (1 + abs(float(b)))


# ---------------------------------------------------------------------------------------------------------------------
# explicit routes

def scc_caps(G, cap):
    comp = {}
    for i, c in enumerate(nx.strongly_connected_components(G)):
        for v in c:
            comp[v] = i
    # an edge between two different components can not be traversed twice by any walk (graph fact, not a library rule)
    return {e: (cap if comp[e[0]] == comp[e[1]] else 1) for e in G.edges()}


@functools.lru_cache(maxsize=512)
def _routes(edge_key, cyc, cap, st, en):
    """all source-to-sink routes as (edge multiplicities, node visit counts); cyclic: SCC-edge multiplicity <= cap"""
    G = nx.DiGraph()
    G.add_edges_from(edge_key)
    out = []
    if not cyc:
        for p in O.routes_dag(G, st, en):
            out.append((O.route_mult(p), {v: 1 for v in p}))
        return out
    for m in O.routes_walks(G, scc_caps(G, cap), st, en):
        i, o = {}, {}
        for (u, v), c in m.items():
            o[u] = o.get(u, 0) + c
            i[v] = i.get(v, 0) + c
        out.append((dict(m), {v: max(i.get(v, 0), o.get(v, 0)) for v in set(i) | set(o)}))
    return out


class Inst:
    """spec-level reading of a case dict"""

    def __init__(self, case):
        self.case = case
        self.mode = case.get("mode", "edge")
        self.cyc = bool(case.get("cyc"))
        self.cap = int(case.get("cap", SPEC_CAP))
        self.wt = int if case["wt"] == "int" else float
        self.k = case["k"]
        self.edges = [(u, v, f) for u, v, f in case["edges"]]
        self.nodes = [(n, f) for n, f in case["nodes"]] if case.get("nodes") else None
        self.G = mkgraph(self.edges, node_attr=dict(self.nodes) if self.nodes else None)
        self.st = tuple(case.get("st", ()))
        self.en = tuple(case.get("en", ()))
        if self.mode == "edge":
            self.flow = {(u, v): F(f) for u, v, f in self.edges}
        else:
            self.flow = {n: F(f) for n, f in self.nodes if f is not None}
        self.ign = set(_tup(x) for x in case.get("ign", ()))
        self.scale = {_tup(e): F(s) for e, s in case.get("sc", ())}
        # counted elements: carry a value, not ignored, scale factor > 0
        self.X = [e for e in self.flow if e not in self.ign and self.scale.get(e, 1) != 0]
        self.f = [self.flow[e] for e in self.X]
        self.s = [self.scale.get(e, Fraction(1)) for e in self.X]
        self.edge_key = tuple((u, v) for u, v, _ in self.edges)
        self.sup = list(case["sup"]) if case.get("sup") is not None else None      # solution_weights_superset (DAG models)

    def routes(self, cap=None):
        return _routes(self.edge_key, self.cyc, self.cap if cap is None else cap, self.st, self.en)

    def vectors(self, routes):
        """distinct multiplicity vectors over the counted elements"""
        sel = 0 if self.mode == "edge" else 1
        seen, out = set(), []
        for r in routes:
            v = tuple(r[sel].get(e, 0) for e in self.X)
            if v not in seen:
                seen.add(v)
                out.append(v)
        return out

    def width(self, routes):
        sel = 0 if self.mode == "edge" else 1
        return O.min_cover([r[sel] for r in routes], list(self.X))

    def lib_kwargs(self):
        kw = dict(flow_attr="flow", weight_type=self.wt, flow_attr_origin=self.mode)
        if self.ign:
            kw["elements_to_ignore"] = sorted(self.ign)
        if self.scale:
            kw["error_scaling"] = {e: float(s) if s.denominator != 1 else int(s) for e, s in self.scale.items()}
        if self.st:
            kw["additional_starts"] = list(self.st)
        if self.en:
            kw["additional_ends"] = list(self.en)
        if self.sup is not None:
            kw["solution_weights_superset"] = list(self.sup)
        return kw

    def mult(self, route, e):
        """multiplicity of element e in a returned route (list of nodes)"""
        if self.mode == "edge":
            return sum(1 for a, b in zip(route, route[1:]) if (a, b) == e)
        return sum(1 for a in route if a == e)

    def through(self, routes, vals, e):
        return sum(Fraction(vals[i]).limit_denominator(10 ** 9) * self.mult(r, e) for i, r in enumerate(routes))

    def describe(self):
        c = self.case
        return "%s %s k=%s %s edges=%s%s ign=%s sc=%s st=%s en=%s%s%s" % (
            "cyclic" if self.cyc else "dag", c["wt"], c["k"], self.mode, c["edges"], (" nodes=%s" % c["nodes"]) if c.get("nodes") else "",
            c.get("ign", []), c.get("sc", []), list(self.st), list(self.en),
            (" solution_weights_superset=%s" % self.sup) if self.sup is not None else "", (" plf=%s" % c["plf"]) if c.get("plf") else "")


# ---------------------------------------------------------------------------------------------------------------------
# exact optimisers over an explicit list V of multiplicity vectors (one entry per counted element)
#   f[e] value, s[e] scale factor (> 0) of counted element e.   ub[j]: optional upper bound on weight/slack of route j.
#   distinct=True uses that two copies of one route merge into one (weights and slacks add up) and that a k-model may
#   pad with zero-weight zero-slack copies; it is switched off when upper bounds are present (merging may break them).

def lae_min_int(V, f, s, k, ub=None, distinct=True):
    n = len(f)
    Df, Ds = _lcm([x.denominator for x in f] or [1]), _lcm([x.denominator for x in s] or [1])
    Fi, Si = [int(x * Df) for x in f], [int(x * Ds) for x in s]
    M = max([math.ceil(x) for x in f] or [0])          # a weight above every counted value only adds error: w <= M wlog
    wmax = [M if ub is None else min(M, math.floor(ub[j])) for j in range(len(V))]
    best = [sum(Si[e] * abs(Fi[e]) for e in range(n))]
    live = [j for j in range(len(V)) if any(V[j])]

    def rec(pos, depth, T):
        for a in range(pos, len(live)):
            j = live[a]
            vj = V[j]
            for w in range(1, wmax[j] + 1):
                T2 = [T[e] + w * Df * vj[e] for e in range(n)]
                c = sum(Si[e] * abs(Fi[e] - T2[e]) for e in range(n))
                if c < best[0]:
                    best[0] = c
                if depth + 1 < k:
                    rec(a + 1 if distinct else a, depth + 1, T2)

    rec(0, 0, [0] * n)
    return Fraction(best[0], Df * Ds)


def _solve(rows, rhs):
    """unique solution of a square system over Fractions, None if singular"""
    t = len(rows)
    A = [list(map(Fraction, rows[i])) + [Fraction(rhs[i])] for i in range(t)]
    for c in range(t):
        p = next((r for r in range(c, t) if A[r][c] != 0), None)
        if p is None:
            return None
        A[c], A[p] = A[p], A[c]
        pv = A[c][c]
        A[c] = [x / pv for x in A[c]]
        for r in range(t):
            if r != c and A[r][c] != 0:
                m = A[r][c]
                A[r] = [x - m * y for x, y in zip(A[r], A[c])]
    return [A[i][t] for i in range(t)]


def lae_min_real(V, f, s, k, ub=None, distinct=True):
    """min over k routes and real weights >= 0: for fixed routes the objective is convex piecewise linear in w, its minimum
    over the pointed region w >= 0 is attained at a vertex of the arrangement {sum_i w_i m_i(e) = f_e} u {w_i = 0} (u {w_i = ub_i});
    all such vertices are enumerated exactly."""
    n = len(f)
    live = [j for j in range(len(V)) if any(V[j])]
    best = sum(s[e] * f[e] for e in range(n))
    if not live:
        return best
    t = min(k, len(live)) if distinct else k
    combos = itertools.combinations(live, t) if distinct else itertools.combinations_with_replacement(live, t)
    for S in combos:
        cols = [V[j] for j in S]
        H, seen = [], set()
        for e in range(n):
            row = tuple(c[e] for c in cols)
            if any(row) and (row, f[e]) not in seen:
                seen.add((row, f[e]))
                H.append((row, f[e]))
        for i in range(t):
            unit = tuple(1 if a == i else 0 for a in range(t))
            H.append((unit, Fraction(0)))
            if ub is not None:
                H.append((unit, Fraction(ub[S[i]])))
        for hp in itertools.combinations(H, t):
            w = _solve([h[0] for h in hp], [h[1] for h in hp])
            if w is None or any(x < 0 for x in w):
                continue
            if ub is not None and any(w[i] > ub[S[i]] for i in range(t)):
                continue
            c = sum(s[e] * abs(f[e] - sum(cols[i][e] * w[i] for i in range(t))) for e in range(n))
            if c < best:
                best = c
    return best


def _slack_min_int(cols, E, bound, ubs):
    """min sum rho (ints >= 0) with sum_i rho_i*cols[i][e] >= E[e] for all e, strictly below `bound` (None = no bound)"""
    t, n = len(cols), len(E)
    best = [bound]
    tops = []
    for i in range(t):
        top = max([math.ceil(E[e] / cols[i][e]) for e in range(n) if cols[i][e] > 0 and E[e] > 0] or [0])
        tops.append(top if ubs is None else min(top, ubs[i]))

    def rec(i, resid, acc):
        if best[0] is not None and acc >= best[0]:
            return
        if i == t - 1:
            need = 0
            for e in range(n):
                if resid[e] > 0:
                    if cols[i][e] == 0:
                        return
                    need = max(need, math.ceil(resid[e] / cols[i][e]))
            if need > tops[i]:
                return
            if best[0] is None or acc + need < best[0]:
                best[0] = acc + need
            return
        for rho in range(0, tops[i] + 1):
            rec(i + 1, [resid[e] - rho * cols[i][e] for e in range(n)], acc + rho)

    rec(0, list(E), 0)
    return best[0] if best[0] != bound else None


def mpe_min_int(V, f, s, k, ub=None, distinct=True):
    """min total slack over k routes, integer weights and slacks with s_e*|f_e - sum w_i m_i(e)| <= sum rho_i m_i(e); None = infeasible"""
    n = len(f)
    M = max([math.ceil(x) for x in f] or [0])          # w <= M wlog (lowering a weight above every counted value lowers every error)
    live = [j for j in range(len(V)) if any(V[j])]
    must = [e for e in range(n) if f[e] > 0]
    wmax = [M if ub is None else min(M, math.floor(ub[j])) for j in range(len(V))]
    smax = None if ub is None else [math.floor(ub[j]) for j in range(len(V))]
    best = [None]
    if not must:
        return Fraction(0)

    def rec(pos, S, T):
        if S and all(any(V[j][e] for j in S) for e in must):
            E = [s[e] * abs(f[e] - T[e]) for e in range(n)]
            v = _slack_min_int([V[j] for j in S], E, best[0], None if smax is None else [smax[j] for j in S])
            if v is not None:
                best[0] = v
        if len(S) == k:
            return
        for a in range(pos, len(live)):
            j = live[a]
            for w in range(0, wmax[j] + 1):
                rec(a + 1 if distinct else a, S + [j], [T[e] + w * V[j][e] for e in range(n)])

    rec(0, [], [Fraction(0)] * n)
    return None if best[0] is None else Fraction(best[0])


def mpe_min_real(V, f, s, k, ub=None, distinct=True, timeout_ms=10000):
    """as mpe_min_int with real weights/slacks: one exact LP (z3, linear real arithmetic only) per covering route subset, each new
    incumbent certified by an `objective < v` query that must be unsat.  Returns Fraction, None (infeasible) or "unknown"."""
    import z3
    n = len(f)
    live = [j for j in range(len(V)) if any(V[j])]
    must = [e for e in range(n) if f[e] > 0]
    if not must:
        return Fraction(0)
    if not live:
        return None
    t = min(k, len(live)) if distinct else k
    combos = itertools.combinations(live, t) if distinct else itertools.combinations_with_replacement(live, t)
    rv = lambda x: z3.RealVal(str(Fraction(x)))
    best = None
    for S in combos:
        if not all(any(V[j][e] for j in S) for e in must):
            continue
        sv = z3.Solver()
        sv.set("timeout", timeout_ms)
        w = [z3.Real("w%d" % i) for i in range(t)]
        r = [z3.Real("r%d" % i) for i in range(t)]
        for i in range(t):
            sv.add(w[i] >= 0, r[i] >= 0)
            if ub is not None:
                sv.add(w[i] <= rv(ub[S[i]]), r[i] <= rv(ub[S[i]]))
        for e in range(n):
            a = [V[j][e] for j in S]
            if not any(a):
                continue
            d = rv(s[e]) * (rv(f[e]) - z3.Sum([w[i] * a[i] for i in range(t)]))
            sl = z3.Sum([r[i] * a[i] for i in range(t)])
            sv.add(d <= sl, -d <= sl)
        obj = z3.Sum(r)
        if best is not None:
            sv.add(obj < rv(best))
        res = sv.check()
        if res == z3.unsat:
            continue
        if res != z3.sat:
            return "unknown"
        v = O._val(sv.model().eval(obj, model_completion=True))
        op = z3.Optimize()
        op.set("timeout", timeout_ms)
        op.add(*sv.assertions())
        op.minimize(obj)
        if op.check() == z3.sat:
            v2 = O._val(op.model().eval(obj, model_completion=True))
            if v2 < v:
                v = v2
        for _ in range(200):
            sv.push()
            sv.add(obj < rv(v))
            res = sv.check()
            if res == z3.sat:
                v = O._val(sv.model().eval(obj, model_completion=True))
            sv.pop()
            if res == z3.unsat:
                break
            if res != z3.sat:
                return "unknown"
        else:
            return "unknown"
        best = v
    return best


def sup_opt(I, kind, k):
    """solution_weights_superset L: slot i is either unused or a route carrying weight L[i]; at most k slots used (exhaustive enumeration).
    'mpe' is supported for integer slacks only."""
    V = [v for v in I.vectors(I.routes())]
    L = [F(x) for x in I.sup]
    n = len(I.f)
    must = [e for e in range(n) if I.f[e] > 0]
    best = [None]

    def leaf(S, T):
        if kind == "lae":
            c = sum(I.s[e] * abs(I.f[e] - T[e]) for e in range(n))
        else:
            if not all(any(v[e] for v in S) for e in must):
                return
            if not S:
                c = 0
            else:
                c = _slack_min_int(S, [I.s[e] * abs(I.f[e] - T[e]) for e in range(n)], best[0], None)
                if c is None:
                    return
        if best[0] is None or c < best[0]:
            best[0] = c

    def rec(i, S, T):
        if i == len(L):
            leaf(S, T)
            return
        rec(i + 1, S, T)
        if len(S) < k:
            for v in V:
                rec(i + 1, S + [v], [T[e] + L[i] * v[e] for e in range(n)])

    rec(0, [], [Fraction(0)] * n)
    return None if best[0] is None else Fraction(best[0])


def spec_opt(I, kind, k, routes=None, ub_wmax=None):
    """exact optimum of the LAE ('lae') / MPE ('mpe') problem of instance I with k routes taken from `routes`.
    ub_wmax: the library's w_max; then weight*multiplicity and slack*multiplicity are bounded by it on every counted element."""
    if I.sup is not None:
        return sup_opt(I, kind, k)
    V = I.vectors(I.routes() if routes is None else routes)
    ub = None
    if ub_wmax is not None:
        ub = [Fraction(ub_wmax) / max(max(v, default=0), 1) for v in V]
    fn = {("lae", int): lae_min_int, ("lae", float): lae_min_real, ("mpe", int): mpe_min_int, ("mpe", float): mpe_min_real}[(kind, I.wt)]
    return fn(V, I.f, I.s, k, ub=ub, distinct=ub is None)


# ---------------------------------------------------------------------------------------------------------------------
# the library's own caps (read off the constructed model; used ONLY to name the class of an optimality/feasibility failure)

def lib_capped_routes(I, m, routes):
    """routes whose every edge (and, node mode, node) multiplicity is within the library's per-edge repetition bound"""
    try:
        ubs = m.edge_upper_bounds
        key_e = (lambda e: e) if I.mode == "edge" else (lambda e: (str(e[0]) + ".1", str(e[1]) + ".0"))
        key_n = lambda v: (str(v) + ".0", str(v) + ".1")
        keep = []
        for em, nm in routes:
            ok = all(c <= math.floor(float(ubs[key_e(e)]) + 1e-9) for e, c in em.items())
            if ok and I.mode == "node":
                ok = all(c <= math.floor(float(ubs[key_n(v)]) + 1e-9) for v, c in nm.items())
            if ok:
                keep.append((em, nm))
        return keep, Fraction(m.w_max).limit_denominator(10 ** 6)
    except Exception:
        return None, None


def classify_cap(I, m, kind, k, lib_value):
    """lib_value: the library's recomputed objective, or None when the model was infeasible.  Returns a suffix naming the
    repetition-cap class when the library's outcome is exactly the spec optimum under the library's own caps, else None."""
    if not I.cyc:
        return None
    keep, wmax = lib_capped_routes(I, m, I.routes())
    if keep is None:
        return None
    if keep:
        v1 = spec_opt(I, kind, k, routes=keep)
    else:
        v1 = None if kind == "mpe" else spec_opt(I, kind, k, routes=[])
    same = (lambda a, b: (a is None and b is None) or (a is not None and b is not None and a != "unknown" and closeq(a, b, I.wt)))
    if same(v1, lib_value):
        return "same outcome as the spec problem restricted to the library's own repetition cap on edge multiplicities (largest reachable weight)"
    v2 = (spec_opt(I, kind, k, routes=keep, ub_wmax=wmax) if keep else v1)
    if same(v2, lib_value):
        return "same outcome as the spec problem restricted to the library's own repetition cap and its bound w_max on multiplicity x weight"
    # the product encoding spends ceil(log2(w_max+1)) bits on the edge multiplicity of every counted element
    bitcap = 2 ** math.ceil(math.log2(float(wmax) + 1)) - 1
    sel = 0 if I.mode == "edge" else 1
    keep3 = [r for r in keep if all(r[sel].get(e, 0) <= bitcap for e in I.X)]
    v3 = (spec_opt(I, kind, k, routes=keep3, ub_wmax=wmax) if keep3 else (None if kind == "mpe" else spec_opt(I, kind, k, routes=[])))
    if same(v3, lib_value):
        return ("same outcome as the spec problem restricted to the library's own repetition cap, its bound w_max on multiplicity x weight and the "
                "multiplicity bound 2^ceil(log2(w_max+1))-1 implied by the bit width of its product encoding")
    return None


def fractional_cap(m):
    """does the constructed model carry a non-integral per-edge repetition bound (an upper bound of an integer variable)?"""
    try:
        return any(abs(float(v) - round(float(v))) > 1e-9 for v in m.edge_upper_bounds.values())
    except Exception:
        return False


def dead_nodes(I):
    """nodes of the caller's graph that lie on no source-to-sink route"""
    seen = set()
    for em, nm in I.routes():
        seen.update(nm)
    return [v for v in I.G.nodes() if v not in seen]


def stable_under_cap(I, kind, k, v):
    """cyclic instances: is the spec optimum unchanged when the spec-level multiplicity cap is raised by 2?  (an optimum that keeps
    improving with the cap may be an unattained infimum - then the property's 'minimum' does not exist and nothing is decided)"""
    if not I.cyc:
        return True
    v2 = spec_opt(I, kind, k, routes=I.routes(I.cap + 2))
    if v2 == "unknown" or v is None or v2 is None:
        return v2 == v
    return v2 == v


# ---------------------------------------------------------------------------------------------------------------------
# universe

VARIANTS = ("ign1", "sc05", "sc0", "ign2", "scall", "scmix", "ignsc")


def variant(name, elems, salt):
    """(ignore list, scaling list) for a named configuration variant over the given elements"""
    n = len(elems)
    a, b, c = elems[_h(salt, 1) % n], elems[_h(salt, 2) % n], elems[_h(salt, 3) % n]
    if name == "plain":
        return [], []
    if name == "ign1":
        return [a], []
    if name == "ign2":
        return ([a, b] if a != b else [a]), []
    if name == "sc05":
        return [], [[a, 0.5]]
    if name == "sc0":
        return [], [[a, 0]]
    if name == "scall":
        return [], [[e, 0.5] for e in elems]
    if name == "scmix":
        out = {a: 0}
        out.setdefault(b, 0.5)
        out.setdefault(c, 1)
        return [], [[e, v] for e, v in out.items()]
    if name == "ignsc":
        return [a], ([[b, 0.5]] if b != a else [[c, 0.5]])
    raise ValueError(name)


def values(elems, salt, hi, wt, conserving=None):
    """non-negative, not all zero values; float cases use halves on odd salts"""
    vals = [(_h(salt, i, 7) % (hi + 1)) for i in range(len(elems))] if conserving is None else list(conserving)
    if not any(vals):
        vals[_h(salt) % len(vals)] = 1
    if wt == "float":
        vals = [v * 0.5 if salt % 2 else float(v) for v in vals]
    return vals


def dag_topologies(tier, names):
    for n in ((2, 3, 4) if tier == "quick" else (2, 3, 4, 5)):
        for gi, G in enumerate(graphs.dags(n, names)):
            if n == 5 and gi % 8:
                continue
            if names is graphs.NAMES2 and n == 4 and gi % 4:
                continue
            yield n, gi, G


def cyc_topologies(tier, names=graphs.NAMES1):
    """digraphs with a cycle: (A) every 3-node digraph of graphs.digraphs with a cycle; (B) 4 nodes, x the only source, w the only sink,
    any edges among the two middle nodes (self-loops included); (C) cycles through additional start/end nodes; (D) defect witnesses"""
    for gi, G in enumerate(graphs.digraphs(3, names)):
        if not nx.is_directed_acyclic_graph(G):
            yield "A", gi, list(G.edges()), (), ()
    x, y, z, w = names[:4]
    opt = [(x, y), (x, z), (x, w), (y, w), (z, w), (y, y), (y, z), (z, y), (z, z)]
    for mask in range(1, 1 << 9):
        E = [opt[b] for b in range(9) if mask >> b & 1]
        if not any(e in E for e in opt[5:]) or len(E) > (6 if tier == "quick" else 7):
            continue
        G = nx.DiGraph(E)
        if G.number_of_nodes() < 4 or nx.is_directed_acyclic_graph(G):
            continue
        if any(G.in_degree(v) == 0 for v in (y, z, w)) or any(G.out_degree(v) == 0 for v in (x, y, z)):
            continue
        if len(nx.descendants(G, x)) < 3 or len(nx.ancestors(G, w)) < 3:      # every node lies on a source-to-sink walk
            continue
        if tier == "quick" and _h(mask) % 2:
            continue
        yield "B", mask, E, (), ()
    yield "C", 0, [(x, y), (y, x)], (x,), (y,)
    yield "C", 1, [(x, y), (y, x), (y, z)], (x,), ()
    yield "C", 2, [(x, y), (y, z), (z, x)], (x,), (z,)
    yield "C", 3, [(x, y), (y, z), (z, y)], (), (z,)
    yield "C", 4, [(x, x), (x, y)], (x,), ()


WITNESSES = [
    # D16: the only covering walk re-traverses y->z; D21: optimum needs multiplicity 2 x weight 3 > w_max; D17: halves with float weights
    dict(edges=[["x", "y", 1], ["y", "z", 1], ["z", "y", 1], ["z", "w", 1]], wt="int", k=1, cyc=True, cap=3),
    dict(edges=[["x", "x", 5], ["y", "x", 3], ["x", "z", 3]], wt="int", k=1, cyc=True, cap=3),
    dict(edges=[["x", "y", 0.5], ["y", "y", 1.0], ["y", "z", 0.5]], wt="float", k=1, cyc=True, cap=3),
    dict(edges=[["x", "y", 1], ["y", "y", 2], ["y", "z", 1]], wt="int", k=1, cyc=True, cap=3),
]


def node_version(E, salt, wt, hi, missing):
    """move values to the nodes (edges carry none); optionally one node without the attribute"""
    nodes = []
    for u, v in E:
        for a in (u, v):
            if a not in nodes:
                nodes.append(a)
    vals = values(nodes, salt, hi, wt)
    nl = [[n, vals[i]] for i, n in enumerate(nodes)]
    if missing and len(nl) > 2:
        nl[_h(salt, 11) % len(nl)][1] = None
        if not any(v for _, v in nl if v is not None):
            nl[[i for i, (_, v) in enumerate(nl) if v is not None][0]][1] = 1 if wt == "int" else 1.0
    return nodes, nl


def route_budget_ok(E, st, en, k, wt, cap=SPEC_CAP):
    """keeps the exhaustive oracle cheap: bound on the number of explicit routes per k"""
    n = len(_routes(tuple(E), True, cap, tuple(st), tuple(en)))
    return n <= (40 if k == 1 else 30 if k == 2 else 12)


def cases(tier, kind="lae"):
    """kind 'lae' (C07) or 'mpe' (C08; p_C08 maps k onto the covering number and adds k=None).
    Instances in which every valued element is ignored have nothing to measure and are not generated."""
    for c in _cases(tier, kind):
        ign = set(_tup(x) for x in c.get("ign", ()))
        zero = set(_tup(e) for e, s in c.get("sc", ()) if s == 0)
        elems = [n for n, f in c["nodes"] if f is not None] if c.get("nodes") else [(u, v) for u, v, _ in c["edges"]]
        if any(e not in ign and e not in zero for e in elems):
            yield c


def _cases(tier, kind):
    ks = (1, 2, 3)
    # ---- DAG model, values on edges
    for names in (graphs.NAMES1, graphs.NAMES2):
        for n, gi, G in dag_topologies(tier, names):
            E = list(G.edges())
            cons = [f for _, f in itertools.islice(graphs.flows_from_paths(G), 2)]
            for wi in range(2 if tier == "quick" else 3):
                if names is graphs.NAMES2 and wi:
                    continue
                for k in ks:
                    for wt in ("int", "float"):
                        salt = _h(n, gi, wi, k, wt == "int")
                        con = None
                        if wi == 1:
                            if not cons:
                                continue
                            con = [cons[(gi + k) % len(cons)][e] for e in E]
                        vals = values(E, salt, 3, wt, con)
                        edges = [[u, v, vals[i]] for i, (u, v) in enumerate(E)]
                        vs = ["plain"] if (wi == 0 and names is graphs.NAMES1) else []
                        vs.append(VARIANTS[salt % len(VARIANTS)])
                        if tier != "quick":
                            vs.append(VARIANTS[(salt // 7 + 3) % len(VARIANTS)])
                        for vn in dict.fromkeys(vs):
                            ign, sc = variant(vn, E, salt)
                            yield dict(edges=edges, wt=wt, k=k, ign=[list(e) for e in ign], sc=[[list(e), s] for e, s in sc], fam="dag/" + vn)
    # ---- DAG model, additional starts / ends
    for n, gi, G in dag_topologies(tier, graphs.NAMES1):
        if n < 3 or gi % 3:
            continue
        E = list(G.edges())
        mid = [v for v in G if G.in_degree(v) > 0 and G.out_degree(v) > 0]
        if not mid:
            continue
        st, en = mid[:1], mid[-1:]
        for k in (1, 2):
            for wt in ("int", "float"):
                salt = _h(n, gi, k, wt == "int", 5)
                vals = values(E, salt, 3, wt)
                which = salt % 3
                yield dict(edges=[[u, v, vals[i]] for i, (u, v) in enumerate(E)], wt=wt, k=k,
                           st=st if which != 1 else [], en=en if which != 0 else [], fam="dag/startend")
    # ---- DAG model, solution_weights_superset (k = at most k of the listed weights are used, each at most once)
    for n, gi, G in dag_topologies(tier, graphs.NAMES1):
        if n < 3 or gi % 3 != 2:
            continue
        E = list(G.edges())
        for k in (1, 2):
            for wt in ("int", "float") if kind == "lae" else ("int",):
                salt = _h(n, gi, k, wt == "int", 13)
                vals = values(E, salt, 3, wt)
                sup = ([1, 2], [2, 1, 3], [1, 1], [3, 2])[salt % 4]
                if wt == "float":
                    sup = [x * 0.5 if salt % 2 else float(x) for x in sup]
                ign, sc = variant(("plain", "sc05", "ign1")[salt % 3], E, salt)
                yield dict(edges=[[u, v, vals[i]] for i, (u, v) in enumerate(E)], wt=wt, k=k, sup=sup, ign=[list(e) for e in ign],
                           sc=[[list(e), s_] for e, s_ in sc], fam="dag/superset")
    # ---- DAG model, values on nodes
    for n, gi, G in dag_topologies(tier, graphs.NAMES1):
        if n < 3 or gi % 3 != 1:
            continue
        E = list(G.edges())
        for k in (1, 2):
            for wt in ("int", "float"):
                salt = _h(n, gi, k, wt == "int", 9)
                nodes, nl = node_version(E, salt, wt, 3, missing=salt % 3 == 0)
                have = [a for a, v in nl if v is not None]
                vn = ("plain", "ign1", "sc05", "sc0")[salt % 4]
                ign, sc = variant(vn, have, salt)
                yield dict(edges=[[u, v, None] for u, v in E], nodes=nl, mode="node", wt=wt, k=k, ign=ign, sc=sc, fam="dag/node/" + vn)
                if salt % 4 == 0:
                    # the original edges carry an attribute named like the node attribute: in node mode it must not count
                    yield dict(edges=[[u, v, (9 if wt == "int" else 9.5)] for u, v in E], nodes=nl, mode="node", wt=wt, k=k, ign=ign, sc=sc, fam="dag/node/edgeattr/" + vn)
    # ---- k-MPE, values on nodes, a node of a parallel branch with error scale 0 and k = None (k = 3 in this universe is mapped to None by p_C08):
    #      the default k is the width over the elements that still count
    if kind == "mpe":
        for E, nl, sc in (([("s", "a"), ("s", "b"), ("a", "t"), ("b", "t")], [["s", 2], ["a", 2], ["b", 3], ["t", 2]], [["b", 0]]),
                          ([("s", "a"), ("s", "b"), ("a", "t"), ("b", "t")], [["s", 4], ["a", 1], ["b", 3], ["t", 4]], [["a", 0], ["s", 0.5]]),
                          ([("x", "y"), ("x", "z"), ("y", "w"), ("z", "w"), ("x", "w")], [["x", 3], ["y", 1], ["z", 1], ["w", 3]], [["y", 0], ["z", 0]])):
            for wt in ("int", "float"):
                yield dict(edges=[[u, v, None] for u, v in E], nodes=[[a, (float(x) if wt == "float" else x)] for a, x in nl], mode="node", wt=wt, k=3, ign=[], sc=sc, fam="dag/node/sc0/k=None")
    # ---- DAG model, values on nodes + solution_weights_superset with an offered weight that stays unused BEFORE a used one
    if kind == "lae":
        for E, nl in (([("x", "y"), ("y", "z")], [["x", 3], ["y", 3], ["z", 3]]),
                      ([("x", "y"), ("x", "z"), ("y", "w"), ("z", "w")], [["x", 4], ["y", 3], ["z", 1], ["w", 4]])):
            for k, sup in ((1, [5, 3]), (2, [5, 3, 1]), (2, [7, 1, 3])):
                yield dict(edges=[[u, v, None] for u, v in E], nodes=nl, mode="node", wt="int", k=k, sup=sup, fam="dag/node/superset")
    # ---- bottleneck: b heavy branches enter and leave one light edge; with k = b routes the best solution overshoots the light edge by
    #      more than the largest single value (per-element error above max value; needs the k factor in the variables' upper bounds)
    for b, heavy, light in ((2, 2, 0), (3, 2, 0)) if tier == "quick" else ((2, 2, 0), (2, 3, 1), (3, 2, 0), (3, 3, 1)):
        E = [["a%d" % i, "m", heavy] for i in range(b)] + [["m", "n", light]] + [["n", "b%d" % i, heavy] for i in range(b)]
        for cyc in (False, True):
            for wt in ("int", "float"):
                yield dict(edges=[[u, v, (float(x) if wt == "float" else x)] for u, v, x in E], wt=wt, k=b, fam="bottleneck", **({"cyc": True} if cyc else {}))
    # ---- cyclic model
    for w in WITNESSES:
        yield dict(w, fam="cyc/witness")
    for fam, gi, E, st, en in cyc_topologies(tier):
        for k in ks:
            for wt in ("int", "float"):
                if not route_budget_ok(E, st, en, k, wt):
                    continue
                if k == 3 and (tier == "quick" and _h(gi, 3) % 4):
                    continue
                for wi in range(1 if tier == "quick" else 2):
                    salt = _h(ord(fam), gi, k, wt == "int") if wi == 0 else _h(ord(fam), gi, k, wt == "int", wi)
                    vals = values(E, salt, 2, wt)
                    edges = [[u, v, vals[i]] for i, (u, v) in enumerate(E)]
                    vs = ["plain"]
                    if tier != "quick" or salt % 2:
                        vs.append(VARIANTS[salt % len(VARIANTS)])
                    for vn in vs:
                        ign, sc = variant(vn, E, salt)
                        yield dict(edges=edges, wt=wt, k=k, cyc=True, st=list(st), en=list(en), ign=[list(e) for e in ign],
                                   sc=[[list(e), s] for e, s in sc], fam="cyc/%s/%s" % (fam, vn))
    # cyclic, colliding node names (plain only) and values on nodes (no additional starts/ends)
    for fam, gi, E, st, en in cyc_topologies(tier, graphs.NAMES2):
        if fam == "C" or _h(gi, 17) % (6 if tier == "quick" else 2):
            continue
        for k in (1, 2):
            if not route_budget_ok(E, st, en, k, "int"):
                continue
            salt = _h(ord(fam), gi, k, 23)
            vals = values(E, salt, 2, "int")
            yield dict(edges=[[u, v, vals[i]] for i, (u, v) in enumerate(E)], wt="int", k=k, cyc=True, fam="cyc/names2")
    for fam, gi, E, st, en in cyc_topologies(tier):
        if fam == "C" or _h(gi, 29) % (5 if tier == "quick" else 2):
            continue
        for k in (1, 2):
            for wt in ("int", "float"):
                if not route_budget_ok(E, st, en, k, wt):
                    continue
                salt = _h(ord(fam), gi, k, wt == "int", 31)
                nodes, nl = node_version(E, salt, wt, 2, missing=salt % 4 == 0)
                have = [a for a, v in nl if v is not None]
                vn = ("plain", "ign1", "sc05")[salt % 3]
                ign, sc = variant(vn, have, salt)
                yield dict(edges=[[u, v, None] for u, v in E], nodes=nl, mode="node", wt=wt, k=k, cyc=True, ign=ign, sc=sc, fam="cyc/node/" + vn)


# ---------------------------------------------------------------------------------------------------------------------
# shared result checks

def check_superset(I, cls, routes, weights):
    """solution_weights_superset: at most k routes, their weights a sub-multiset of the given list"""
    import collections
    if len(routes) > I.k:
        return dict(fingerprint="%s with solution_weights_superset uses more than k routes" % cls, what="k=%s, got %d | %s" % (I.k, len(routes), I.describe()))
    left = collections.Counter(F(x) for x in I.sup)
    for w in weights:
        if left[F(w)] <= 0:
            return dict(fingerprint="%s weights are not a sub-multiset of solution_weights_superset" % cls, what="weights %s | %s" % (weights, I.describe()))
        left[F(w)] -= 1
    return None


def check_routes(I, cls, routes, vals_by_name, typed=True):
    """routes are source-to-sink routes of the caller's graph; every value list has one entry per route, of the requested type, >= 0"""
    for r in routes:
        ok, why = is_route(I.G, r, I.st, I.en, simple=not I.cyc)
        if not ok:
            return dict(fingerprint="%s returned a non-route" % cls, what="%s in %s | %s" % (why, r, I.describe()))
    for name, vals in vals_by_name.items():
        if len(vals) != len(routes):
            return dict(fingerprint="%s returns a different number of %s than routes" % (cls, name), what="%d routes, %d %s | %s" % (len(routes), len(vals), name, I.describe()))
        for v in vals if typed else ():
            good = (isinstance(v, int) and not isinstance(v, bool) and v >= 0) if I.wt is int else (isinstance(v, float) and v >= -TOL)
            if not good:
                return dict(fingerprint="%s returned %s not of the requested type or negative" % (cls, name), what="%r in %s | %s" % (v, vals, I.describe()))
    return None


def fail(fp_, what, **detail):
    return dict(ok=False, nontrivial=True, fingerprint=fp_, what=what, detail=detail)


# ---------------------------------------------------------------------------------------------------------------------
# C07

def check(case):
    import flowpaths as fp
    quiet()
    I = Inst(case)
    cls = "kLeastAbsErrorsCycles" if I.cyc else "kLeastAbsErrors"
    routes = I.routes()
    opt = spec_opt(I, "lae", I.k)
    try:
        m = getattr(fp, cls)(I.G, k=I.k, **I.lib_kwargs())
        solved = m.solve() and m.is_solved()
    except Exception as e:           # C07 speaks about solved models only
        return dict(ok=None, nontrivial=False, what="%s raised %s: %s (C07 only constrains solved models) | %s" % (cls, type(e).__name__, str(e)[:200], I.describe()))
    if not solved:
        hint = [h for h, on in (("every counted value is 0", all(x == 0 for x in I.f)), ("a node lies on no source-to-sink walk", bool(dead_nodes(I))),
                                ("non-integral repetition bound on an integer variable", I.cyc and fractional_cap(m))) if on]
        return dict(ok=None, nontrivial=False, what="%s unsolved, status %s (C07 only constrains solved models; spec optimum %s; %s) | %s" % (
            cls, getattr(getattr(m, "solver", None), "get_model_status", lambda: "?")(), opt, ", ".join(hint) or "no known class", I.describe()))
    sol = m.get_solution()
    rk = "walks" if I.cyc else "paths"
    R, W = sol[rk], sol["weights"]
    bad = check_routes(I, cls, R, {"weights": W}, typed=I.sup is None)
    if bad:
        return fail(bad["fingerprint"], bad["what"], solution={rk: R, "weights": W})
    if I.sup is not None:
        bad = check_superset(I, cls, R, W)
        if bad:
            return fail(bad["fingerprint"], bad["what"], solution={rk: R, "weights": W})
    elif not I.st and not I.en and len(R) != I.k:
        return fail("%s does not return k routes" % cls, "k=%s, got %d | %s" % (I.k, len(R), I.describe()), solution={rk: R})
    # recompute errors exactly from the returned routes and weights
    err = {e: abs(I.flow[e] - I.through(R, W, e)) for e in I.X}
    mine = sum(I.scale.get(e, Fraction(1)) * err[e] for e in I.X)
    rep = sol.get("edge_errors", {})
    issues = []
    for e in I.X:
        keys = [e] if I.mode == "edge" else [(str(e) + ".0", str(e) + ".1"), e]
        got = next((rep[q] for q in keys if q in rep), None)
        if got is None or not closeq(got, err[e], I.wt):
            issues.append(("%s per-edge error differs from the error recomputed from the returned routes" % cls,
                           "element %s: reported %s, recomputed %s | solution %s %s | %s" % (e, got, err[e], R, W, I.describe())))
            break
    # optimality
    if opt is not None and not closeq(mine, opt, I.wt):
        if mine < opt:
            return dict(ok=None, nontrivial=False, what="harness: library value %s below oracle optimum %s | %s" % (mine, opt, I.describe()))
        if not stable_under_cap(I, "lae", I.k, opt):
            return dict(ok=None, nontrivial=False, what="spec optimum changes with the spec-level multiplicity cap (infimum may be unattained): library %s, cap %d optimum %s | %s" % (mine, I.cap, opt, I.describe()))
        why = classify_cap(I, m, "lae", I.k, mine)
        issues.insert(0, ("%s total error above the spec minimum: %s" % (cls, why) if why else "%s total error is not the minimum over k routes and weights" % cls,
                          "library %s (recomputed), spec optimum %s | solution %s %s | %s" % (mine, opt, R, W, I.describe())))
    # reported objective, own validity check
    try:
        ov = m.get_objective_value()
    except Exception as e:
        ov = "raised %s" % type(e).__name__
    if isinstance(ov, str) or not closeq(ov, mine, I.wt):
        issues.append(("%s get_objective_value differs from the (scaled) total error recomputed from the returned routes" % cls,
                       "reported %s, recomputed %s | solution %s %s | %s" % (ov, mine, R, W, I.describe())))
    try:
        valid = m.is_valid_solution()
    except Exception as e:
        valid = "raised %s: %s" % (type(e).__name__, str(e)[:100])
    if valid is not True:
        issues.append(("%s is_valid_solution rejects the model's own optimal solution" % cls, "is_valid_solution() = %s | solution %s %s | %s" % (valid, R, W, I.describe())))
    if issues:
        return fail(issues[0][0], issues[0][1], all_failed_clauses=[i[0] for i in issues], solution={rk: R, "weights": W}, oracle=str(opt))
    return dict(ok=True, nontrivial=len(I.vectors(routes)) > 1 and len(I.X) > 1, detail=dict(opt=str(opt)))


def run(tier="quick", seed=0, chunk=0, nchunks=1):
    from vf.bounded import run_cases
    return run_cases(cases(tier, "lae"), check, chunk, nchunks, engine="rc",
                     rule="DAG model: all DAGs on <=4 (thorough: sampled 5) named nodes x {arbitrary values in 0..3, a conserving flow} x k in 1..3 x weight type "
                          "x {plain, one rotating variant of: ignore 1/2 edges, error_scaling 0.5/0/all 0.5/mixed, ignore+scaling}; additional starts/ends; values on nodes "
                          "(with a missing attribute); second node-naming scheme. Cyclic model: all 3-node digraphs with a cycle, sampled 4-node digraphs with two free middle nodes "
                          "(half of those with <=6 edges, thorough all with <=7 edges), cycles through additional start/end nodes, defect witnesses; values in 0..2 (float: also halves). "
                          "Oracle: exhaustive enumeration over explicit route lists, exact arithmetic. Non-trivial = at least 2 distinct candidate routes and 2 counted elements",
                     bounds="DAGs n<=%d, digraphs n<=4 with SCC-edge multiplicity <= %d at spec level (re-checked at +2 before any optimality verdict), values <=3 (cyclic <=2), k<=3"
                            % (4 if tier == "quick" else 5, SPEC_CAP))
