"""C20 bounded stand-in: flowpaths.utils.graphutils.read_graphs on generated files.

Oracle = the printer `fmt(spec)`: a file is generated from a description (blocks of: header lines = id line, extra comment lines, '#S' constraint
lines with duplicates; vertex-count line; 'u v w' edge lines; blank lines at chosen positions) and the parsed graphs are compared with the description
itself (never with a re-parse).  The stored width is compared with a brute-force minimum cover by explicit source-to-sink paths / walks.
Every single-line corruption from a fixed catalogue must raise ValueError.

Reading of the statement (DESIGN 3.0): graphs have >= 1 source and >= 1 sink and every edge lies on a source-to-sink walk (width defined);
header lines of a block are consecutive (docstring of read_graphs), so blank lines are placed at every position EXCEPT inside the header run;
id = first header line that is not a '#S' line; the count line is informational (every 6th block variant announces one vertex more than
the edge lines mention) and the stored n must match the returned graph; constraints are compared as a multiset of edge lists; a zero-vertex block (count line 0, no edge
lines) must give an empty graph with the right id - its n/m/w keys are only checked if present (D14 is a note, not a violation);
'nan'/'inf'/'1_0' are numeric for Python and are not in the corruption catalogue.
"""
import os
import tempfile
import networkx as nx
from rc import graphs, oracles as O

NAMES3 = ("n0", "node_1", "B2", "v.3", "4")
WEIGHTS = [("1", 1.0), ("2.5", 2.5), ("1e3", 1000.0), ("1.0", 1.0), ("1000", 1000.0), ("1000.0", 1000.0), ("2.50", 2.5), ("1E3", 1000.0)]
HP = ["# ", "#", "  #  ", "#\t"]
SEP = [" ", "\t", "  "]
BLANK = ["", "  ", "\t"]


# ---------------------------------------------------------------------------------------------
# universe of block graphs

def _ok_graph(G):
    S = [v for v in G if G.in_degree(v) == 0]
    T = [v for v in G if G.out_degree(v) == 0]
    if not S or not T:
        return False
    fw = set(S)
    for s in S:
        fw |= nx.descendants(G, s)
    bw = set(T)
    for t in T:
        bw |= nx.ancestors(G, t)
    return all(v in fw and v in bw for v in G)


def _graph_universe(tier):
    out = []
    for n in (2, 3, 4):
        for gi, G in enumerate(graphs.dags(n)):
            if n == 4 and tier == "quick" and gi % 2:
                continue
            out.append(list(G.edges()))
    for gi, G in enumerate(graphs.digraphs(3)):
        if nx.is_directed_acyclic_graph(G) or G.number_of_edges() > 6 or not _ok_graph(G):
            continue
        out.append(list(G.edges()))
    for gi, G in enumerate(graphs.digraphs(4, selfloops=False)):
        if nx.is_directed_acyclic_graph(G) or G.number_of_edges() > 6 or not _ok_graph(G):
            continue
        if gi % (41 if tier == "quick" else 7) == 0:
            out.append(list(G.edges()))
    return out


def _rename(E, names):
    m = dict(zip(graphs.NAMES1, names))
    return [(m[u], m[v]) for u, v in E]


def _paths(E, k):
    """node sequences of length k+1 following edges (walks without immediate restrictions; k edges)"""
    seqs = [[u, v] for u, v in E]
    for _ in range(k - 1):
        seqs = [s + [v] for s in seqs for (u, v) in E if u == s[-1]]
    return seqs


def _block(E, bi, blanks=(), zero=False):
    """deterministic variant number bi of a block for edge list E"""
    names = (graphs.NAMES1, graphs.NAMES1, graphs.NAMES2, NAMES3)[bi % 4]
    E = _rename(E, names)
    hp = HP[bi % len(HP)]
    idtext = ("graph number = %d name = g%d" % (bi, bi), "g%d" % bi, "k=%d run, 2 3 1.5" % bi)[bi % 3]
    header = [["id", idtext]]
    cons = []
    if not zero:
        for k in (2, 1, 3):
            P = _paths(E, k)
            if P:
                cons.append(P[(bi * 7 + k) % len(P)])
    v = bi % 7
    if v == 1:
        header += [["c", "extra comment %d" % bi]]
    elif v == 2 and cons:
        header += [["S", cons[0]]]
    elif v == 3 and cons:
        header += [["S", cons[0]], ["c", "a comment between"], ["S", cons[0]]] + [["S", c] for c in cons[1:2]]
    elif v == 4 and cons:
        header = [["S", cons[0]]] + header + [["c", "x y 3"], ["c", "7"]] + [["S", c] for c in cons[1:]] + [["S", cons[0]]]
    elif v == 5 and cons:
        header += [["S", c] for c in cons] + [["S", c] for c in cons]
    elif v == 6:
        header += [["c", "one"], ["c", "# two"]]
    V = []
    for u, w in E:
        for x in (u, w):
            if x not in V:
                V.append(x)
    edges = [] if zero else [[u, w, WEIGHTS[(bi + i) % len(WEIGHTS)][0]] for i, (u, w) in enumerate(E)]
    return dict(header=header, hp=hp, sep=SEP[bi % len(SEP)], count=0 if zero else len(V) + (1 if bi % 6 == 5 else 0), cstyle=bi % 3, edges=edges, blanks=list(blanks), lead=(bi % 5 == 4))


def _nblank_positions(B):
    return len(B["edges"]) + 2        # 0 after header, 1 after count, 2..m between edges, m+1 after the last edge


def _spec(blocks, pre=(), final_newline=True):
    return dict(pre=list(pre), blocks=blocks, final_newline=final_newline)


def fmt(spec):
    """the printer: -> list of [text, tag, block index]; tags: blank, id, c, S, count, edge"""
    out = [[b, "blank", -1] for b in spec["pre"]]
    for bi, B in enumerate(spec["blocks"]):
        hp, sep = B["hp"], B["sep"]
        lead = hp[: len(hp) - len(hp.lstrip())]

        def blank(pos):
            if pos in B["blanks"]:
                out.append([BLANK[(pos + bi) % len(BLANK)], "blank", bi])
        for k, (kind, payload) in enumerate(B["header"]):
            if kind == "S":
                out.append([lead + "#S" + sep + (sep if k % 2 else " ").join(payload), "S", bi])
            else:
                out.append([hp + payload, kind, bi])
        blank(0)
        out.append([("%d", " %d ", "%d\t")[B["cstyle"]] % B["count"], "count", bi])
        blank(1)
        for i, (u, v, w) in enumerate(B["edges"]):
            if i:
                blank(i + 1)
            out.append([("  " if B["lead"] else "") + sep.join((u, v, w)) + (" " if B["lead"] and i % 2 else ""), "edge", bi])
        blank(len(B["edges"]) + 1)
    return out


def render(lines, final_newline=True):
    txt = "\n".join(l[0] for l in lines)
    return txt + ("\n" if final_newline else "")


def expected(spec):
    exp = []
    for B in spec["blocks"]:
        gid = next(p for k, p in B["header"] if k != "S").strip()
        seen, cons = set(), []
        for k, p in B["header"]:
            if k == "S" and tuple(p) not in seen and len(p) >= 2:
                seen.add(tuple(p))
                cons.append([(a, b) for a, b in zip(p, p[1:])])
        wmap = dict(WEIGHTS)
        exp.append(dict(id=gid, constraints=cons, edges={(u, v): wmap[w] for u, v, w in B["edges"]}, zero=B["count"] == 0))
    return exp


# ---------------------------------------------------------------------------------------------
# corruption catalogue (single line)

EDGE_CORR = ["drop_weight", "extra_field", "one_field", "weight_alpha", "weight_comma", "weight_suffix", "weight_sign_only", "weight_two_dots", "weight_hex"]
COUNT_CORR = ["count_alpha", "count_float", "count_two_numbers", "count_exp", "count_removed", "count_hex"]
S_CORR = ["S_unknown_node", "S_reversed", "S_skip_node"]
BLOCK_CORR = ["S_inserted_non_edge"]
CLASS = {"drop_weight": "malformed edge line", "extra_field": "malformed edge line", "one_field": "malformed edge line",
         "weight_alpha": "non-numeric weight", "weight_comma": "non-numeric weight", "weight_suffix": "non-numeric weight", "weight_sign_only": "non-numeric weight",
         "weight_two_dots": "non-numeric weight", "weight_hex": "non-numeric weight",
         "count_alpha": "non-numeric vertex count", "count_float": "non-numeric vertex count", "count_two_numbers": "non-numeric vertex count",
         "count_exp": "non-numeric vertex count", "count_removed": "non-numeric vertex count", "count_hex": "non-numeric vertex count",
         "S_unknown_node": "constraint edge missing from the graph", "S_reversed": "constraint edge missing from the graph",
         "S_skip_node": "constraint edge missing from the graph", "S_inserted_non_edge": "constraint edge missing from the graph"}


def corrupt(spec, lines, idx, kind):
    """returns the corrupted list of lines, or None when the corruption does not apply to that line"""
    text, tag, bi = lines[idx]
    if bi < 0:
        return None
    B = spec["blocks"][bi]
    E = {(u, v) for u, v, w in B["edges"]}
    new = None
    if tag == "edge" and kind in EDGE_CORR:
        u, v, w = text.split()
        sep = B["sep"]
        new = {"drop_weight": sep.join((u, v)), "extra_field": sep.join((u, v, w, "7")), "one_field": u,
               "weight_alpha": sep.join((u, v, "abc")), "weight_comma": sep.join((u, v, "1,5")), "weight_suffix": sep.join((u, v, w + "x")),
               "weight_sign_only": sep.join((u, v, "-")), "weight_two_dots": sep.join((u, v, "1..0")), "weight_hex": sep.join((u, v, "0x1A"))}[kind]
    elif tag == "count" and kind in COUNT_CORR:
        n = B["count"]
        if kind == "count_removed":
            if not B["edges"]:
                return None        # a zero-vertex block without its count line merges with the next block's header: a well-formed file
            return lines[:idx] + lines[idx + 1:]
        new = {"count_alpha": "four", "count_float": "%d.0" % n, "count_two_numbers": "%d %d" % (n, n), "count_exp": "1e1", "count_hex": "0x%d" % n}[kind]
    elif tag == "S" and kind in S_CORR and B["count"] > 0:
        toks = text.split()
        nodes = toks[1:]
        if kind == "S_unknown_node":
            nodes = nodes[:-1] + ["q9"]
        elif kind == "S_reversed":
            nodes = nodes[::-1]
        elif kind == "S_skip_node":
            if len(nodes) < 3:
                return None
            nodes = nodes[:1] + nodes[2:]
        if all((a, b) in E for a, b in zip(nodes, nodes[1:])):
            return None
        new = text.split("#S")[0] + "#S " + " ".join(nodes)
    elif tag == "id" and kind == "S_inserted_non_edge" and B["count"] > 0:
        V = sorted({x for e in E for x in e})
        non = [(a, b) for a in V for b in V if (a, b) not in E]
        if not non:
            return None
        a, b = non[(idx + bi) % len(non)]
        return lines[:idx + 1] + [["#S %s %s" % (a, b), "S", bi]] + lines[idx + 1:]
    if new is None:
        return None
    return lines[:idx] + [[new, tag, bi]] + lines[idx + 1:]


# ---------------------------------------------------------------------------------------------
# cases

def _valid_specs(tier):
    U = _graph_universe(tier)
    blocks = []
    # one block per graph, with a blank line at each single position in turn, at no position, and at all positions
    for gi, E in enumerate(U):
        B0 = _block(E, gi)
        npos = _nblank_positions(B0)
        variants = [()] + [(p,) for p in range(npos)] + [tuple(range(npos))]
        for vi, bl in enumerate(variants):
            B = _block(E, gi, bl)
            yield _spec([B], pre=(["", " "] if vi % 4 == 1 else []), final_newline=(vi + gi) % 5 != 0)
        blocks.append((E, gi))
    # a different block variant per graph (other header shapes / names / separators)
    for gi, E in enumerate(U):
        for shift in ((1, 3) if tier == "quick" else (1, 2, 3, 4, 5, 6)):
            yield _spec([_block(E, gi + shift, ((gi + shift) % 3,))], final_newline=gi % 2 == 0)
    # files with 2 and 3 blocks (incl. zero-vertex blocks first / middle / last)
    n = len(blocks)
    for i in range(0, n, 2 if tier == "quick" else 1):
        E1, g1 = blocks[i]
        E2, g2 = blocks[(i * 5 + 3) % n]
        E3, g3 = blocks[(i * 11 + 7) % n]
        b1 = _block(E1, g1 + 2, (len(E1) + 1,) if i % 2 else ())
        b2 = _block(E2, g2 + 5, (0, 1) if i % 3 == 0 else ())
        b3 = _block(E3, g3 + 1, tuple(range(len(E3) + 2)) if i % 4 == 0 else ())
        z = _block(E1, g1 + 3, (0,) if i % 2 else (), zero=True)
        yield _spec([b1, b2], pre=[""] if i % 5 == 0 else [], final_newline=i % 3 != 0)
        yield _spec([b1, b2, b3], final_newline=i % 4 != 0)
        k = i % 4
        if k == 0:
            yield _spec([z, b2])
        elif k == 1:
            yield _spec([b1, z, b3], final_newline=False)
        elif k == 2:
            yield _spec([b1, z])
        else:
            yield _spec([z], final_newline=i % 8 == 3)


def cases(tier):
    base = []
    for si, spec in enumerate(_valid_specs(tier)):
        yield dict(spec=spec, corrupt=None)
        if si % (4 if tier == "quick" else 2) == 0:
            base.append(spec)
    for spec in base:
        lines = fmt(spec)
        for idx in range(len(lines)):
            for kind in EDGE_CORR + COUNT_CORR + S_CORR + BLOCK_CORR:
                if corrupt(spec, lines, idx, kind) is not None:
                    yield dict(spec=spec, corrupt=dict(line=idx, kind=kind))


# ---------------------------------------------------------------------------------------------
# oracle: width by explicit routes

_wcache = {}


def width(edges):
    key = tuple(sorted(edges))
    if key not in _wcache:
        G = nx.DiGraph()
        G.add_edges_from(edges)
        if nx.is_directed_acyclic_graph(G):
            R = [O.route_mult(p) for p in O.routes_dag(G)]
        else:
            # at most two middle nodes can lie on cycles of a <=4-node graph with a source and a sink: no edge is needed more than twice by a minimum cover
            R = O.routes_walks(G, {e: 2 for e in G.edges()})
        _wcache[key] = O.min_cover(R, list(G.edges()))
    return _wcache[key]


# ---------------------------------------------------------------------------------------------
# check

def _fail(fp_, what, **detail):
    return dict(ok=False, nontrivial=True, fingerprint=fp_, what=what, detail=detail)


def _read(text):
    from flowpaths.utils import graphutils
    fd, path = tempfile.mkstemp(prefix="c20_", suffix=".graph")
    try:
        with os.fdopen(fd, "w") as f:
            f.write(text)
        return graphutils.read_graphs(path)
    finally:
        os.unlink(path)


def check(case):
    spec = case["spec"]
    lines = fmt(spec)
    if case["corrupt"] is not None:
        c = case["corrupt"]
        bad = corrupt(spec, lines, c["line"], c["kind"])
        text = render(bad, spec["final_newline"])
        cls = CLASS[c["kind"]]
        try:
            gs = _read(text)
        except ValueError:
            return dict(ok=True, nontrivial=True, detail=dict(kind=c["kind"]))
        except Exception as e:
            return _fail("corrupted file (%s) raises another exception than ValueError" % cls, "%s: %s; corruption %s of line %d in %r" % (type(e).__name__, e, c["kind"], c["line"], text))
        return _fail("corrupted file (%s) is accepted" % cls, "corruption %s of line %d in %r -> %d graphs %s" % (
            c["kind"], c["line"], text, len(gs), [sorted(g.edges(data="flow")) for g in gs]))
    text = render(lines, spec["final_newline"])
    exp = expected(spec)
    try:
        gs = _read(text)
    except Exception as e:
        return _fail("read_graphs raises on a well-formed file", "%s: %s on %r" % (type(e).__name__, e, text))
    if len(gs) != len(exp):
        return _fail("number of graphs differs from the number of blocks", "%d graphs for %d blocks in %r" % (len(gs), len(exp), text))
    notes = []
    for bi, (g, x) in enumerate(zip(gs, exp)):
        where = "block %d of %r" % (bi, text)
        if g.graph.get("id") != x["id"]:
            return _fail("graph id is not the first header line", "id %r, expected %r; %s" % (g.graph.get("id"), x["id"], where))
        if set(g.edges()) != set(x["edges"]):
            return _fail("parsed edges differ from the listed edges", "%s vs %s; %s" % (sorted(g.edges()), sorted(x["edges"]), where))
        if set(g.nodes()) != {n for e in x["edges"] for n in e}:
            return _fail("parsed nodes differ from the endpoints of the listed edges", "%s; %s" % (sorted(g.nodes()), where))
        for e, w in x["edges"].items():
            got = g.edges[e].get("flow")
            if not isinstance(got, float) or got != w:
                return _fail("parsed weight differs from the listed weight", "edge %s: %r vs %r; %s" % (e, got, w, where))
        gc = g.graph.get("constraints")
        if gc is None or sorted([tuple(map(tuple, c)) for c in gc]) != sorted([tuple(c) for c in x["constraints"]]):
            return _fail("constraints differ from the distinct '#S' lines", "%s vs %s; %s" % (gc, x["constraints"], where))
        if x["zero"]:
            for k in ("n", "m", "w"):
                if k in g.graph and g.graph[k] != 0:
                    return _fail("stored n/m/w of a zero-vertex block is not 0", "%s=%r; %s" % (k, g.graph[k], where))
            if "n" not in g.graph:
                notes.append("zero-vertex block without n/m/w keys (D14 note)")
            continue
        n, m = len({v for e in x["edges"] for v in e}), len(x["edges"])
        if g.graph.get("n") != n or g.graph.get("m") != m:
            return _fail("stored n/m differ from the graph", "n=%r m=%r, graph has %d nodes %d edges; %s" % (g.graph.get("n"), g.graph.get("m"), n, m, where))
        w = width(list(x["edges"]))
        if w is None:
            return dict(ok=None, nontrivial=False, what="width oracle found no cover; " + where)
        if g.graph.get("w") != w:
            return _fail("stored width differs from the brute-force minimum cover", "w=%r, oracle %d; %s" % (g.graph.get("w"), w, where))
    return dict(ok=True, nontrivial=len(lines) > 3, detail=dict(blocks=len(exp), notes=sorted(set(notes))))


def run(tier="quick", seed=0, chunk=0, nchunks=1):
    from vf.bounded import run_cases
    return run_cases(cases(tier), check, chunk, nchunks, engine="rc",
                     rule="files printed by fmt(spec): 1-3 blocks; block graphs = DAGs on <=4 nodes (quick: every 2nd n=4) and cyclic digraphs (<=6 edges, every edge on a "
                          "source-to-sink walk) on 3 (all) / 4 (sampled) nodes; three node-naming schemes; id line + 0-2 extra comment lines, 0-3 '#S' lines with "
                          "duplicates (also before the id line); 4 header prefixes, 3 separators, 8 spellings of weights {1,2.5,1e3}; a blank line at no / each single / "
                          "every position outside the header run, blank lines before the first header, missing final newline; zero-vertex blocks first/middle/last; "
                          "for every 4th (thorough: 2nd) file, every applicable single-line corruption from the catalogue (%d kinds: malformed edge line, non-numeric "
                          "weight, non-numeric / missing vertex count, constraint edge not in the graph) must raise ValueError; non-trivial = more than 3 lines"
                          % len(CLASS),
                     bounds="<=3 blocks, <=4 nodes, <=6 edges per block")
