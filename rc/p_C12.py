"""C12 bounded complement (never counted as proved): the real helpers on real HiGHS over small parameter grids and call histories.
It (i) cross-validates the lemma correspondence of the proofs (bit widths incl. powers of two and non-integers), (ii) conformance-probes
the assumed highspy contract A1, and (iii) is the replay vehicle: every failure is a concrete input."""
import itertools
import math

from vf import replay as rp


def _f(x):
    return float(x)


def cases(tier):
    ubs = [0, 1, 2, 3, 4, 5, 7, 8, 9, 15, 16, 17, 2.5, 6.5] + ([31, 32, 33, 64, 100, 127, 128] if tier == "thorough" else [])
    for ub in ubs:
        for lb in (0, -2):
            xs = range(0, int(math.floor(ub)) + 1)
            if ub > 20:
                xs = sorted(set([0, 1, int(ub) // 2, int(ub) - 1, int(ub)]))
            for x in xs:
                for c in sorted(set([lb, ub, (lb + ub) / 2.0, 0, 1 if ub >= 1 else 0])):
                    if lb <= c <= ub:
                        yield dict(kind="integer-product", lb=lb, ub=ub, x=x, c=c)
    for lb, ub in [(-3, 4), (0, 0), (0, 2.5), (1, 4), (-3, -1), (0, 1)]:
        for b in (0, 1):
            for c in sorted(set([lb, ub, (lb + ub) / 2.0])):
                yield dict(kind="binary-product", lb=lb, ub=ub, x=b, c=c)
    pool = [(0, 1), (2, 3), (5, 9), (4, 4)]
    consts = [0, 1, 100, -7]
    for r in (1, 2, 3):
        for rs in itertools.permutations(pool, r):
            for cs in itertools.islice(itertools.permutations(consts, r), 0, 6 if tier == "quick" else 24):
                for t, (lo, hi) in enumerate(rs):
                    for x in sorted(set([lo, hi, (lo + hi) / 2.0])):
                        yield dict(kind="piecewise", ranges=[list(q) for q in rs], constants=list(cs), t=t, x=x)
    # bound-queue histories over 3 columns: ops are (op, col, value); 'opt' flushes the queues
    ops = [("fix", 0, 2.0), ("lower", 1, 1.0), ("lower", 1, 3.0), ("fix", 2, 0.0), ("lower", 0, 1.0), ("opt", None, None)]
    L = 4 if tier == "quick" else 5
    for seq in itertools.product(range(len(ops)), repeat=L):
        hist = [ops[i] for i in seq] + [ops[-1]]
        # skip histories that queue the same column twice in one batch (HiGHS rejects duplicate index sets: outside Inv_SW)
        ok, batch = True, {"fix": set(), "lower": set()}
        for op, col, v in hist:
            if op == "opt":
                batch = {"fix": set(), "lower": set()}
            elif col in batch[op]:
                ok = False
                break
            else:
                batch[op].add(col)
        if ok and sum(1 for o in hist if o[0] == "opt") >= 2 or (ok and tier == "thorough"):
            yield dict(kind="bound-history", history=[list(o) for o in hist])
    # objective replacement histories: each objective is (coefs over 3 columns, constant, sense)
    objs = [([1, 0, 0], 0, "minimize"), ([0, 1, 0], 10, "minimize"), ([1, 1, 0], 0, "maximize"), ([0, 0, -2], 5, "max"), ([2, 0, 1], 0, "min"), ([0, 3, 0], -4, "minimize")]
    for seq in itertools.permutations(range(len(objs)), 2 if tier == "quick" else 3):
        yield dict(kind="objective-history", objectives=[list(objs[i]) for i in seq])
    # objectives in which a column occurs in several terms (the coefficients add up), alone and replacing / replaced by another objective
    rep = [([[0, 1], [1, 1.5], [0, 1]], 0, "minimize"), ([[2, -1], [2, -1], [1, 2]], 3, "maximize"), ([[0, 2], [0, -2], [1, 1]], 0, "min")]
    for r in rep:
        yield dict(kind="objective-history", objectives=[[None, r[1], r[2], r[0]]])
        for o in objs[:3]:
            yield dict(kind="objective-history", objectives=[list(o), [None, r[1], r[2], r[0]]])
            yield dict(kind="objective-history", objectives=[[None, r[1], r[2], r[0]], list(o)])
    for variant in ("mapping", "pairs", "subset", "binary", "permuted-mapping", "permuted-pairs", "repeated-variable", "interior-swap"):
        yield dict(kind="get-values", variant=variant)
    # solve, read, change the model, solve again, read again - under every combination of (finite time limit, extra custom timeout): the second read must
    # show the second solve's values whichever branch of optimize() ran
    for tl in (None, 30):
        for custom in (False, True):
            yield dict(kind="get-values", variant="re-solve", time_limit=tl, custom_timeout=custom)
    for probe in ("changeColsBounds", "getCols-order", "addVariables-index-order", "allVariableValues-by-column", "infeasible-status-name"):
        yield dict(kind="highspy-conformance", probe=probe)


def _bound_history(case):
    import numpy as np
    s = rp._sw()
    cols0 = [(0.0, 7.0), (0.0, 9.0), (0.0, 5.0)]
    vs = s.add_variables([0, 1, 2], "v", lb=[c[0] for c in cols0], ub=[c[1] for c in cols0], var_type="continuous")
    ref = [list(c) for c in cols0]
    pend_fix, pend_lb = [], []
    s.set_objective(vs[0] + vs[1] + vs[2], sense="minimize")
    for op, col, v in case["history"]:
        if op == "fix":
            s.queue_fix_variable(vs[col], v)
            pend_fix.append((col, v))
        elif op == "lower":
            s.queue_set_var_lower_bound(vs[col], v)
            pend_lb.append((col, v))
        else:
            s.optimize()
            for col2, v2 in pend_fix:
                ref[col2] = [v2, v2]
            for col2, v2 in pend_lb:
                ref[col2][0] = v2
            pend_fix, pend_lb = [], []
            st, nn, cost, lower, upper, nnz = s.solver.getCols(3, np.arange(3, dtype=np.int32))
            obs = [[float(lower[i]), float(upper[i])] for i in range(3)]
            if any(abs(obs[i][0] - ref[i][0]) > 1e-9 or abs(obs[i][1] - ref[i][1]) > 1e-9 for i in range(3)):
                return False, dict(expected=ref, observed=obs)
            if s._pending_fix_vars or s._pending_fix_vals or s._pending_lb_vars or s._pending_lb_vals:
                return False, dict(queues_not_empty=True)
    return True, dict(final=ref)


def _objective_history(case):
    s = rp._sw()
    box = [(0.0, 3.0), (1.0, 4.0), (-2.0, 2.0)]
    vs = s.add_variables([0, 1, 2], "v", lb=[b[0] for b in box], ub=[b[1] for b in box], var_type="continuous")
    last = None
    for ob in case["objectives"]:
        coefs, const, sense = ob[0], ob[1], ob[2]
        if len(ob) > 3:            # explicit term list [(column, coefficient), ...] with repeated columns
            expr = sum((c * vs[i] for i, c in ob[3]), start=0 * vs[ob[3][0][0]]) + const
            coefs = [sum(c for i, c in ob[3] if i == col) for col in range(3)]
        else:
            expr = sum((c * vs[i] for i, c in enumerate(coefs) if c), start=0 * vs[0]) + const
        s.set_objective(expr, sense=sense)
        last = (coefs, const, sense)
    s.optimize()
    coefs, const, sense = last
    mn = sense in ("minimize", "min")
    want = const + sum(c * (box[i][0] if (c > 0) == mn else box[i][1]) for i, c in enumerate(coefs) if c)
    got = s.get_objective_value()
    ok = s.get_model_status() == "kOptimal" and abs(got - want) <= 1e-7
    return ok, dict(expected=want, observed=got, status=s.get_model_status())


def _get_values_resolve(case):
    import flowpaths.utils.solverwrapper as sw
    kw = {}
    if case.get("time_limit") is not None:
        kw["time_limit"] = case["time_limit"]
    if case.get("custom_timeout"):
        kw["use_also_custom_timeout"] = True
    s = sw.SolverWrapper(**kw)
    vs = s.add_variables(["a", "b"], "v", lb=0, ub=9, var_type="integer")
    s.add_constraint(vs["a"] + vs["b"] >= 3, name="c0")
    s.set_objective(2 * vs["a"] + vs["b"], sense="minimize")
    s.optimize()
    first = {k: round(float(x), 6) for k, x in s.get_values(vs).items()}
    s.add_constraint(vs["b"] <= 1, name="c1")
    s.optimize()
    second = {k: round(float(x), 6) for k, x in s.get_values(vs).items()}
    ok = s.get_model_status() == "kOptimal" and first == {"a": 0.0, "b": 3.0} and second == {"a": 2.0, "b": 1.0}
    return ok, dict(first=first, second=second, expected_first={"a": 0, "b": 3}, expected_second={"a": 2, "b": 1}, status=s.get_model_status())


def _get_values(case):
    if case["variant"] == "re-solve":
        return _get_values_resolve(case)
    s = rp._sw()
    vs = s.add_variables(["a", "b", "c", "d"], "v", lb=0, ub=9, var_type="integer")
    fixed = {"a": 1, "b": 0, "c": 7, "d": 1}
    for k, v in fixed.items():
        s.add_constraint(vs[k] == v, name="f" + k)
    s.set_objective(vs["a"] + 0, sense="minimize")
    s.optimize()
    v = case["variant"]
    if v == "mapping":
        got = s.get_values(vs)
        want = fixed
    elif v == "pairs":
        got = s.get_values([(k, vs[k]) for k in ("d", "a")])
        want = {"d": 1, "a": 1}
    elif v == "subset":
        got = s.get_values({k: vs[k] for k in ("c",)})
        want = {"c": 7}
    elif v == "permuted-mapping":            # first and last column span exactly len(request) columns, the interior is permuted
        got = s.get_values({k: vs[k] for k in ("a", "c", "b", "d")})
        want = fixed
    elif v == "permuted-pairs":
        got = s.get_values([(k, vs[k]) for k in ("b", "d", "a", "c")])
        want = fixed
    elif v == "repeated-variable":           # keys chosen by the caller: two keys may name the same variable
        got = s.get_values([("u", vs["b"]), ("v", vs["b"]), ("w", vs["d"])])
        want = {"u": 0, "v": 0, "w": 1}
    elif v == "interior-swap":
        got = s.get_values({("k", i): vs[k] for i, k in enumerate(("b", "c", "a", "d"))})
        want = {("k", 0): 0, ("k", 1): 7, ("k", 2): 1, ("k", 3): 1}
    else:
        got = s.get_values({k: vs[k] for k in ("a", "b", "d")}, binary_values=True)
        want = {"a": 1, "b": 0, "d": 1}
        try:
            s.get_values({"c": vs["c"]}, binary_values=True)
            return False, dict(note="binary_values=True accepted the value 7")
        except Exception:
            pass
    ok = set(got.keys()) == set(want.keys()) and all(abs(got[k] - want[k]) <= 1e-7 for k in want)
    return ok, dict(expected=want, observed={k: float(x) for k, x in got.items()})


def _conformance(case):
    import numpy as np
    import highspy
    p = case["probe"]
    s = rp._sw()
    h = s.solver
    if p == "addVariables-index-order":
        vs = s.add_variables(["q", "r", "s"], "v", lb=[1, 2, 3], ub=[4, 5, 6], var_type="continuous")
        st, n, cost, lo, up, nnz = h.getCols(3, np.arange(3, dtype=np.int32))
        ok = [vs[k].index for k in ("q", "r", "s")] == [0, 1, 2] and list(map(float, lo)) == [1, 2, 3] and list(map(float, up)) == [4, 5, 6]
        return ok, dict(indexes=[vs[k].index for k in ("q", "r", "s")], lower=list(map(float, lo)), upper=list(map(float, up)))
    vs = s.add_variables([0, 1, 2], "v", lb=[1, 2, 3], ub=[4, 5, 6], var_type="continuous")
    if p == "changeColsBounds":
        h.changeColsBounds(2, np.array([2, 0], dtype=np.int32), np.array([0.5, 1.5]), np.array([9.0, 8.0]))
        st, n, cost, lo, up, nnz = h.getCols(3, np.arange(3, dtype=np.int32))
        ok = list(map(float, lo)) == [1.5, 2.0, 0.5] and list(map(float, up)) == [8.0, 5.0, 9.0]
        return ok, dict(lower=list(map(float, lo)), upper=list(map(float, up)))
    if p == "getCols-order":
        h.changeColsCost(3, np.arange(3, dtype=np.int32), np.array([10.0, 20.0, 30.0]))
        r = h.getCols(2, np.array([0, 2], dtype=np.int32))
        ok = len(r) == 6 and list(map(float, r[2])) == [10.0, 30.0] and list(map(float, r[3])) == [1.0, 3.0] and list(map(float, r[4])) == [4.0, 6.0]
        # the contract used by the proofs also says: an index set that is not increasing is REJECTED (so callers must sort)
        r2 = h.getCols(2, np.array([2, 0], dtype=np.int32))
        ok = ok and r2[0] != highspy.HighsStatus.kOk
        return ok, dict(tuple=[str(x) for x in r], unsorted_status=str(r2[0]))
    if p == "allVariableValues-by-column":
        s.set_objective(vs[0] - vs[1] + vs[2], sense="minimize")
        s.optimize()
        vals = list(map(float, h.allVariableValues()))
        return vals == [1.0, 5.0, 3.0], dict(values=vals)
    if p == "infeasible-status-name":
        s.add_constraint(vs[0] >= 100, name="inf")
        s.set_objective(vs[0] + 0, sense="minimize")
        s.optimize()
        import flowpaths.utils.solverwrapper as sw
        return s.get_model_status() == sw.SolverWrapper.infeasible_status == "kInfeasible", dict(status=s.get_model_status())
    return None, dict()


def check(case):
    k = case["kind"]
    if k == "integer-product" or k == "binary-product":
        exact, det = rp.native_product_check("integer" if k.startswith("integer") else "binary", case["lb"], case["ub"], case["x"], case["c"])
        return dict(ok=exact, nontrivial=True, fingerprint="%s helper does not force product = factor*continuous for an admissible pair" % k,
                    what="%s lb=%s ub=%s x=%s c=%s: %s" % (k, case["lb"], case["ub"], case["x"], case["c"], det["observed"]), detail=det)
    if k == "piecewise":
        exact, det = rp.native_piecewise_check([tuple(r) for r in case["ranges"]], case["constants"], case["t"], case["x"])
        return dict(ok=exact, nontrivial=len(case["ranges"]) > 1, fingerprint="piecewise-constant helper does not force y to the constant of x's range",
                    what="ranges=%s constants=%s x=%s: %s" % (case["ranges"], case["constants"], case["x"], det["observed"]), detail=det)
    if k == "bound-history":
        ok, det = _bound_history(case)
        return dict(ok=ok, nontrivial=True, fingerprint="queued bound changes do not set exactly the requested bounds (history)", what="%s -> %s" % (case["history"], det), detail=det)
    if k == "objective-history":
        ok, det = _objective_history(case)
        return dict(ok=ok, nontrivial=True, fingerprint="a replaced objective does not fully replace the previous one", what="%s -> %s" % (case["objectives"], det), detail=det)
    if k == "get-values":
        ok, det = _get_values(case)
        return dict(ok=ok, nontrivial=True, fingerprint="values are not read back for exactly the variables asked for", what="%s%s -> %s" % (case["variant"], (" time_limit=%s custom_timeout=%s" % (case.get("time_limit"), case.get("custom_timeout"))) if case["variant"] == "re-solve" else "", det), detail=det)
    if k == "highspy-conformance":
        ok, det = _conformance(case)
        return dict(ok=ok, nontrivial=True, fingerprint="highspy API contract A1 probe failed: %s" % case["probe"], what=str(det), detail=det)
    return dict(ok=None, nontrivial=False, what="unknown case kind")


def run(tier="quick", seed=0, chunk=0, nchunks=1):
    from vf.bounded import run_cases
    return run_cases(cases(tier), check, chunk, nchunks, engine="rc",
                     rule="parameter grids for the three modelling helpers (bit widths incl. powers of two, non-integer and zero bounds; unsorted range lists; constant spreads), "
                          "all operation histories of length 4-5 over fix/lower/optimize on 3 columns, all ordered pairs of objectives from a pool of 6, get_values variants, 5 highspy conformance probes; "
                          "non-trivial = every case except single-range piecewise lists",
                     bounds="ub<=17 (thorough 128), <=3 ranges, histories of <=5 operations, <=3 objectives",
                     assumptions=["real HiGHS decides feasibility/optimality of each tiny model (tolerance 1e-6)"])
