"""C15 bounded stand-in: MinGenSet and MinSetCover against plain-enumeration oracles.

MinGenSet: numbers = subsets of 1..9 with <= 4 numbers (plus a few duplicated / halved lists), several totals, both weight types,
max_multiplicity 1..2, lower bounds, partition constraints.  Integer optimum by plain enumeration of all multisets of k non-negative
integers summing to the total; real-valued optimum by an exact z3 decision (Real values, explicit multiplicity choice) whose sat model
is re-verified in Fraction arithmetic and whose minimality is certified by an unsat query at k-1 (feasibility is monotone in k because
zero values are allowed).  The z3 encoding is itself cross-checked against the enumeration on every integer case.
MinSetCover: universes <= 5, <= 5 subsets, weights 1..3 and default weights; optimum by enumeration of all sub-families."""
import functools
import itertools
from fractions import Fraction

KMAX = 6


def _F(x):
    return Fraction(x).limit_denominator(10 ** 6)


# ---------------------------------------------------------------------------------------------------------------------
# oracles (independent of the library's product / big-M formulation)

def _reach(g, m):
    """all sums sum_i x_i g_i with 0 <= x_i <= m"""
    r = {0}
    for v in g:
        r = {a + c * v for a in r for c in range(m + 1)}
    return r


def _partition_ok(g, parts):
    """can the multiset g be split into len(parts) groups (every element in exactly one group) with group sums = parts?"""
    parts = list(parts)

    def rec(i, rem):
        if i == len(g):
            return all(x == 0 for x in rem)
        seen = set()
        for j in range(len(rem)):
            if rem[j] in seen or rem[j] < g[i]:
                continue
            seen.add(rem[j])
            rem[j] -= g[i]
            if rec(i + 1, rem):
                rem[j] += g[i]
                return True
            rem[j] += g[i]
        return False
    return rec(0, parts)


def generates(g, numbers, total, m, parts):
    g = [_F(x) for x in g]
    if any(x < 0 for x in g) or sum(g) != _F(total):
        return False
    r = _reach(g, m)
    return all(_F(a) in r for a in numbers) and all(_partition_ok(sorted(g, reverse=True), [_F(x) for x in c]) for c in parts)


def _int_multisets(total, k, lo=0):
    if k == 1:
        if total >= lo:
            yield (total,)
        return
    for first in range(lo, total // k + 1):
        for rest in _int_multisets(total - first, k - 1, first):
            yield (first,) + rest


@functools.lru_cache(maxsize=None)
def genset_min_int(numbers, total, m, parts):
    """(k, witness) smallest number of non-negative integers ... by plain enumeration; None if none with <= KMAX elements"""
    for k in range(1, KMAX + 1):
        for g in _int_multisets(total, k):
            if generates(g, numbers, total, m, parts):
                return k, g
    return None


def _z3_feasible(numbers, total, m, parts, k, integer):
    import z3
    s = z3.Solver()
    g = [(z3.Int if integer else z3.Real)("g%d" % i) for i in range(k)]
    rv = lambda x: z3.RealVal(str(_F(x)))
    for i in range(k):
        s.add(g[i] >= 0)
        if i:
            s.add(g[i - 1] <= g[i])
    s.add(z3.Sum([z3.ToReal(x) if integer else x for x in g]) == rv(total))
    for j, a in enumerate(numbers):
        terms = []
        for i in range(k):
            ch = [z3.Bool("x%d_%d_%d" % (i, j, c)) for c in range(m + 1)]
            s.add(z3.PbEq([(b, 1) for b in ch], 1))
            for c in range(1, m + 1):
                terms.append(z3.If(ch[c], c * (z3.ToReal(g[i]) if integer else g[i]), z3.RealVal(0)))
        s.add(z3.Sum(terms) == rv(a))
    for ci, c in enumerate(parts):
        sel = [[z3.Bool("y%d_%d_%d" % (ci, i, j)) for j in range(len(c))] for i in range(k)]
        for i in range(k):
            s.add(z3.PbEq([(b, 1) for b in sel[i]], 1))
        for j in range(len(c)):
            s.add(z3.Sum([z3.If(sel[i][j], z3.ToReal(g[i]) if integer else g[i], z3.RealVal(0)) for i in range(k)]) == rv(c[j]))
    r = s.check()
    if r == z3.sat:
        mod = s.model()
        vals = []
        for x in g:
            v = mod.eval(x, model_completion=True)
            vals.append(Fraction(v.numerator_as_long(), v.denominator_as_long()) if not integer else Fraction(v.as_long()))
        return True, tuple(vals)
    if r == z3.unsat:
        return False, None
    return None, None


@functools.lru_cache(maxsize=None)
def genset_min_z3(numbers, total, m, parts, integer):
    """(k, witness) with the witness verified exactly and k-1 proved infeasible; None = none up to KMAX; 'unknown' = no certified answer"""
    for k in range(1, KMAX + 1):
        ok, w = _z3_feasible(numbers, total, m, parts, k, integer)
        if ok is None:
            return "unknown"
        if ok:
            if not generates(w, numbers, total, m, parts):
                return "unknown"          # model does not replay exactly: do not trust
            return k, w
    return None


def setcover_min(universe, subsets, weights):
    best = None
    n = len(subsets)
    for mask in range(1 << n):
        chosen = [i for i in range(n) if mask >> i & 1]
        if all(any(e in subsets[i] for i in chosen) for e in universe):
            w = sum(weights[i] for i in chosen)
            if best is None or w < best:
                best = w
    return best


# ---------------------------------------------------------------------------------------------------------------------
# cases

def _gs(numbers, total, wt="int", m=1, lb=1, parts=(), **kw):
    d = dict(kind="genset", numbers=list(numbers), total=total, wt=wt, m=m, lb=lb, parts=[list(p) for p in parts])
    d.update(kw)
    return d


def _genset_cases(tier):
    quick = tier == "quick"
    idx = 0
    for n in (1, 2, 3, 4):
        for nums in itertools.combinations(range(1, 10), n):
            idx += 1
            mx, sm = max(nums), sum(nums)
            totals = sorted({mx, mx + 1, sm, mx + 3})
            for ti, total in enumerate(totals):
                if total > 14:
                    continue
                if quick and n == 4 and (idx + ti) % 6:
                    continue
                if quick and n == 3 and (idx + ti) % 4:
                    continue
                # the base configuration in both weight types
                yield _gs(nums, total, "int")
                if not quick or (idx + ti) % 2 == 0:
                    yield _gs(nums, total, "float")
                # multiplicity 2
                if not quick or (idx + ti) % 3 == 0:
                    yield _gs(nums, total, "int" if (idx + ti) % 2 else "float", m=2)
                # lower bounds
                if (idx + ti) % 4 == 1 or not quick:
                    yield _gs(nums, total, "int" if idx % 2 else "float", lb=2 + (idx % 2))
                # a number above the total is reachable only with multiplicity 2
                if ti == 0 and idx % 5 == 0 and mx >= 2:
                    yield _gs(nums, mx - 1, "int" if idx % 2 else "float", m=2)
            # halved values exercise non-integer floats
            if idx % 4 == 0 or not quick:
                yield _gs([x / 2 for x in nums], sm / 2, "float", m=1 + idx % 2)
            # partition constraints (multiplicity 1 only): partitions of the total built from the numbers themselves and from arbitrary splits
            if idx % 3 == 0 or not quick:
                total = sm
                if total <= 14 and n >= 2:
                    yield _gs(nums, total, "int" if idx % 2 else "float", parts=[list(nums)])
                    yield _gs(nums[:-1], total, "int", parts=[[nums[-1], total - nums[-1]]])
                total = mx + 2
                yield _gs(nums, total, "int" if idx % 2 == 0 else "float", parts=[[1, total - 1], [2, total - 2]] if idx % 2 else [[total - mx, mx]])
    # two or more partition constraints at once: EVERY constraint must be a partition of the multiset (each element exactly once per constraint)
    def _partitions(total, parts, lo=1):
        if parts == 1:
            if total >= lo:
                yield [total]
            return
        for a in range(lo, total // parts + 1):
            for rest in _partitions(total - a, parts - 1, a):
                yield [a] + rest
    pi = 0
    for total in ((6,) if quick else (5, 6, 7, 8)):
        ps = [p for r in (2, 3) for p in _partitions(total, r)]
        for c1 in ps:
            for c2 in ps:
                if c1 == c2:
                    continue
                pi += 1
                yield _gs([], total, "int" if pi % 3 else "float", parts=[c1, c2])
                if pi % 4 == 0:
                    yield _gs([ps[pi % len(ps)][0]], total, "float" if pi % 3 else "int", parts=[c2, c1[::-1]])
                if pi % 7 == 0 or not quick:
                    yield _gs([1, total - 2], total, "int", parts=[c1, c2])
        two = [p for p in ps if len(p) == 2]
        for i in range(len(two)):
            trip = [two[i], two[(i + 1) % len(two)], two[(i + 2) % len(two)]]
            if len(two) >= 3:
                yield _gs([], total, "int" if i % 2 else "float", parts=trip)
                yield _gs([two[i][0]], total, "int", parts=trip[::-1])
    yield _gs([], 6, "int", parts=[[2, 2, 2], [1, 2, 3]])
    yield _gs([3], 6, "float", parts=[[2, 2, 2], [1, 2, 3]])
    yield _gs([2, 3], 6, "int", parts=[[1, 2, 3], [2, 2, 2], [3, 3]])
    yield _gs([1.5], 6, "float", parts=[[1.5, 4.5], [3, 3]])
    # curated: duplicated numbers, number == total, witnesses of D1''
    for c in (_gs([1, 2, 4], 7, "float"), _gs([1, 2, 4], 7, "int"), _gs([3], 10, "float"), _gs([3], 10, "int"), _gs([2, 2, 3], 7, "int"),
              _gs([5, 5], 5, "int"), _gs([1, 1, 1, 1], 4, "int"), _gs([7], 7, "float"), _gs([1, 2, 3], 3, "int"), _gs([1, 3], 2, "float", m=2),
              _gs([2, 1], 3, "int", m=2), _gs([1, 2, 3, 4], 10, "int", parts=[[4, 6]]), _gs([2, 5, 7, 9], 12, "int", m=2),
              _gs([1, 2, 4, 8], 15, "int"), _gs([1, 2, 4, 8], 15, "float"), _gs([1, 2, 3], 6, "int", lb=5), _gs([4, 6], 10, "float", lb=1),
              # multiplicities above 2: k elements generate more than 2^k - 1 different numbers (a subset-counting bound does not apply)
              _gs([1, 2, 3], 1, "int", m=3), _gs([2, 4, 6, 8], 5, "int", m=4), _gs([1, 2, 3], 1, "float", m=3), _gs([3, 6, 9], 3, "int", m=3),
              _gs([1, 2, 3, 4, 5], 3, "int", m=3)):
        yield c


def _setcover_cases(tier):
    quick = tier == "quick"
    idx = 0
    for u in (1, 2, 3, 4, 5):
        universe = list(range(u))
        cand = [list(c) for r in range(1, u + 1) for c in itertools.combinations(universe, r)]
        for n in (1, 2, 3, 4, 5):
            fams = itertools.combinations(range(len(cand)), n)
            total = 1
            for i in range(n):
                total = total * (len(cand) - i) // (i + 1)
            budget = (120 if quick else 1500)
            stride = max(1, total // budget)
            for fi, fam in enumerate(fams):
                if fi % stride:
                    continue
                subsets = [cand[i] for i in fam]
                if set(universe) - set(x for s in subsets for x in s):
                    continue          # no cover exists: outside the property's domain
                idx += 1
                pats = ([1, 2, 3, 1, 2], [3, 1, 2, 2, 1], [2, 2, 1, 3, 3], [1, 1, 1, 1, 1])
                w = pats[idx % 4][:n]
                yield dict(kind="setcover", universe=universe, subsets=subsets, weights=w)
                if idx % 3 == 0:
                    yield dict(kind="setcover", universe=universe, subsets=subsets, weights=None)
                if idx % 7 == 0:
                    yield dict(kind="setcover", universe=universe, subsets=subsets[::-1], weights=[w[(i + 1) % n] for i in range(n)])
                if idx % 4 == 1:
                    zp = ([0, 1, 1.5, 0, 2], [1.5, 0, 1, 2.5, 0], [0, 0, 1, 0.5, 3], [2, 1, 0, 1, 0.5])[(idx // 4) % 4]
                    yield dict(kind="setcover", universe=universe, subsets=subsets, weights=[zp[(i + idx) % 5] for i in range(n)])
    # curated: string elements, duplicated subsets, duplicated universe elements, a subset with foreign elements
    yield dict(kind="setcover", universe=["a", "b", "c"], subsets=[["a"], ["b", "c"], ["a", "b"], ["c"]], weights=[1, 3, 1, 1])
    yield dict(kind="setcover", universe=["a", "b", "c"], subsets=[["a"], ["b", "c"]], weights=None)
    yield dict(kind="setcover", universe=[0, 1, 1, 2], subsets=[[0, 1], [0, 1], [2], [1, 2]], weights=[2, 1, 1, 3])
    yield dict(kind="setcover", universe=[0, 1], subsets=[[0, 9], [1, 9], [0, 1, 9]], weights=[1, 1, 3])
    yield dict(kind="setcover", universe=[0, 1], subsets=[[0, 9], [1, 9], [0, 1, 9]], weights=[1, 1, 2])
    yield dict(kind="setcover", universe=[1, 2, 3], subsets=[[1, 2], [3], [1, 2, 3]], weights=[0, 1, 1.5])
    yield dict(kind="setcover", universe=[1, 2, 3], subsets=[[1, 2], [3], [1, 2, 3]], weights=[0, 2, 1.5])
    yield dict(kind="setcover", universe=[1, 2, 3], subsets=[[1], [2], [3], [1, 2, 3]], weights=[0, 0, 0, 0.5])
    yield dict(kind="setcover", universe=[1, 2], subsets=[[1], [2], [1, 2]], weights=[0.5, 0.5, 0])
    # found by the thorough tier: HiGHS returns 1.0000000000000002 for a chosen subset (D15, exact `== 1` on a float)
    yield dict(kind="setcover", universe=[0, 1, 2, 3, 4], subsets=[[0, 3], [0, 1, 2], [0, 2, 4], [1, 2, 4], [1, 3, 4]], weights=[2, 2, 1, 3, 3])
    yield dict(kind="setcover", universe=[0, 1, 2, 3, 4], subsets=[[1, 2], [0, 1, 3], [0, 1, 4], [2, 3, 4], [0, 1, 3, 4]], weights=[2, 2, 1, 3, 3])


def cases(tier):
    for c in _genset_cases(tier):
        yield c
    for c in _setcover_cases(tier):
        yield c


# ---------------------------------------------------------------------------------------------------------------------
# checks

def _quiet():
    import logging
    logging.getLogger("flowpaths").setLevel(logging.CRITICAL + 1)


def _check_genset(case):
    import flowpaths as fp
    wt = int if case["wt"] == "int" else float
    numbers, total, m, lb = case["numbers"], case["total"], case["m"], case["lb"]
    parts = tuple(tuple(p) for p in case["parts"])
    key = (tuple(_F(x) for x in numbers), _F(total), m, tuple(tuple(_F(x) for x in p) for p in parts))
    integral = all(x.denominator == 1 for x in key[0]) and key[1].denominator == 1 and all(x.denominator == 1 for p in key[3] for x in p)
    # ---- oracle
    if wt is int:
        if not integral:
            return dict(ok=None, nontrivial=False, what="integer weight type with non-integer input: outside the harness")
        o = genset_min_int(tuple(int(x) for x in key[0]), int(key[1]), m, tuple(tuple(int(x) for x in p) for p in key[3]))
        z = genset_min_z3(key[0], key[1], m, key[3], True)
        if z == "unknown" or (o is None) != (z is None) or (o is not None and o[0] != z[0]):
            return dict(ok=None, nontrivial=False, what="enumeration oracle %s and z3 oracle %s disagree / unknown" % (o, z))
    else:
        o = genset_min_z3(key[0], key[1], m, key[3], False)
        if o == "unknown":
            return dict(ok=None, nontrivial=False, what="z3 gave no certified answer")
        if integral:
            oi = genset_min_int(tuple(int(x) for x in key[0]), int(key[1]), m, tuple(tuple(int(x) for x in p) for p in key[3]))
            if oi is not None and (o is None or o[0] > oi[0]):
                return dict(ok=None, nontrivial=False, what="real-valued oracle %s worse than the integer enumeration %s" % (o, oi))
    kw = dict(weight_type=wt, max_multiplicity=m, lowerbound=lb)
    if parts:
        kw["partition_constraints"] = [list(p) for p in parts]
    inst = "numbers=%s total=%s %s" % (numbers, total, {k: (v.__name__ if k == "weight_type" else v) for k, v in kw.items()})
    model = fp.MinGenSet(list(numbers), total, **kw)
    ok = model.solve()
    solved = bool(ok) and model.is_solved()
    if o is None:
        # no generating multiset with <= KMAX elements: outside the property's domain unless the library claims an answer
        if not solved:
            return dict(ok=True, nontrivial=False, detail=dict(oracle=None))
        expected = None
    else:
        expected = max(lb, o[0])
    if not solved:
        below = expected < len(numbers)
        return dict(ok=False, nontrivial=True, fingerprint="MinGenSet unsolved although a generating multiset exists" + (" (optimum below the number of input numbers)" if below else " (with partition constraints)" if parts else ""),
                    what="solve() = %s on %s; oracle minimum %d, witness %s" % (ok, inst, expected, [str(x) for x in o[1]]), detail=dict(oracle=expected))
    sol = model.get_solution()
    tol = lambda v: 0 if wt is int else 1e-6 * (1 + abs(float(v)))
    if wt is int and not all(isinstance(x, int) and not isinstance(x, bool) for x in sol):
        return dict(ok=False, nontrivial=True, fingerprint="MinGenSet returned non-integer values for weight_type=int", what="%s on %s" % (sol, inst), detail=dict(solution=sol))
    if any(float(x) < -tol(0) for x in sol):
        return dict(ok=False, nontrivial=True, fingerprint="MinGenSet returned a negative value", what="%s on %s" % (sol, inst), detail=dict(solution=sol))
    if abs(float(sum(sol)) - float(total)) > tol(total):
        return dict(ok=False, nontrivial=True, fingerprint="MinGenSet solution does not sum to the total", what="%s sums to %s on %s" % (sol, sum(sol), inst), detail=dict(solution=sol))
    # every input number is a sub-multiset sum with multiplicities <= m
    for a in numbers:
        best = min(abs(float(r) - float(a)) for r in _reach([float(x) if wt is float else x for x in sol], m))
        if best > tol(a):
            return dict(ok=False, nontrivial=True, fingerprint="MinGenSet solution does not generate an input number",
                        what="%s is not a sum of %s with multiplicities <= %d (closest differs by %g) on %s" % (a, sol, m, best, inst), detail=dict(solution=sol))
    for c in parts:
        if not _partition_close(list(sol), list(c), tol):
            return dict(ok=False, nontrivial=True, fingerprint="MinGenSet solution violates a partition constraint",
                        what="%s cannot be split into groups summing to %s on %s" % (sol, list(c), inst), detail=dict(solution=sol))
    if expected is None:
        return dict(ok=None, nontrivial=False, what="library found a valid generating multiset of size %d beyond the oracle's bound %d" % (len(sol), KMAX))
    if len(sol) != expected:
        return dict(ok=False, nontrivial=True, fingerprint="MinGenSet solution is not a smallest generating multiset",
                    what="returned %s (%d values), oracle minimum %d (true minimum %d, lowerbound %d; witness %s) on %s" % (sol, len(sol), expected, o[0], lb, [str(x) for x in o[1]], inst),
                    detail=dict(solution=sol, oracle=expected))
    return dict(ok=True, nontrivial=o[0] >= 2, detail=dict(k=expected))


def _partition_close(g, parts, tol):
    g = sorted((float(x) for x in g), reverse=True)

    def rec(i, rem):
        if i == len(g):
            return all(abs(r) <= tol(p) for r, p in zip(rem, parts))
        for j in range(len(rem)):
            if rem[j] - g[i] < -tol(parts[j]):
                continue
            rem[j] -= g[i]
            if rec(i + 1, rem):
                return True
            rem[j] += g[i]
        return False
    return rec(0, [float(p) for p in parts])


def _check_setcover(case):
    import flowpaths as fp
    universe, subsets, weights = case["universe"], case["subsets"], case["weights"]
    w = weights if weights is not None else [1] * len(subsets)
    opt = setcover_min(universe, subsets, w)
    inst = "universe=%s subsets=%s weights=%s" % (universe, subsets, weights)
    if opt is None:
        return dict(ok=True, nontrivial=False, detail=dict(oracle=None))
    try:
        if weights is None:
            model = fp.MinSetCover(list(universe), [list(s) for s in subsets])
        else:
            model = fp.MinSetCover(list(universe), [list(s) for s in subsets], list(weights))
        ok = model.solve()
    except (TypeError, AttributeError, KeyError, IndexError) as e:
        return dict(ok=False, nontrivial=True, fingerprint="MinSetCover crashes on a coverable instance (%s)" % type(e).__name__,
                    what="%s: %s on %s" % (type(e).__name__, e, inst), detail=dict(oracle=opt))
    if not ok or not model.is_solved():
        return dict(ok=False, nontrivial=True, fingerprint="MinSetCover unsolved although a cover exists", what="solve() = %s on %s (oracle %s)" % (ok, inst, opt), detail=dict(oracle=opt))
    sol = model.get_solution()
    if not isinstance(sol, list) or not all(isinstance(i, int) and 0 <= i < len(subsets) for i in sol) or len(set(sol)) != len(sol):
        return dict(ok=False, nontrivial=True, fingerprint="MinSetCover solution is not a list of distinct subset indices", what="%r on %s" % (sol, inst), detail=dict(solution=sol))
    for e in universe:
        if not any(e in subsets[i] for i in sol):
            return dict(ok=False, nontrivial=True, fingerprint="MinSetCover solution does not cover the universe", what="element %r uncovered by %s on %s" % (e, sol, inst), detail=dict(solution=sol))
    got = sum(w[i] for i in sol)
    if abs(got - opt) > 1e-9:
        return dict(ok=False, nontrivial=True, fingerprint="MinSetCover solution is not of minimum total weight", what="indices %s weigh %s, oracle minimum %s on %s" % (sol, got, opt, inst),
                    detail=dict(solution=sol, oracle=opt))
    as_sets = model.get_solution(as_subsets=True)
    if as_sets != [subsets[i] for i in sol]:
        return dict(ok=False, nontrivial=True, fingerprint="MinSetCover get_solution(as_subsets=True) differs from the indexed subsets", what="%r vs indices %s on %s" % (as_sets, sol, inst),
                    detail=dict(solution=sol))
    return dict(ok=True, nontrivial=len(subsets) > 1, detail=dict(weight=opt))


def check(case):
    _quiet()
    if case["kind"] == "genset":
        return _check_genset(case)
    return _check_setcover(case)


def run(tier="quick", seed=0, chunk=0, nchunks=1):
    from vf.bounded import run_cases
    return run_cases(cases(tier), check, chunk, nchunks, engine="rc",
                     rule="MinGenSet: every subset of 1..9 with <=4 numbers (quick: strided for 3 and 4 numbers) x totals {max, max+1, max+3, sum} <= 14 x weight type, "
                          "max_multiplicity 1..2, lower bounds 2..3, halved (non-integer) float lists, single partition constraints, every ordered pair of distinct partitions of 6 "
                          "(thorough: 5..8) into 2-3 parts and triples of 2-part partitions as simultaneous constraints (empty and small number lists), curated duplicates / D1'' witnesses; "
                          "oracle = plain enumeration of integer multisets, exact z3 decision for real values (witness re-verified in Fractions, k-1 unsat), cross-checked on integer cases; "
                          "MinSetCover: universes 1..5, strided families of 1..5 non-empty subsets with a cover, weights 1..3 patterns, default weights, and mixed int/float patterns containing 0, oracle = all 2^n sub-families; "
                          "non-trivial = optimum >= 2 (MinGenSet) / more than one subset (MinSetCover)",
                     bounds="numbers subset of 1..9, <=4 numbers, total<=14, multiplicity<=2, generating sets <=%d values; universes<=5, <=5 subsets, weights in {0,0.5,1,1.5,2,2.5,3}" % KMAX,
                     exhaustive=False)
