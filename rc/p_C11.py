"""C11 bounded stand-in: node-weighted solving vs solving the explicitly node-expanded instance; NodeExpandedDiGraph round trips.

Clauses (from the property statement):
  E   for every class with a node mode: model(G, origin/cover_type='node', features) and the same class in edge mode on the explicit expansion
      X(G) (node v -> edge (v|in, v|out) carrying v's value, every original edge (u,v) -> (u|out, v|in) ignored, constraints / ignore lists /
      error scaling / additional starts and ends translated by this harness, independently of NodeExpandedDiGraph) agree on solved-ness and objective
  N   routes returned in node mode are routes of the caller's graph in the caller's node names (from a source / additional start to a sink /
      additional end)
  M   a node lacking the attribute behaves as an ignored node (same solved-ness and objective as giving it a value and listing it in
      elements_to_ignore; and it is ignored in the expansion of clause E)
  T   NodeExpandedDiGraph: get_expanded_edge, edges_to_ignore, expanded constraints, expanded starts/ends, get_condensed_paths(expand(p)) = p,
      get_condensed_graph() = original
  S   MinFlowDecomp / MinFlowDecompCycles in node mode with additional starts/ends (edge mode of these two classes rejects starts/ends, so
      there is no expanded run to compare with): solved with the minimum number of routes of an explicit node-route oracle"""
import itertools
from fractions import Fraction
import networkx as nx
from rc import graphs, oracles as O
from rc.common import mkgraph, is_route, close

DAGM = ("kFlowDecomp", "MinFlowDecomp", "kLeastAbsErrors", "kMinPathError", "MinErrorFlow", "kPathCover", "MinPathCover")
CYCM = ("kFlowDecompCycles", "MinFlowDecompCycles", "kLeastAbsErrorsCycles", "kMinPathErrorCycles", "kPathCoverCycles", "MinPathCoverCycles")
FD = ("kFlowDecomp", "MinFlowDecomp", "kFlowDecompCycles", "MinFlowDecompCycles")
COV = ("kPathCover", "MinPathCover", "kPathCoverCycles", "MinPathCoverCycles")
ERR = ("kLeastAbsErrors", "kMinPathError", "kLeastAbsErrorsCycles", "kMinPathErrorCycles")
HAS_K = ("kFlowDecomp", "kLeastAbsErrors", "kMinPathError", "kPathCover", "kFlowDecompCycles", "kLeastAbsErrorsCycles", "kMinPathErrorCycles", "kPathCoverCycles")
HAS_SCALE = ERR + ("MinErrorFlow",)
HAS_CONS = tuple(m for m in DAGM + CYCM if m != "MinErrorFlow")
# classes whose edge mode accepts additional starts/ends (so that an expanded run exists)
HAS_STARTS_EDGE = ("kLeastAbsErrors", "kMinPathError", "MinErrorFlow", "kPathCover", "MinPathCover",
                   "kFlowDecompCycles", "kLeastAbsErrorsCycles", "kMinPathErrorCycles", "kPathCoverCycles", "MinPathCoverCycles")
IN, OUT = "|in", "|out"


def cyclic(model):
    return model.endswith("Cycles")


# ------------------------------------------------------------------------------------------------ universe

def _lcg(seed):
    x = (seed * 2654435761 + 977) & 0xFFFFFFFF
    while True:
        x = (x * 1103515245 + 12345) & 0x7FFFFFFF
        yield x >> 8


def _on_st_walk(G):
    S = [v for v in G if G.in_degree(v) == 0]
    T = [v for v in G if G.out_degree(v) == 0]
    if not S or not T:
        return False
    fw, bw = set(S), set(T)
    for s in S:
        fw |= nx.descendants(G, s)
    for t in T:
        bw |= nx.ancestors(G, t)
    return all(u in fw and v in bw for u, v in G.edges())


def scc_nodes(G):
    out = set()
    for c in nx.strongly_connected_components(G):
        if len(c) > 1:
            out |= c
    out |= {v for v in G if G.has_edge(v, v)}
    return out


def node_routes(G, cyc, starts=(), ends=(), cap=2):
    """routes as node lists (DAG: all admissible paths; cyclic: all admissible walks whose nodes are visited <= cap times inside cycles)"""
    S = [v for v in G if G.in_degree(v) == 0 or v in starts]
    T = set(v for v in G if G.out_degree(v) == 0 or v in ends)
    inscc = scc_nodes(G)
    out = []

    def rec(path, cnt):
        v = path[-1]
        if v in T:
            out.append(tuple(path))
        for w in sorted(G.successors(v)):
            lim = cap if (cyc and w in inscc) else 1
            if cnt.get(w, 0) < lim:
                cnt[w] = cnt.get(w, 0) + 1
                path.append(w)
                rec(path, cnt)
                path.pop()
                cnt[w] -= 1

    for s in sorted(S):
        rec([s], {s: 1})
    return sorted(set(out))


def _graphs(names, cyc, quick):
    out = []
    if not cyc:
        G1 = nx.DiGraph()
        G1.add_node(names[0])
        out.append(G1)                                   # single node, no edges
        for n in (2, 3) if quick else (2, 3, 4):
            for gi, G in enumerate(graphs.dags(n, names)):
                if n == 4 and gi % 3:
                    continue
                out.append(G)
        if quick:
            for gi, G in enumerate(graphs.dags(4, names)):
                if gi % 4 == 1:
                    out.append(G)
    else:
        for G in graphs.digraphs(3, names):
            if _on_st_walk(G) and not nx.is_directed_acyclic_graph(G):
                out.append(G)
        x, y, z, w = names[:4]
        for E in ([(x, y), (y, z), (z, y), (z, w)], [(x, y), (y, z), (z, y), (y, w)], [(x, y), (y, y), (y, z), (z, y), (z, w)], [(x, y), (x, z), (y, z), (z, y), (y, w), (z, w)]):
            out.append(nx.DiGraph(E))
        cand = [(x, y), (x, z), (x, w), (y, y), (y, z), (z, y), (z, z), (y, w), (z, w)]
        n = 0
        for mask in range(1, 1 << len(cand)):
            G = nx.DiGraph([e for b, e in enumerate(cand) if mask >> b & 1])
            if G.number_of_edges() > 6 or not _on_st_walk(G) or nx.is_directed_acyclic_graph(G):
                continue
            n += 1
            if n % (8 if quick else 2) == 0:
                out.append(G)
    return out


def _node_values(G, cyc, rng, starts=(), ends=()):
    """node values that are a superposition of <= 3 admissible routes (every node positive), None if not found"""
    R = node_routes(G, cyc, starts, ends)
    if not R:
        return None
    for _ in range(30):
        val = {v: 0 for v in G}
        for _ in range(1 + next(rng) % 3):
            r = R[next(rng) % len(R)]
            w = 1 + next(rng) % 3
            for v in r:
                val[v] += w
        if all(x > 0 for x in val.values()) and max(val.values()) <= 6:
            return val
    return None


def _mk(model, G, val, wt, k, feature, **kw):
    d = dict(kind="rel", model=model, feature=feature, wt=wt, k=k, nodes=[[v, val.get(v)] for v in sorted(G.nodes())], edges=[list(e) for e in sorted(G.edges())],
             cons=[], constype="nodes", cov=1.0, ignore=[], scale=[], starts=[], ends=[], missing=[])
    d.update(kw)
    return d


def cases(tier):
    quick = tier == "quick"
    for names in (graphs.NAMES1, graphs.NAMES2):
        for cyc in (False, True):
            Gs = _graphs(names, cyc, quick)
            models = CYCM if cyc else DAGM
            for gi, G in enumerate(Gs):
                if names is graphs.NAMES2 and gi % (5 if quick else 2) != 0:
                    continue
                rng = _lcg(gi * 11 + (500 if cyc else 0))
                val = _node_values(G, cyc, rng)
                if val is None:
                    continue
                V = sorted(G.nodes())
                if names is graphs.NAMES1 or gi % 2 == 0:
                    yield dict(kind="api", nodes=[[v, val[v]] for v in V], edges=[list(e) for e in sorted(G.edges())], missing=[V[next(rng) % len(V)]] if gi % 2 else [],
                               cyc=cyc)
                noisy = dict(val)
                for _ in range(1 + next(rng) % 2):
                    v = V[next(rng) % len(V)]
                    noisy[v] = min(4 if cyc else 9, max(0, noisy[v] + next(rng) % 5 - 2))
                if not any(noisy.values()):
                    noisy[V[0]] = 1
                R = node_routes(G, cyc)
                longest = max(R, key=lambda r: (len(set(r)), r))
                a = V[next(rng) % len(V)]
                both = [v for v in V if G.in_degree(v) > 0 and G.out_degree(v) > 0]     # truly inner nodes preferred
                inner_s = both or [v for v in V if G.in_degree(v) > 0]
                inner_t = both or [v for v in V if G.out_degree(v) > 0]
                for mi, model in enumerate(models):
                    vals = val if model in FD else noisy
                    wt = "int" if (model in FD or model in COV or cyc) else ("int", "float")[(gi + mi) % 2]
                    ks = (None,)
                    if model in HAS_K:
                        ks = (1 + (gi + mi) % 2,) if quick else (1, 2)
                        if model in ("kFlowDecomp", "kFlowDecompCycles", "kPathCover", "kPathCoverCycles"):
                            ks = (1 + (gi + mi) % 3,) if quick else (1, 2, 3)
                    for k in ks:
                        yield _mk(model, G, vals, wt, k, "plain")
                        if len(V) > 1 and model not in COV and (not quick or (gi + mi) % 2 == 0):      # cover models have no node attribute
                            yield _mk(model, G, vals, wt, k, "missing", missing=[a])
                        if len(V) > 1:
                            yield _mk(model, G, vals, wt, k, "ignore", ignore=[a])
                        if model in HAS_SCALE and len(V) > 1 and (not quick or (gi + mi) % 2):     # domain: something stays non-ignored
                            yield _mk(model, G, vals, wt, k, "scale", scale=[[a, 0]] + ([[V[0], 0.5]] if V[0] != a else []))
                        if model in HAS_CONS and len(set(longest)) >= 2:
                            seq = list(dict.fromkeys(longest))
                            if (gi + mi) % 2 == 0 or not quick:
                                yield _mk(model, G, vals, wt, k, "constraint", cons=[[a]], constype="nodes", cov=1.0)           # a single node as a constraint
                                yield _mk(model, G, vals, wt, k, "constraint", cons=[seq[:2]], constype="nodes", cov=1.0)
                                yield _mk(model, G, vals, wt, k, "constraint", cons=[seq, seq[-2:]], constype="nodes", cov=0.5)
                            if (gi + mi) % 2 == 1 or not quick:
                                es = [[p, q] for p, q in zip(longest, longest[1:])]
                                es = [e for i, e in enumerate(es) if e not in es[:i]]
                                yield _mk(model, G, vals, wt, k, "constraint", cons=[es[:2]], constype="edges", cov=1.0)
                        if model in HAS_STARTS_EDGE and inner_s and inner_t:
                            st, en = [inner_s[next(rng) % len(inner_s)]], [inner_t[next(rng) % len(inner_t)]]
                            if model in FD:
                                vv = _node_values(G, cyc, _lcg(gi + 77), st, en)
                                if vv is None:
                                    continue
                                yield _mk(model, G, vv, wt, k, "startend", starts=st, ends=en)
                            else:
                                en2 = [] if (gi + mi) % 3 == 0 else en
                                vv = _node_values(G, cyc, _lcg(gi + 79), st, en2) if model in ERR else None      # values over the enlarged route set
                                if vv is not None and cyc:
                                    vv = {v: min(x, 4) for v, x in vv.items()}
                                yield _mk(model, G, vv or vals, wt, k, "startend", starts=st, ends=en2)
                        if model in ("MinFlowDecomp", "MinFlowDecompCycles") and inner_s and inner_t:
                            st, en = [inner_s[next(rng) % len(inner_s)]], [inner_t[next(rng) % len(inner_t)]]
                            vv = _node_values(G, cyc, _lcg(gi + 78), st, en)
                            if vv is not None:
                                yield dict(_mk(model, G, vv, "int", None, "startend", starts=st, ends=en), kind="oracle")
    # curated (seeded round 3): error scale 0 with k=None (the width must be taken over the elements that still count); one-sided additional
    # starts / ends for the min-models; node LENGTHS with a length-coverage constraint given as edges; original edges that carry an attribute
    # named like the node attribute
    D = nx.DiGraph([("s", "a"), ("s", "b"), ("a", "t"), ("b", "t")])
    for model in ("kMinPathError", "kMinPathErrorCycles"):
        yield _mk(model, D, {"s": 2, "a": 2, "b": 3, "t": 2}, "int", None, "scale", scale=[["b", 0]])
        yield _mk(model, D, {"s": 4, "a": 2, "b": 2, "t": 4}, "int", None, "scale", scale=[["a", 0], ["s", 0.5]])
    Pth = nx.DiGraph([("s", "a"), ("a", "t")])
    for model in ("MinFlowDecomp",):            # (the cyclic twin rejects additional starts/ends in node mode altogether: open finding of C11)
        yield dict(_mk(model, Pth, {"s": 5, "a": 5, "t": 3}, "int", None, "startend", starts=[], ends=["a"]), kind="oracle")
        yield dict(_mk(model, Pth, {"s": 3, "a": 5, "t": 5}, "int", None, "startend", starts=["a"], ends=[]), kind="oracle")
    for model in ("kLeastAbsErrors", "kMinPathError", "MinErrorFlow", "kPathCover", "MinPathCover", "kLeastAbsErrorsCycles"):
        k = 1 if model in HAS_K else None
        yield _mk(model, Pth, {"s": 5, "a": 5, "t": 3}, "int", k, "startend", starts=[], ends=["a"])
        yield _mk(model, Pth, {"s": 3, "a": 5, "t": 5}, "int", k, "startend", starts=["a"], ends=[])
    L = nx.DiGraph([("a", "b"), ("b", "c"), ("a", "d"), ("d", "c")])
    for model, k in (("kLeastAbsErrors", 1), ("kMinPathError", 1), ("kFlowDecomp", 1), ("MinFlowDecomp", None)):
        for cov in (0.8, 0.95):
            yield _mk(model, L, {"a": 5, "b": 0, "c": 5, "d": 5}, "int", k, "length", cons=[[["a", "b"], ["b", "c"]]], constype="edges", cov=cov,
                      lengths=[["a", 10], ["b", 1], ["c", 1], ["d", 1]])
    # node lengths with path-length dependent slack factors (k-MPE): the copies of the original edges must have length 0 on both sides of the comparison
    P2 = nx.DiGraph([("a", "b")])
    for k in (1, None):
        for rng_ in ([[0, 12], [13, 100]], [[0, 10], [11, 100]]):
            yield _mk("kMinPathError", P2, {"a": 10, "b": 4}, "int", k, "plf", lengths=[["a", 5], ["b", 5]], plf=[rng_, [1, 2]])
    P3 = nx.DiGraph([("a", "b"), ("b", "c"), ("a", "c")])
    yield _mk("kMinPathError", P3, {"a": 6, "b": 2, "c": 6}, "int", 2, "plf", lengths=[["a", 3], ["b", 4], ["c", 3]], plf=[[[0, 9], [10, 100]], [1, 2]])
    E3 = nx.DiGraph([("s", "a"), ("a", "t")])
    for model in ("MinFlowDecomp", "kLeastAbsErrors", "kMinPathError", "kFlowDecompCycles", "MinErrorFlow"):
        k = 1 if model in HAS_K else None
        yield _mk(model, E3, {"s": 10, "a": 10, "t": 10}, "int", k, "edgeattr", edgeattr=3)
    # curated: D9 witnesses (DESIGN section 4): node-mode kFlowDecomp on a 2-node graph; single node
    yield dict(kind="rel", model="kFlowDecomp", feature="plain", wt="int", k=1, nodes=[["x", 3], ["y", 3]], edges=[["x", "y"]], cons=[], constype="nodes", cov=1.0,
               ignore=[], scale=[], starts=[], ends=[], missing=[])
    yield dict(kind="rel", model="MinFlowDecomp", feature="plain", wt="float", k=None, nodes=[["x", 3]], edges=[], cons=[], constype="nodes", cov=1.0,
               ignore=[], scale=[], starts=[], ends=[], missing=[])
    # the docs example of NodeExpandedDiGraph
    yield dict(kind="rel", model="MinFlowDecomp", feature="plain", wt="int", k=None,
               nodes=[["s", 13], ["a", 6], ["b", 9], ["c", 13], ["d", 6], ["t", 13]],
               edges=[["s", "a"], ["s", "b"], ["a", "b"], ["a", "c"], ["b", "c"], ["c", "d"], ["c", "t"], ["d", "t"]], cons=[], constype="nodes", cov=1.0,
               ignore=[], scale=[], starts=[], ends=[], missing=[])


# ------------------------------------------------------------------------------------------------ building both instances

def _silence():
    import logging
    logging.getLogger("flowpaths").setLevel(logging.CRITICAL + 1)
    try:
        import flowpaths.utils as U
        U.logger.setLevel(logging.CRITICAL + 1)
        U.logger.disabled = True
    except Exception:
        pass


def node_graph(case, give_missing=None):
    G = nx.DiGraph()
    G.graph["id"] = "g"
    for v, x in case["nodes"]:
        G.add_node(v)
        if v in case["missing"] and give_missing is None:
            continue
        if x is not None:
            G.nodes[v]["flow"] = x if v not in case["missing"] else give_missing
        if case.get("lengths"):
            G.nodes[v]["length"] = dict(case["lengths"])[v]
    for u, v in case["edges"]:
        G.add_edge(u, v)
        if case.get("edgeattr") is not None:
            G[u][v]["flow"] = case["edgeattr"]            # the original edges carry an attribute of the same name: it must not count (every original edge is ignored)
    return G


def expanded(case):
    """the explicit expansion, written from the property statement (does not use NodeExpandedDiGraph)"""
    X = nx.DiGraph()
    X.graph["id"] = "gx"
    ignore = []
    for v, x in case["nodes"]:
        if v in case["missing"] or x is None:
            X.add_edge(v + IN, v + OUT)
            ignore.append((v + IN, v + OUT))
        else:
            X.add_edge(v + IN, v + OUT, flow=x)
    for u, v in case["edges"]:
        X.add_edge(u + OUT, v + IN)
        ignore.append((u + OUT, v + IN))
        if case.get("edgeattr") is not None:
            X[u + OUT][v + IN]["flow"] = case["edgeattr"]
        if case.get("lengths"):
            X[u + OUT][v + IN]["length"] = 0              # the copy of an original edge has length 0
    if case.get("lengths"):
        for v, ln in case["lengths"]:
            X[v + IN][v + OUT]["length"] = ln
    for v in case["ignore"]:
        if (v + IN, v + OUT) not in ignore:
            ignore.append((v + IN, v + OUT))
    cons = []
    for c in case["cons"]:
        if case["constype"] == "nodes":
            cons.append([(v + IN, v + OUT) for v in c])
        else:
            ce = []
            for i, (u, v) in enumerate(c):
                ce.append((u + IN, u + OUT))
                ce.append((u + OUT, v + IN))
                if i == len(c) - 1:
                    ce.append((v + IN, v + OUT))
            cons.append(ce)
    return X, ignore, cons


def _kwargs(case, mode):
    model = case["model"]
    cyc = cyclic(model)
    wt = int if case["wt"] == "int" else float
    kw = {}
    if model in COV:
        kw["cover_type"] = mode
    else:
        kw.update(flow_attr="flow", flow_attr_origin=mode, weight_type=wt)
    if model in HAS_K:
        kw["k"] = case["k"]
    return kw


def run_node(case, give_missing=None, extra_ignore=()):
    import flowpaths as fp
    model = case["model"]
    cyc = cyclic(model)
    G = node_graph(case, give_missing)
    kw = _kwargs(case, "node")
    if case["cons"]:
        cons = [list(c) for c in case["cons"]] if case["constype"] == "nodes" else [[tuple(e) for e in c] for c in case["cons"]]
        kw["subset_constraints" if cyc else "subpath_constraints"] = cons
        kw["subset_constraints_coverage" if cyc else "subpath_constraints_coverage"] = case["cov"]
        if case.get("lengths"):
            del kw["subpath_constraints_coverage"]
            kw.update(subpath_constraints_coverage_length=case["cov"], length_attr="length")
    if case.get("plf"):
        kw.update(length_attr="length", path_length_ranges=[list(r) for r in case["plf"][0]], path_length_factors=list(case["plf"][1]))
    ign = list(case["ignore"]) + list(extra_ignore)
    if ign:
        kw["elements_to_ignore"] = ign
    if case["scale"]:
        kw["error_scaling"] = {v: s for v, s in case["scale"]}
    if case["starts"]:
        kw["additional_starts"] = list(case["starts"])
    if case["ends"]:
        kw["additional_ends"] = list(case["ends"])
    return _solve(fp, model, G, kw, cyc)


def run_edge(case):
    import flowpaths as fp
    model = case["model"]
    cyc = cyclic(model)
    X, ignore, cons = expanded(case)
    kw = _kwargs(case, "edge")
    if cons:
        kw["subset_constraints" if cyc else "subpath_constraints"] = cons
        kw["subset_constraints_coverage" if cyc else "subpath_constraints_coverage"] = case["cov"]
        if case.get("lengths"):
            del kw["subpath_constraints_coverage"]
            kw.update(subpath_constraints_coverage_length=case["cov"], length_attr="length")
    kw["elements_to_ignore"] = ignore
    if case.get("plf"):
        kw.update(length_attr="length", path_length_ranges=[list(r) for r in case["plf"][0]], path_length_factors=list(case["plf"][1]))
    if case["scale"]:
        kw["error_scaling"] = {(v + IN, v + OUT): s for v, s in case["scale"]}
    if case["starts"]:
        kw["additional_starts"] = [v + IN for v in case["starts"]]
    if case["ends"]:
        kw["additional_ends"] = [v + OUT for v in case["ends"]]
    return _solve(fp, model, X, kw, cyc)


def _solve(fp, model, G, kw, cyc):
    try:
        m = getattr(fp, model)(G, **kw)
        ok = m.solve()
        if not (ok and m.is_solved()):
            return dict(solved=False)
        sol = m.get_solution()
        out = dict(solved=True, obj=m.get_objective_value())
        if model == "MinErrorFlow":
            out["graph"] = sol["graph"]
        else:
            out["routes"] = [list(r) for r in sol["walks" if cyc else "paths"]]
            out["weights"] = list(sol.get("weights", []))
        return out
    except Exception as ex:
        return dict(solved=False, error="%s: %s" % (type(ex).__name__, str(ex)[:160]), exc=type(ex).__name__)


# ------------------------------------------------------------------------------------------------ checks

def _fail(fp_, what, detail=None):
    return dict(ok=False, nontrivial=True, fingerprint=fp_, what=what, detail=detail)


def _short(r):
    return {k: r.get(k) for k in ("solved", "routes", "weights", "obj", "error") if k in r}


def check_rel(case):
    model, feat = case["model"], case["feature"]
    cyc = cyclic(model)
    wt = int if case["wt"] == "int" else float
    inst = "%s(%s) k=%s wt=%s nodes=%s edges=%s cons=%s/%s cov=%s ignore=%s scale=%s starts=%s ends=%s missing=%s%s%s" % (
        model, feat, case["k"], case["wt"], case["nodes"], case["edges"], case["constype"], case["cons"], case["cov"], case["ignore"], case["scale"], case["starts"], case["ends"], case["missing"],
        (" lengths=%s (cov = length coverage)" % case["lengths"]) if case.get("lengths") else "", (" edge attribute flow=%s" % case["edgeattr"]) if case.get("edgeattr") is not None else "")
    tag = {"plain": "", "missing": " with a node lacking the attribute", "ignore": " with an ignored node", "scale": " with node error scaling",
           "constraint": " with node-level constraints", "startend": " with additional starts/ends",
           "length": " with node lengths and a length-coverage constraint", "plf": " with node lengths and path-length dependent slack factors", "edgeattr": " when the original edges carry an attribute named like the node attribute"}[feat]
    rn = run_node(case)
    re_ = run_edge(case)
    if "error" in rn and "error" in re_ and rn["exc"] == "ValueError" and re_["exc"] == "ValueError":
        return dict(ok=True, nontrivial=False, detail="both modes reject the input with ValueError")
    if "error" in rn and "error" not in re_:
        return _fail("%s in node mode raised %s%s while the expanded instance is handled" % (model, rn["exc"], tag), "%s | expanded: %s | %s" % (rn["error"], _short(re_), inst))
    if "error" in re_:
        # the expanded instance itself is not accepted in edge mode: nothing to compare with
        return dict(ok=None, nontrivial=False, what="edge-mode run on the explicit expansion raised %s | %s" % (re_["error"], inst))
    if rn["solved"] != re_["solved"]:
        return _fail("%s: node mode and the explicitly expanded instance differ in solved status%s" % (model, tag), "node mode: %s; expanded: %s | %s" % (_short(rn), _short(re_), inst))
    if rn["solved"]:
        if not close(rn["obj"], re_["obj"], wt):
            return _fail("%s: node mode and the explicitly expanded instance differ in objective%s" % (model, tag), "node mode: %s; expanded: %s | %s" % (_short(rn), _short(re_), inst))
        G = node_graph(case)
        if model == "MinErrorFlow":
            H = rn["graph"]
            if set(H.nodes()) != set(G.nodes()) or set(H.edges()) != set(G.edges()):
                return _fail("MinErrorFlow in node mode: corrected graph is not on the caller's nodes and edges", "nodes %s edges %s | %s" % (list(H.nodes()), list(H.edges()), inst))
            # the corrected values handed back on the caller's nodes are the ones the reported error speaks about: get_objective_value() is documented as
            # the (unscaled) sum of absolute changes over the elements that count (not ignored, not scaled to 0)
            vals = {v: x for v, x in case["nodes"] if x is not None and v not in case["missing"]}
            skip = set(case["ignore"]) | set(case["missing"])
            sc = {v: s_ for v, s_ in case["scale"]}
            tot = 0
            for v, x in vals.items():
                if v in skip:
                    continue
                got = H.nodes[v].get("flow")
                if got is None:
                    return _fail("MinErrorFlow in node mode: a valued node has no value in the corrected graph", "node %s | %s" % (v, inst))
                if sc.get(v, 1) == 0:
                    continue
                tot += abs(x - got)
            if not close(tot, rn["obj"], wt):
                return _fail("MinErrorFlow in node mode: the corrected node values do not add up to the reported objective",
                             "recomputed total change %s, objective %s; corrected values %s | %s" % (tot, rn["obj"], {v: H.nodes[v].get("flow") for v in vals}, inst))
        else:
            for r in rn["routes"]:
                good, why = is_route(G, r, case["starts"], case["ends"], simple=not cyc)
                if not good:
                    return _fail("%s in node mode: returned route is not a route of the caller's graph in the caller's node names%s" % (model, tag), "%s: %s | %s" % (r, why, inst))
    if feat == "missing":
        # clause M: lacking the attribute == having one and being listed as ignored
        alt = run_node(case, give_missing=5, extra_ignore=case["missing"])
        if "error" in alt:
            return _fail("%s in node mode raised %s with an ignored node" % (model, alt["exc"]), alt["error"] + " | " + inst)
        if alt["solved"] != rn["solved"] or (rn["solved"] and not close(alt["obj"], rn["obj"], wt)):
            return _fail("%s: a node lacking the attribute is not treated like an ignored node" % model, "lacking: %s; ignored: %s | %s" % (_short(rn), _short(alt), inst))
    return dict(ok=True, nontrivial=bool(rn["solved"]), detail=dict(solved=rn["solved"], obj=rn.get("obj")))


def fd_min_nodes(R, val, kmax=6):
    """exact minimum number of (node route, integer weight >= 1) pairs explaining the node values (exhaustive, memoised)"""
    V = sorted(val)
    vec = sorted(set(tuple(sum(1 for x in r if x == v) for v in V) for r in R))
    vec = [v for v in vec if all(a <= b for a, b in zip(v, (val[x] for x in V)))]
    fail = set()
    n = len(V)

    def rec(rem, left):
        if not any(rem):
            return True
        if left == 0 or (rem, left) in fail:
            return False
        j0 = min((j for j in range(n) if rem[j] > 0), key=lambda j: rem[j])
        for v in vec:
            if not v[j0]:
                continue
            wmax = min(rem[j] // v[j] for j in range(n) if v[j])
            for w in range(1, wmax + 1):
                if rec(tuple(rem[j] - w * v[j] for j in range(n)), left - 1):
                    return True
        fail.add((rem, left))
        return False

    for k in range(1, kmax + 1):
        if rec(tuple(val[v] for v in V), k):
            return k
    return None


def check_oracle(case):
    model = case["model"]
    cyc = cyclic(model)
    inst = "%s(node mode, starts/ends) nodes=%s edges=%s starts=%s ends=%s" % (model, case["nodes"], case["edges"], case["starts"], case["ends"])
    G = node_graph(case)
    val = {v: x for v, x in case["nodes"]}
    R = node_routes(G, cyc, case["starts"], case["ends"], cap=max(val.values()))
    opt = fd_min_nodes(R, val)
    if opt is None:
        return dict(ok=True, nontrivial=False, detail="outside the domain (oracle found no decomposition)")
    rn = run_node(case)
    if "error" in rn:
        return _fail("%s in node mode raised %s with additional starts/ends" % (model, rn["exc"]), rn["error"] + " | " + inst)
    if not rn["solved"]:
        return _fail("%s in node mode with additional starts/ends: unsolved although the node values are a superposition of admissible routes" % model, "oracle minimum %d | %s" % (opt, inst))
    for r in rn["routes"]:
        good, why = is_route(G, r, case["starts"], case["ends"], simple=not cyc)
        if not good:
            return _fail("%s in node mode: returned route is not a route of the caller's graph in the caller's node names with additional starts/ends" % model, "%s: %s | %s" % (r, why, inst))
    for v, x in val.items():
        got = sum(Fraction(w) * sum(1 for y in r if y == v) for r, w in zip(rn["routes"], rn["weights"]))
        if got != x:
            return _fail("%s in node mode with additional starts/ends: node value not explained by the returned weighted routes" % model,
                         "node %s: explained %s, value %s; %s | %s" % (v, got, x, _short(rn), inst))
    if len(rn["routes"]) > opt:
        return _fail("%s in node mode with additional starts/ends: more routes than the minimum" % model, "returned %d, minimum %d; %s | %s" % (len(rn["routes"]), opt, _short(rn), inst))
    return dict(ok=True, nontrivial=True, detail=dict(k=len(rn["routes"]), oracle=opt))


def check_api(case):
    import flowpaths as fp
    cyc = case["cyc"]
    G = node_graph(dict(case))
    inst = "nodes=%s edges=%s missing=%s" % (case["nodes"], case["edges"], case["missing"])
    for v in G:
        G.nodes[v]["len"] = 2
    try:
        X = fp.NodeExpandedDiGraph(G, node_flow_attr="flow", node_length_attr="len")
    except Exception as ex:
        return _fail("NodeExpandedDiGraph raised %s on a valid node-weighted graph" % type(ex).__name__, str(ex)[:200] + " | " + inst)
    val = {v: x for v, x in case["nodes"]}
    # expansion structure
    want_edges = {(v + ".0", v + ".1") for v in G} | {(u + ".1", v + ".0") for u, v in G.edges()}
    if set(X.edges()) != want_edges:
        return _fail("NodeExpandedDiGraph: edge set is not {(v.0,v.1)} + {(u.1,v.0)}", "edges %s | %s" % (sorted(X.edges()), inst))
    for v in G:
        e = X.get_expanded_edge(v)
        if e != (v + ".0", v + ".1") or not X.has_edge(*e):
            return _fail("get_expanded_edge(node) is not the edge (v.0, v.1) of the expanded graph", "%s -> %s | %s" % (v, e, inst))
        if v in case["missing"]:
            if "flow" in X.edges[e]:
                return _fail("expanded edge of a node lacking the attribute carries a value", "%s | %s" % (e, inst))
        elif X.edges[e].get("flow") != val[v]:
            return _fail("expanded edge of a node does not carry the node's value", "%s: %s vs %s | %s" % (e, X.edges[e].get("flow"), val[v], inst))
    for (u, v) in G.edges():
        e = X.get_expanded_edge((u, v))
        if e != (u + ".1", v + ".0") or not X.has_edge(*e):
            return _fail("get_expanded_edge(edge) is not the edge (u.1, v.0) of the expanded graph", "%s -> %s | %s" % ((u, v), e, inst))
        # lengths live on the nodes: the expanded node edge carries the node's length, an expanded original edge (without its own length) has length 0
        if X.edges[e].get("len", 1) != 0:
            return _fail("expanded original edge without a length attribute does not get length 0 (lengths are counted on the nodes)", "%s: %s | %s" % (e, X.edges[e].get("len", "absent (= 1)"), inst))
    for v in G:
        if X.edges[(v + ".0", v + ".1")].get("len") != 2:
            return _fail("expanded node edge does not carry the node's length", "%s: %s | %s" % (v, X.edges[(v + ".0", v + ".1")].get("len"), inst))
    want_ign = {(u + ".1", v + ".0") for u, v in G.edges()} | {(v + ".0", v + ".1") for v in case["missing"]}
    if set(X.edges_to_ignore) != want_ign:
        return _fail("edges_to_ignore is not {expanded original edges} + {(v.0,v.1): v lacks the attribute}", "got %s want %s | %s" % (sorted(X.edges_to_ignore), sorted(want_ign), inst))
    for bad in ("nosuchnode", ("nosuch", "edge")):
        try:
            X.get_expanded_edge(bad)
            return _fail("get_expanded_edge accepts an element that is not in the graph", "%s | %s" % (bad, inst))
        except ValueError:
            pass
        except Exception as ex:
            return _fail("get_expanded_edge raises %s instead of ValueError for an unknown element" % type(ex).__name__, "%s | %s" % (bad, inst))
    # routes: expand and condense
    R = node_routes(G, cyc)
    exp = [[x for v in r for x in (v + ".0", v + ".1")] for r in R]
    for r, p in zip(R, exp):
        if not all(X.has_edge(a, b) for a, b in zip(p, p[1:])):
            return _fail("expansion of a route of the original graph is not a route of the expanded graph", "%s -> %s | %s" % (r, p, inst))
    back = X.get_condensed_paths(exp)
    if [list(r) for r in R] != [list(b) for b in back]:
        return _fail("get_condensed_paths(expand(p)) != p", "%s vs %s | %s" % (R[:5], back[:5], inst))
    # constraints: node lists and edge lists
    for r in R:
        if len(r) >= 2:
            cn = X.get_expanded_subpath_constraints([list(r)])
            if cn != [[(v + ".0", v + ".1") for v in r]]:
                return _fail("expanded node-list constraint is not the list of the nodes' expanded edges", "%s -> %s | %s" % (r, cn, inst))
            es = list(zip(r, r[1:]))
            ce = X.get_expanded_subpath_constraints([es])
            seq = [ce[0][0][0]] + [e[1] for e in ce[0]] if ce and ce[0] else []
            if not ce or any(not X.has_edge(*e) for e in ce[0]) or X.get_condensed_paths([seq]) != [list(r)]:
                return _fail("expanded edge-list constraint does not condense back to the constraint's node sequence", "%s -> %s | %s" % (es, ce, inst))
            if not set((a + ".1", b + ".0") for a, b in es) <= set(ce[0]):
                return _fail("expanded edge-list constraint misses the expanded copy of a constraint edge", "%s -> %s | %s" % (es, ce, inst))
    V = sorted(G.nodes())
    if X.get_expanded_additional_starts(V) != [v + ".0" for v in V] or X.get_expanded_additional_ends(V) != [v + ".1" for v in V]:
        return _fail("expanded additional starts/ends are not v.0 / v.1", inst)
    C = X.get_condensed_graph()
    if set(C.nodes()) != set(G.nodes()) or set(C.edges()) != set(G.edges()) or any(C.nodes[v].get("flow") != G.nodes[v].get("flow") or C.nodes[v].get("len") != 2 for v in G):
        return _fail("get_condensed_graph() of a fresh expansion differs from the original graph", "%s | %s" % (dict(C.nodes(data=True)), inst))
    return dict(ok=True, nontrivial=len(R) > 0 and G.number_of_edges() > 0, detail=dict(routes=len(R)))


def check(case):
    _silence()
    if case["kind"] == "api":
        return check_api(case)
    if case["kind"] == "oracle":
        return check_oracle(case)
    return check_rel(case)


def run(tier="quick", seed=0, chunk=0, nchunks=1):
    from vf.bounded import run_cases
    return run_cases(cases(tier), check, chunk, nchunks, engine="rc",
                     rule="node-weighted graphs: single node, all DAGs on 2-3 named nodes (+ %s of the 4-node DAGs), all cyclic digraphs on 3 nodes + 4 graphs with a 2-cycle + every %s cyclic digraph with one source, one sink, two inner nodes and <=6 edges; node values = "
                          "superposition of <=3 routes (decomposition / cover models) or that +-2 noise (error models, MinErrorFlow); 13 model classes x {plain, one node lacking the attribute, "
                          "one ignored node, node error scaling 0 / 0.5, node-list constraints (coverage 1, 0.5), edge-list constraint, one additional start and end}: node mode vs the same class "
                          "in edge mode on the harness's own expansion; MinFlowDecomp(/Cycles) node mode with starts/ends vs an explicit node-route oracle; NodeExpandedDiGraph API round trips "
                          "per graph; second naming scheme on a sample; non-trivial = node-mode run solved (api: graph has an edge)" % (("1/4", "8th") if tier == "quick" else ("1/3", "2nd")),
                     bounds="<=4 nodes, node values <=6 (error models <=9), k<=3")
