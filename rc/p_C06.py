"""C06 bounded stand-in: safe paths / sequences are truly safe, mutually incompatible, and prune soundly.

Clauses (from the property statement; routes = source-to-sink paths of the internal st-DAG / walks of the internal st-digraph):
  SAFE   every sequence S returned for trusted set X by safetypathcovers.safe_paths / safe_sequences (DAG),
         safetypathcoverscycles.maximal_safe_sequences_via_dominators (digraph), and every entry of a model's `safe_lists`,
         occurs - in order and with multiplicity, i.e. as an ordered sub-multisequence of the route's edge sequence (DESIGN 3.0) -
         inside at least one route of EVERY route cover of X            (X elements may be sub-path constraints: "covered" = inside one route)
  FSAFE  every path returned by safetyflowdecomp.compute_flow_decomp_safe_paths (and kFlowDecomp's flow-safe `safe_lists`) is a
         sub-path of some path of EVERY flow decomposition of the given flow (kFlowDecomp built with `elements_to_ignore`: of every
         decomposition that explains the non-ignored edges - separate fingerprint "..., some edges ignored")
  INC    the sequences assigned to different solution slots (model.walks_to_fix[i], i < k; stDiGraph.get_longest_incompatible_sequences;
         DAG: paths_to_fix - on this tree only reachable through the helper _get_paths_to_fix_from_safe_lists) never occur together
         in a single route
  ZERO   every (u, v, i) in model.edges_set_to_zero: no route contains both the slot's sequence and the edge (u, v)

Exact oracles (independent of dominators/bridges/excess flow):
  * a route cover of X avoiding S exists iff every x in X has a route through x that does not contain S; "route through x
    avoiding S", "route containing S1 and S2", "route containing S and e" are reachability questions in the product of the graph
    with the greedy subsequence matchers (one counter per sequence) - exact on cyclic graphs because greedy matching of a
    subsequence is complete.  On DAGs the same questions are also answered by explicit path enumeration; a disagreement between
    the two is reported as undecided (harness fault), never as a violation.
  * flow-safety: P is unsafe iff the flow is a non-negative combination of the source-to-sink paths that do not contain P
    (z3 linear real arithmetic over one weight per explicit path: exact); for an integer flow the existence of an INTEGER avoiding
    decomposition is recorded as well."""
import itertools
import networkx as nx
from rc import graphs

# ------------------------------------------------------------------------------------------------ exact oracles


def _seq(x):
    """X element -> tuple of edges (a single edge is a length-1 sequence)"""
    if isinstance(x, (list,)) or (isinstance(x, tuple) and len(x) > 0 and isinstance(x[0], (tuple, list))):
        return tuple((a, b) for a, b in x)
    return ((x[0], x[1]),)


def route_exists(H, src, snk, contain=(), avoid=None):
    """is there a src->snk walk of H that contains every sequence of `contain` as an ordered sub-multisequence of its edge
    sequence and does not contain `avoid`?  BFS over (node, matched prefix length per sequence)."""
    contain = [tuple(c) for c in contain]
    avoid = tuple(avoid) if avoid is not None else None
    if avoid is not None and len(avoid) == 0:
        return False                           # the empty sequence is contained in every route
    if src not in H or snk not in H:
        return False
    goal = tuple(len(c) for c in contain)
    start = (src, tuple(0 for _ in contain), 0)
    seen = {start}
    stack = [start]
    while stack:
        v, js, a = stack.pop()
        if v == snk and js == goal:
            return True
        for w in H.successors(v):
            e = (v, w)
            a2 = a
            if avoid is not None and avoid[a] == e:
                a2 = a + 1
                if a2 == len(avoid):
                    continue
            js2 = tuple(j + 1 if j < len(c) and c[j] == e else j for j, c in zip(js, contain))
            st = (w, js2, a2)
            if st not in seen:
                seen.add(st)
                stack.append(st)
    return False


def all_routes_dag(H, src, snk):
    out = []
    for p in nx.all_simple_paths(H, src, snk):
        out.append(tuple(zip(p, p[1:])))
    return out


def _contains(route, s):
    j = 0
    for e in route:
        if j < len(s) and s[j] == e:
            j += 1
    return j == len(s)


def route_exists_enum(routes, contain=(), avoid=None):
    for r in routes:
        if all(_contains(r, tuple(c)) for c in contain) and (avoid is None or not _contains(r, tuple(avoid))):
            return True
    return False


class Oracle:
    """route questions on one st-graph; on DAGs every answer is cross-checked against explicit enumeration"""

    def __init__(self, H, src, snk, dag):
        self.H, self.src, self.snk = H, src, snk
        self.routes = all_routes_dag(H, src, snk) if dag else None
        self.disagree = None
        self._memo = {}

    def exists(self, contain=(), avoid=None):
        key = (tuple(tuple(c) for c in contain), None if avoid is None else tuple(avoid))
        if key in self._memo:
            return self._memo[key]
        r = route_exists(self.H, self.src, self.snk, contain, avoid)
        if self.routes is not None:
            r2 = route_exists_enum(self.routes, contain, avoid)
            if r2 != r:
                self.disagree = "automaton says %s, enumeration says %s for contain=%s avoid=%s" % (r, r2, contain, avoid)
        self._memo[key] = r
        return r

    def coverable(self, X):
        return all(self.exists([_seq(x)]) for x in X)

    def safe(self, S, X):
        """True / False; None if no cover of X exists at all (vacuous)"""
        if not self.coverable(X):
            return None
        S = tuple(tuple(e) for e in S)
        return any(not self.exists([_seq(x)], avoid=S) for x in X)

    def witness_cover(self, S, X):
        """for the report: per x one route through x avoiding S (DAG only: from the enumeration)"""
        if self.routes is None:
            return None
        S = tuple(tuple(e) for e in S)
        out = []
        for x in X:
            for r in self.routes:
                if _contains(r, _seq(x)) and not _contains(r, S):
                    out.append([list(e) for e in r])
                    break
        return out


def avoiding_decomposition(paths, flow, P, integer=False, ignore=(), upper=None):
    """is `flow` (dict edge -> value) a non-negative (integer) combination of the paths that do not contain P as a sub-path
    (edges in `ignore` need not be explained)?  -> (bool, witness)"""
    import z3
    from fractions import Fraction
    P = tuple(tuple(e) for e in P)
    R = [r for r in paths if not _contains(r, P)]
    s = z3.Solver()
    T = z3.Int if integer else z3.Real
    w = [T("w%d" % i) for i in range(len(R))]
    for x in w:
        s.add(x >= 0)
    for e, fe in flow.items():
        if e in ignore:
            continue
        fr = Fraction(fe).limit_denominator(10 ** 6)
        terms = [w[i] for i, r in enumerate(R) if e in r]
        tot = z3.Sum(terms) if terms else z3.RealVal(0)
        if upper is None:
            s.add(tot == z3.RealVal(str(fr)))
        else:                                        # inexact flow: any conserving flow inside [flow(e), upper(e)] may be decomposed
            s.add(tot >= z3.RealVal(str(fr)), tot <= z3.RealVal(str(Fraction(upper[e]).limit_denominator(10 ** 6))))
    res = s.check()
    if res == z3.sat:
        m = s.model()
        return True, [([list(e) for e in R[i]], str(m.eval(w[i], model_completion=True))) for i in range(len(R)) if str(m.eval(w[i], model_completion=True)) != "0"]
    if res == z3.unsat:
        return False, None
    return None, None


# ------------------------------------------------------------------------------------------------ universe

def _X_choices(E, cap2=None):
    """all edges, every single edge, every pair (optionally a deterministic sample of the pairs)"""
    E = sorted(E)
    out = [list(E)]
    out += [[e] for e in E]
    pairs = [list(p) for p in itertools.combinations(E, 2)]
    if cap2 is not None and len(pairs) > cap2:
        step = len(pairs) / float(cap2)
        pairs = [pairs[int(i * step)] for i in range(cap2)]
    out += pairs
    seen, res = set(), []
    for x in out:
        k = tuple(x)
        if k not in seen and x:
            seen.add(k)
            res.append(x)
    return res


def _constraint_X(G):
    """X made of sub-path constraints: two-edge sequences (contiguous or gapped) lying on a common source-to-sink path, plus one single edge"""
    out = []
    for p in graphs.st_paths(G):
        ed = graphs.pedges(p)
        if len(ed) >= 2:
            out.append([[list(ed[0]), list(ed[1])]])
        if len(ed) >= 3:
            out.append([[list(ed[0]), list(ed[2])], list(ed[1])])
    seen, res = set(), []
    for x in out:
        if repr(x) not in seen:
            seen.add(repr(x))
            res.append(x)
    return res[:3]


def all_digraphs(n, names):
    pairs = [(i, j) for i in range(n) for j in range(n)]
    for mask in range(1, 1 << len(pairs)):
        E = [(names[i], names[j]) for b, (i, j) in enumerate(pairs) if mask >> b & 1]
        G = nx.DiGraph(E)
        if G.number_of_nodes() == n:
            yield G


def start_end_choices(G, names, full):
    """(additional_starts, additional_ends) choices giving >= 1 source and >= 1 sink"""
    nat_s = any(G.in_degree(v) == 0 for v in G)
    nat_t = any(G.out_degree(v) == 0 for v in G)
    nodes = sorted(G.nodes())
    S = [[]] + [[v] for v in nodes]
    T = [[]] + [[v] for v in nodes]
    out = []
    for st in S:
        for en in T:
            if (st or nat_s) and (en or nat_t) and on_st_walk(G, st, en):
                out.append((st, en))
    if not full:
        out = out[:1] + out[1::5]
    return out


def on_st_walk(G, starts=(), ends=()):
    """every edge lies on a source-to-sink walk (the domain of the cyclic models, DESIGN 3.0; outside it the dominator routine has no s-t path to start from)"""
    S = [v for v in G if G.in_degree(v) == 0 or v in starts]
    T = [v for v in G if G.out_degree(v) == 0 or v in ends]
    if not S or not T:
        return False
    fw, bw = set(S), set(T)
    for a in S:
        fw |= nx.descendants(G, a)
    for b in T:
        bw |= nx.ancestors(G, b)
    return all(u in fw and v in bw for u, v in G.edges())


# equal weights first: excess flow vanishes exactly when crossing paths carry equal weights
FLOW_WEIGHTS = ((1, 1), (1, 2), (1,), (2, 3), (1, 1, 1), (1, 2, 3), (1, 1, 2), (2, 2, 1))


def _el(G):
    return [list(e) for e in sorted(G.edges())]


def cases(tier):
    quick = tier == "quick"
    # ---- A: DAG functions safe_paths / safe_sequences, all DAGs <= 4 nodes (thorough: sampled 5), X = all / singles / pairs
    for ni, names in enumerate((graphs.NAMES1, graphs.NAMES2)):
        for n in ((2, 3, 4) if quick else (2, 3, 4, 5)):
            for gi, G in enumerate(graphs.dags(n, names)):
                if ni == 1 and gi % 5:
                    continue
                if n == 5 and gi % 12:
                    continue
                E = _el(G)
                for xi, X in enumerate(_X_choices([tuple(e) for e in E])):
                    yield dict(kind="dag_fn", edges=E, starts=[], ends=[], X=[list(e) for e in X])
                for X in _constraint_X(G):
                    yield dict(kind="dag_fn", edges=E, starts=[], ends=[], X=X)
                if gi % 4 == 0 and n >= 3:
                    mid = sorted(G.nodes())[1]
                    yield dict(kind="dag_fn", edges=E, starts=[mid], ends=[mid], X=E)
    # ---- B: digraphs <= 3 nodes (all, self-loops included; thorough: also a sample on 4 nodes), all start/end choices
    for ni, names in enumerate((graphs.NAMES1, graphs.NAMES2)):
        for n in ((1, 2, 3) if quick else (1, 2, 3, 4)):
            for gi, G in enumerate(all_digraphs(n, names)):
                if ni == 1 and gi % 9:
                    continue
                if n == 4 and gi % 48:
                    continue
                if not nx.is_weakly_connected(G):
                    continue
                E = _el(G)
                for si, (st, en) in enumerate(start_end_choices(G, names, full=True)):
                    for X in _X_choices([tuple(e) for e in E], cap2=(None if n <= 3 else 12)):
                        yield dict(kind="cyc_fn", edges=E, starts=st, ends=en, X=[list(e) for e in X])
    # ---- C: flow-safe paths on DAGs with positive conserving flows (a few with zero-flow edges)
    for ni, names in enumerate((graphs.NAMES1, graphs.NAMES2)):
        for n in (2, 3, 4, 5):
            for gi, G in enumerate(graphs.dags(n, names)):
                if ni == 1 and gi % 6:
                    continue
                crossing = any(G.in_degree(v) >= 2 and G.out_degree(v) >= 2 for v in G)      # the only shapes where excess flow can vanish
                if n == 5 and not crossing and gi % (8 if quick else 2):
                    continue
                fl = list(graphs.flows_from_paths(G, weightsets=FLOW_WEIGHTS))
                for fi, (H, f) in enumerate(fl[: (5 if quick else 10)]):
                    yield dict(kind="flow_fn", edges=[[u, v, f[(u, v)]] for u, v in sorted(G.edges())], wt="int")
                    if fi == 0 and G.number_of_edges() >= 2:
                        ne = G.number_of_edges()
                        for pat in (((0, 0), (1, 0)), ((1, 1), (0, 0), (0, 2))):
                            yield dict(kind="flow_fn", edges=[[u, v, f[(u, v)]] for u, v in sorted(G.edges())], wt="int", widths=[list(pat[(i + gi) % len(pat)]) for i in range(ne)])
                    if fi == 1:
                        yield dict(kind="flow_fn", edges=[[u, v, f[(u, v)] / 2.0] for u, v in sorted(G.edges())], wt="float")
                # zero-flow edges: one path only
                P = [p for p in graphs.st_paths(G) if len(p) > 1]
                if gi % 3 == 0 and len(P) > 1:
                    on = set(graphs.pedges(P[gi % len(P)])) | set(graphs.pedges(P[(gi + 1) % len(P)]))
                    if len(on) < G.number_of_edges():
                        f = {e: 0 for e in G.edges()}
                        for w, p in ((2, P[gi % len(P)]), (1, P[(gi + 1) % len(P)])):
                            for e in graphs.pedges(p):
                                f[e] += w
                        yield dict(kind="flow_fn", edges=[[u, v, f[(u, v)]] for u, v in sorted(G.edges())], wt="int")
    # ---- D: models constructed with the safety options on
    for ni, names in enumerate((graphs.NAMES1, graphs.NAMES2)):
        # cyclic
        for n in ((2, 3) if quick else (2, 3, 4)):
            for gi, G in enumerate(all_digraphs(n, names)):
                if ni == 1 and gi % 7:
                    continue
                if n == 4 and gi % 101:
                    continue
                if not nx.is_weakly_connected(G):
                    continue
                E = _el(G)
                ch = start_end_choices(G, names, full=True)
                for si, (st, en) in enumerate(ch[:: (3 if quick else 1)]):
                    Xs = _X_choices([tuple(e) for e in E], cap2=(3 if quick else 6))
                    Xs = Xs[:1] + Xs[1 + (gi + si) % 3::3]
                    for xi, X in enumerate(Xs):
                        k = (1, 2, 4)[(gi + si + xi) % 3]
                        opts = {} if (gi + xi) % 3 else {"optimize_with_safe_sequences": False, "optimize_with_max_safe_antichain_as_subset_constraints": True}
                        yield dict(kind="cyc_model", model="kPathCoverCycles" if (gi + si + xi) % 2 == 0 else "kMinPathErrorCycles",
                                   edges=E, starts=st, ends=en, X=[list(e) for e in X], k=k, opts=opts)
        # two SCCs joined by parallel edges (sequences of different lengths), every combination of the safe-sequence / antichain options
        if ni == 0:
            A_shapes = [[("a1", "a2"), ("a2", "a1")], [("a1", "a2"), ("a2", "a1"), ("a2", "a2")]]
            B_shapes = [[("b1", "b2"), ("b2", "b1")], [("b1", "b2"), ("b2", "b1"), ("b2", "b2")]] + ([] if quick else [[("b1", "b2"), ("b2", "b3"), ("b3", "b1")]])
            inter_all = [(a, b) for a in ("a1", "a2") for b in ("b1", "b2")]
            OPTS = [{}, {"optimize_with_max_safe_antichain_as_subset_constraints": True},
                    {"optimize_with_safe_sequences": False, "optimize_with_max_safe_antichain_as_subset_constraints": True},
                    {"optimize_with_safe_sequences": True, "optimize_with_safe_zero_edges": False, "optimize_with_max_safe_antichain_as_subset_constraints": True}]
            ci = 0
            for A in A_shapes:
                for B in B_shapes:
                    for r in (2, 3):
                        for inter in itertools.combinations(inter_all, r):
                            for outer in (True, False):
                                E = [list(e) for e in A + B + list(inter)]
                                if outer:
                                    E += [["s", "a1"], ["b1", "t"]]
                                    st, en = [], []
                                else:
                                    st, en = ["a1"], ["b1"]
                                for oi, opts in enumerate(OPTS):
                                    ci += 1
                                    if quick and ((ci - 1) // len(OPTS) + oi) % 2:
                                        continue
                                    yield dict(kind="cyc_model", model="kPathCoverCycles" if ci % 2 else "kMinPathErrorCycles", edges=sorted(E), starts=st, ends=en,
                                               X=sorted(E), k=(2, 3, 4)[ci % 3], opts=opts)
        # a graph object that served an earlier model and was then extended in place by the caller (an arm a -> r -> b)
        if ni == 0:
            arms = [[("w%d" % i, "z%d" % i), ("z%d" % i, "a")] for i in (1, 2, 3)]
            core_ = [("a", "p"), ("p", "b"), ("a", "q"), ("q", "b"), ("q", "x"), ("x", "q"), ("b", "c")]
            grown = [("a", "r"), ("r", "b")]
            E = sorted([list(e) for arm in arms for e in arm] + [list(e) for e in core_ + grown])
            for k in (3, 4):
                yield dict(kind="cyc_model", model="kPathCoverCycles", edges=E, starts=[], ends=[], X=E, k=k, opts={}, grow=[list(e) for e in grown])
            E2 = sorted([list(e) for e in [("x", "y"), ("y", "z"), ("z", "y"), ("y", "w"), ("y", "r"), ("r", "w")]])
            yield dict(kind="cyc_model", model="kPathCoverCycles", edges=E2, starts=[], ends=[], X=E2, k=2, opts={}, grow=[["y", "r"], ["r", "w"]])
        # DAG
        for n in ((2, 3, 4) if quick else (2, 3, 4, 5)):
            for gi, G in enumerate(graphs.dags(n, names)):
                if ni == 1 and gi % 5:
                    continue
                if n == 5 and gi % 24:
                    continue
                E = _el(G)
                Xs = _X_choices([tuple(e) for e in E], cap2=3)
                if quick:
                    Xs = Xs[:1] + Xs[1 + gi % 3::3]
                for xi, X in enumerate(Xs):
                    k = (1, 2, 4)[(gi + xi) % 3]
                    for opts in ({}, {"optimize_with_safe_paths": False, "optimize_with_safe_sequences": True}):
                        yield dict(kind="dag_model", model="kPathCover" if (gi + xi) % 2 == 0 else "kMinPathError",
                                   edges=E, starts=[], ends=[], X=[list(e) for e in X], k=k, opts=opts)
                fl = list(graphs.flows_from_paths(G, weightsets=FLOW_WEIGHTS))
                for H, f in fl[:2]:
                    yield dict(kind="dag_model", model="kFlowDecomp", edges=[[u, v, f[(u, v)]] for u, v in sorted(G.edges())], starts=[], ends=[],
                               X=E, k=(2, 3, 5)[gi % 3], opts={"optimize_with_greedy": False})
                if fl and gi % 2 == 0 and len(E) > 1:
                    f = fl[0][1]
                    yield dict(kind="dag_model", model="kFlowDecomp", edges=[[u, v, f[(u, v)]] for u, v in sorted(G.edges())], starts=[], ends=[],
                               X=[e for e in E if e != E[gi % len(E)]], k=(2, 3, 5)[gi % 3], opts={}, ign=[E[gi % len(E)]])


# ------------------------------------------------------------------------------------------------ checks

_quiet = []


def _silence():
    if _quiet:
        return
    _quiet.append(1)
    import logging
    logging.getLogger("flowpaths").setLevel(logging.CRITICAL + 1)
    try:
        import flowpaths.utils as U
        U.logger.setLevel(logging.CRITICAL + 1)
        U.logger.disabled = True
    except Exception:
        pass


def _fail(fp_, what, **detail):
    return dict(ok=False, nontrivial=True, fingerprint=fp_, what=what, detail=detail)


def _edges_ok(H, S):
    return all(isinstance(e, tuple) and len(e) == 2 and H.has_edge(e[0], e[1]) for e in S)


def _check_safe_list(orc, H, seqs, X, who, ctx):
    """SAFE for every sequence; returns (failure or None, number of non-vacuous checks)"""
    n = 0
    for S in seqs:
        S = [tuple(e) for e in S]
        if len(S) == 0:
            continue
        if not _edges_ok(H, S):
            return _fail("%s returned a sequence with a non-edge of the internal graph" % who, "%s: sequence %s" % (ctx, S), seq=S), n
        r = orc.safe(S, X)
        if r is None:
            continue
        n += 1
        if r is False:
            return _fail("%s returned a sequence that is not safe for the trusted set" % who,
                         "%s: sequence %s is avoided by a route cover of X=%s (per trusted element one route through it that does not contain the sequence: %s)"
                         % (ctx, S, X, orc.witness_cover(S, X)), seq=S, X=X), n
    return None, n


def _check_incompatible(orc, seqs, who, ctx):
    n = 0
    for i in range(len(seqs)):
        for j in range(i + 1, len(seqs)):
            a, b = [tuple(e) for e in seqs[i]], [tuple(e) for e in seqs[j]]
            if not a or not b:
                continue
            n += 1
            if orc.exists([a, b]):
                return _fail("%s: two sequences assigned to different slots occur together in one source-to-sink route" % who,
                             "%s: slots %d and %d hold %s and %s; a single route contains both" % (ctx, i, j, a, b), a=a, b=b), n
    return None, n


def _build(case, with_flow=False):
    G = nx.DiGraph()
    G.graph["id"] = "g"
    for e in case["edges"]:
        if with_flow and len(e) > 2 and e[2] is not None:
            G.add_edge(e[0], e[1], flow=e[2])
        else:
            G.add_edge(e[0], e[1])
    return G


def _X_of(case):
    out = []
    for x in case["X"]:
        if len(x) > 0 and isinstance(x[0], (list, tuple)):
            out.append([tuple(e) for e in x])
        else:
            out.append(tuple(x))
    return out


def _done(orc, n, detail=None):
    if orc is not None and orc.disagree:
        return dict(ok=None, nontrivial=False, what="oracle self-check failed (harness fault): " + orc.disagree)
    return dict(ok=True, nontrivial=n > 0, detail=dict(checks=n, **(detail or {})))


def check_dag_fn(case):
    import flowpaths as fp
    from flowpaths.utils import safetypathcovers as spc
    G = _build(case)
    H = fp.stDAG(G, additional_starts=case["starts"], additional_ends=case["ends"])
    orc = Oracle(H, H.source, H.sink, dag=True)
    X = _X_of(case)
    ctx = "DAG %s starts=%s ends=%s X=%s" % (case["edges"], case["starts"], case["ends"], case["X"])
    n = 0
    only_edges = all(isinstance(x, tuple) for x in X)
    if only_edges:
        for nd in (False, True):
            seqs = spc.safe_paths(H, list(X), no_duplicates=nd)
            f, k = _check_safe_list(orc, H, seqs, X, "safe_paths", ctx)
            n += k
            if f and not orc.disagree:
                return f
    seqs = spc.safe_sequences(H, list(X), no_duplicates=False)
    f, k = _check_safe_list(orc, H, seqs, X, "safe_sequences", ctx)
    n += k
    if f and not orc.disagree:
        return f
    return _done(orc, n)


def check_cyc_fn(case):
    import flowpaths as fp
    from flowpaths.utils import safetypathcoverscycles as spcc
    G = _build(case)
    H = fp.stDiGraph(G, additional_starts=case["starts"], additional_ends=case["ends"])
    orc = Oracle(H, H.source, H.sink, dag=False)
    X = _X_of(case)
    ctx = "digraph %s starts=%s ends=%s X=%s" % (case["edges"], case["starts"], case["ends"], case["X"])
    seqs = spcc.maximal_safe_sequences_via_dominators(H, set(X))
    f, n = _check_safe_list(orc, H, seqs, X, "maximal_safe_sequences_via_dominators", ctx)
    if f:
        return f
    if seqs:
        chosen = H.get_longest_incompatible_sequences(seqs)
        f, k = _check_safe_list(orc, H, chosen, X, "get_longest_incompatible_sequences", ctx)
        n += k
        if f:
            return f
        f, k = _check_incompatible(orc, chosen, "get_longest_incompatible_sequences", ctx)
        n += k
        if f:
            return f
    return _done(orc, n, dict(sequences=len(seqs)))


def _flow_check(case, G, paths_edges, who, ctx, ignore=(), lower=None, upper=None):
    flow = lower if lower is not None else {(u, v): f for u, v, f in case["edges"]}
    ignore = set(tuple(e) for e in ignore)
    routes = []
    for p in graphs.st_paths(G):
        if len(p) > 1:
            routes.append(tuple(graphs.pedges(p)))
    n = 0
    for P in paths_edges:
        P = [tuple(e) for e in P]
        if not P:
            continue
        if not all(G.has_edge(*e) for e in P) or any(P[i][1] != P[i + 1][0] for i in range(len(P) - 1)):
            return _fail("%s returned something that is not a path of the graph" % who, "%s: %s" % (ctx, P)), n
        n += 1
        bad, wit = avoiding_decomposition(routes, flow, P, integer=False, ignore=ignore, upper=upper)
        if bad is None:
            return dict(ok=None, nontrivial=False, what="z3 returned unknown on the avoiding-decomposition LP"), n
        if bad:
            ibad = None
            if upper is None and all(float(v) == int(v) for v in flow.values()):
                ibad, iw = avoiding_decomposition(routes, flow, P, integer=True, ignore=ignore)
                if ibad:
                    wit = iw
            return _fail("%s returned a path that some flow decomposition avoids" % who,
                         "%s: path %s is in no path of the decomposition %s (integer decomposition avoiding it exists: %s)" % (ctx, P, wit, ibad), path=P, decomposition=wit), n
    return None, n


def check_flow_fn(case):
    from flowpaths.utils import safetyflowdecomp as sfd
    wt = int if case["wt"] == "int" else float
    G = _build(dict(edges=[[u, v, wt(f)] for u, v, f in case["edges"]]), with_flow=True)
    ctx = "flow %s" % (case["edges"],)
    n = 0
    for nd in (True, False):
        paths = sfd.compute_flow_decomp_safe_paths(G, "flow", no_duplicates=nd)
        f, k = _flow_check(case, G, paths, "compute_flow_decomp_safe_paths", ctx)
        n += k
        if f:
            return f
    # inexact flows: every edge carries an interval [lb, ub] around the value (widths from a fixed pattern); a reported path must be contained in
    # some path of EVERY decomposition of EVERY conserving flow inside the intervals
    if case.get("widths"):
        import flowpaths as fp
        lo, hi = {}, {}
        for (u, v, f), (dl, dh) in zip(case["edges"], case["widths"]):
            lo[(u, v)], hi[(u, v)] = max(min(1, wt(f)), wt(f) - wt(dl)), wt(f) + wt(dh)      # lower bounds stay positive where the value is (an edge that may carry nothing is trivially unsafe)
            G[u][v]["lb"], G[u][v]["ub"] = lo[(u, v)], hi[(u, v)]
        dec = fp.stDAG(G).decompose_using_max_bottleneck("flow")[0]
        for nd in (True, False):
            paths = sfd.compute_inexact_flow_decomp_safe_paths(G, "lb", "ub", dec, no_duplicates=nd)
            f, k = _flow_check(case, G, paths, "compute_inexact_flow_decomp_safe_paths", ctx + " intervals " + str(sorted((e, lo[e], hi[e]) for e in lo)), lower=lo, upper=hi)
            n += k
            if f:
                return f
    return dict(ok=True, nontrivial=n > 0 and G.number_of_edges() > 1, detail=dict(checks=n))


def _model(case, cyc):
    import flowpaths as fp
    X = set(_X_of(case))
    model = case["model"]
    kw = dict(k=case["k"], optimization_options=dict(case["opts"]), solver_options={"threads": 1})
    if case["starts"]:
        kw["additional_starts"] = list(case["starts"])
    if case["ends"]:
        kw["additional_ends"] = list(case["ends"])
    if model.startswith("kPathCover"):
        grow = [tuple(e) for e in case.get("grow", [])]
        if grow:
            # the caller's graph object served an earlier model and was then extended in place: the model under test must prune for the graph as it is NOW
            G = _build(dict(case, edges=[e for e in case["edges"] if tuple(e[:2]) not in grow]))
            first = getattr(fp, "MinPathCoverCycles" if cyc else "MinPathCover")(G, solver_options={"threads": 1})
            first.solve()
            getattr(fp, model)(G, **dict(kw, k=max(1, case["k"])))
            for e in case["edges"]:
                if tuple(e[:2]) in grow:
                    G.add_edge(e[0], e[1])
        else:
            G = _build(case)
        kw["elements_to_ignore"] = [tuple(e[:2]) for e in case["edges"] if tuple(e[:2]) not in X]
        return getattr(fp, model)(G, **kw), G
    if model.startswith("kMinPathError"):
        G = nx.DiGraph()
        G.graph["id"] = "g"
        for i, e in enumerate(case["edges"]):
            G.add_edge(e[0], e[1], flow=(1 + i % 3) if tuple(e[:2]) in X else 0)      # trusted = edges with non-zero weight
        return getattr(fp, model)(G, flow_attr="flow", weight_type=int, **kw), G
    G = _build(case, with_flow=True)
    if case.get("ign"):
        kw["elements_to_ignore"] = [tuple(e) for e in case["ign"]]
    return fp.kFlowDecomp(G, flow_attr="flow", weight_type=int, **kw), G


def check_cyc_model(case):
    m, G = _model(case, True)
    H = m.G
    orc = Oracle(H, H.source, H.sink, dag=False)
    X = sorted(m.trusted_edges_for_safety or [])
    want = sorted(set(_X_of(case)))
    ctx = "%s k=%s opts=%s on digraph %s starts=%s ends=%s trusted=%s" % (case["model"], case["k"], case["opts"], case["edges"], case["starts"], case["ends"], X)
    if X != want:
        return dict(ok=None, nontrivial=False, what="harness: model's trusted set %s is not the intended X %s" % (X, want))
    n = 0
    f, k = _check_safe_list(orc, H, getattr(m, "safe_lists", None) or [], X, "model.safe_lists (cyclic)", ctx)
    n += k
    if f:
        return f
    wtf = list(getattr(m, "walks_to_fix", None) or [])
    slots = wtf[: min(len(wtf), m.k)]
    f, k = _check_safe_list(orc, H, slots, X, "model.walks_to_fix (cyclic)", ctx)
    n += k
    if f:
        return f
    f, k = _check_incompatible(orc, slots, "model.walks_to_fix (cyclic)", ctx)
    n += k
    if f:
        return f
    for (u, v, i) in sorted(m.edges_set_to_zero):
        n += 1
        S = [tuple(e) for e in slots[i]] if i < len(slots) else []       # a slot without a sequence: every route "contains" it
        if orc.exists([S, [(u, v)]]):
            return _fail("cyclic model: an edge fixed to 0 for a slot lies on a source-to-sink walk that contains the slot's sequence",
                         "%s: slot %d holds %s, edge (%s,%s) is forbidden there" % (ctx, i, S, u, v), slot=i, seq=S, edge=(u, v))
    return _done(orc, n, dict(slots=len(slots), zero=len(m.edges_set_to_zero)))


def check_dag_model(case):
    m, G = _model(case, False)
    H = m.G
    orc = Oracle(H, H.source, H.sink, dag=True)
    ctx = "%s k=%s opts=%s on DAG %s" % (case["model"], case["k"], case["opts"], case["edges"])
    n = 0
    lists = list(getattr(m, "safe_lists", None) or [])
    # kFlowDecomp uses FLOW-safe paths only when no edge is ignored (library fix "uses flow-safe paths only when no edge is ignored");
    # with ignored edges its safe_lists are ordinary safe paths for the trusted edges of the internal s-t DAG, checked like every other model's
    if case["model"] == "kFlowDecomp" and not (case.get("ign") or []):
        ign = []
        # with ignored edges a flow decomposition only has to explain the other edges (class docstring / docs/ignoring-edges.md)
        f, k = _flow_check(case, G, lists, "kFlowDecomp.safe_lists (flow-safe paths%s)" % (", some edges ignored" if ign else ""), ctx + " ignored=%s" % ign, ignore=ign)
        n += k
        if f:
            return f
    else:
        X = sorted(m.trusted_edges_for_safety or [])
        want = sorted(set(_X_of(case)))
        if X != want:
            return dict(ok=None, nontrivial=False, what="harness: model's trusted set %s is not the intended X %s" % (X, want))
        f, k = _check_safe_list(orc, H, lists, X, "model.safe_lists (DAG)", ctx + " trusted=%s" % X)
        n += k
        if f and not orc.disagree:
            return f
    # slots: on this tree a DAG model records no paths_to_fix (its _apply_safety_optimizations is never called); what it WOULD assign
    # is what the helper returns
    slots = getattr(m, "paths_to_fix", None)
    who = "model.paths_to_fix (DAG)"
    if slots is None and lists:
        slots = m._get_paths_to_fix_from_safe_lists()
        who = "DAG helper _get_paths_to_fix_from_safe_lists (not wired into the model on this tree)"
    slots = list(slots or [])
    f, k = _check_incompatible(orc, slots, who, ctx)
    n += k
    if f and not orc.disagree:
        return f
    for (u, v, i) in sorted(m.edges_set_to_zero):
        n += 1
        if orc.exists([[tuple(e) for e in slots[i]] if i < len(slots) else [], [(u, v)]]):
            return _fail("DAG model: an edge fixed to 0 for a slot lies on a source-to-sink path that contains the slot's sequence",
                         "%s: slot %d, edge (%s,%s)" % (ctx, i, u, v))
    return _done(orc, n, dict(slots=len(slots), zero=len(m.edges_set_to_zero)))


def check(case):
    _silence()
    return dict(dag_fn=check_dag_fn, cyc_fn=check_cyc_fn, flow_fn=check_flow_fn, cyc_model=check_cyc_model, dag_model=check_dag_model)[case["kind"]](case)


def run(tier="quick", seed=0, chunk=0, nchunks=1):
    from vf.bounded import run_cases
    return run_cases(cases(tier), check, chunk, nchunks, engine="rc",
                     rule="(A) safe_paths/safe_sequences on every DAG with <= 4 nodes (thorough: + sampled 5) x X in {all edges, every edge, every pair, sub-path constraints}; "
                          "(B) maximal_safe_sequences_via_dominators + get_longest_incompatible_sequences on every weakly connected digraph with <= 3 nodes incl. self-loops "
                          "(thorough: + sampled 4) x every choice of <= 1 additional start and <= 1 additional end that puts every edge on a source-to-sink walk x X in {all, every edge, every pair}; (C) compute_flow_decomp_safe_paths on DAG flows "
                          "(superpositions of <= 3 paths, a halved float copy, a few with zero-flow edges); (D) kPathCover(/Cycles), kMinPathError(/Cycles), kFlowDecomp constructed with "
                          "safety on: safe_lists, walks_to_fix/paths_to_fix, edges_set_to_zero; every answer of the product-automaton oracle on a DAG is cross-checked by explicit path "
                          "enumeration; non-trivial = at least one non-vacuous safety / incompatibility / zero-fix question was decided",
                     bounds="DAGs n<=%d, digraphs n<=%d, |X| in {1, 2, all}, two naming schemes" % ((4, 3) if tier == "quick" else (5, 4)),
                     exhaustive=False)
