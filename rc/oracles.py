"""Independent spec-level oracles (explicit route enumeration, exact arithmetic, z3 over the explicit route list).
Every optimum returned is certified: integer instances by enumeration or a second `objective < v` unsat query."""
import itertools
from fractions import Fraction
import networkx as nx
import z3
from rc.graphs import st_paths, pedges


def _F(x):
    return Fraction(x).limit_denominator(10 ** 6)


def _rv(x):
    return z3.RealVal(str(_F(x)))


def _val(v):
    s = str(v)
    if "/" in s:
        a, b = s.split("/")
        return Fraction(int(a), int(b))
    return Fraction(s)


# ---------------------------------------------------------------------------------------------
# DAG: routes = source-to-sink paths

def routes_dag(G, starts=(), ends=()):
    return [p for p in st_paths(G, starts, ends)]


def route_mult(p):
    m = {}
    for e in pedges(p):
        m[e] = m.get(e, 0) + 1
    return m


def constraint_ok(route_edges_mult, constraint, coverage=1.0, lengths=None):
    """does a route (edge -> multiplicity) contain the constraint's edges to the requested coverage fraction?"""
    tot = sum((lengths or {}).get(e, 1) for e in constraint)
    got = sum((lengths or {}).get(e, 1) for e in constraint if route_edges_mult.get(e, 0) > 0)
    return got >= coverage * tot - 1e-12


def _select(s, k, R, wt, prefix=""):
    sel = [[z3.Bool("%ss%d_%d" % (prefix, i, j)) for j in range(len(R))] for i in range(k)]
    T = z3.Int if wt is int else z3.Real
    w = [T("%sw%d" % (prefix, i)) for i in range(k)]
    for i in range(k):
        s.add(z3.PbEq([(x, 1) for x in sel[i]], 1))
        s.add(w[i] >= 0)
    return sel, w


def _through(sel, w, R, e, k):
    """sum_i w_i * mult_i(e)"""
    terms = [z3.If(sel[i][j], w[i] * R[j][e], 0) for i in range(k) for j in range(len(R)) if R[j].get(e, 0) > 0]
    return z3.Sum(terms + [z3.IntVal(0)])


def _constraints(s, sel, R, k, constraints, coverage, lengths):
    for cst in constraints or ():
        ok = [sel[i][j] for i in range(k) for j in range(len(R)) if constraint_ok(R[j], cst, coverage, lengths)]
        s.add(z3.Or(ok) if ok else z3.BoolVal(False))


def fd_feasible(R, flow, k, wt=int, ignore=(), constraints=None, coverage=1.0, lengths=None, weights_from=None):
    """exists k routes (multiplicity vectors from R, with repetition) and weights >= 0 explaining `flow` exactly on non-ignored edges"""
    s = z3.Solver()
    sel, w = _select(s, k, R, wt)
    for e, fe in flow.items():
        if e in ignore:
            continue
        fe = _F(fe)
        if wt is int and fe.denominator != 1:
            return False
        s.add(_through(sel, w, R, e, k) == _rv(fe))
    _constraints(s, sel, R, k, constraints, coverage, lengths)
    if weights_from is not None:
        for i in range(k):
            s.add(z3.Or([w[i] == _rv(x) for x in weights_from]))
    return s.check() == z3.sat


def fd_min(R, flow, wt=int, ignore=(), constraints=None, coverage=1.0, lengths=None, kmax=8):
    for k in range(1, kmax + 1):
        if fd_feasible(R, flow, k, wt, ignore, constraints, coverage, lengths):
            return k
    return None


def _minimise(s, obj):
    """certified minimum of obj over the assertions of s (descent with strict improvement; terminates on these finite-structure instances)"""
    if s.check() != z3.sat:
        return None
    v = _val(s.model().eval(obj, model_completion=True))
    o = z3.Optimize()
    o.set("timeout", 2000)           # Optimize is only a shortcut: the descent loop below certifies the optimum either way
    o.add(*s.assertions())
    h = o.minimize(obj)
    if o.check() == z3.sat:
        v2 = _val(o.model().eval(obj, model_completion=True))
        if v2 < v:
            v = v2
    while True:
        s.push()
        s.add(obj < z3.RealVal(str(v)))
        r = s.check()
        if r == z3.sat:
            v = _val(s.model().eval(obj, model_completion=True))
            s.pop()
            continue
        s.pop()
        if r == z3.unsat:
            return v
        return None      # unknown: no certified optimum


def lae_opt(R, flow, k, wt=int, ignore=(), scale=None, constraints=None, coverage=1.0, lengths=None):
    s = z3.Solver()
    sel, w = _select(s, k, R, wt)
    errs = []
    for n, (e, fe) in enumerate(flow.items()):
        if e in ignore:
            continue
        tot = _through(sel, w, R, e, k)
        d = _rv(fe) - tot
        sc = _F(1 if scale is None else scale.get(e, 1))
        if sc == 0:
            continue
        errs.append(z3.If(d >= 0, d, -d) * z3.RealVal(str(sc)))
    _constraints(s, sel, R, k, constraints, coverage, lengths)
    return _minimise(s, z3.Sum(errs + [z3.RealVal(0)]))


def mpe_opt(R, flow, k, wt=int, ignore=(), scale=None, constraints=None, coverage=1.0, lengths=None):
    s = z3.Solver()
    sel, w = _select(s, k, R, wt)
    T = z3.Int if wt is int else z3.Real
    sl = [T("sl%d" % i) for i in range(k)]
    for i in range(k):
        s.add(sl[i] >= 0)
    for e, fe in flow.items():
        if e in ignore:
            continue
        sc = _F(1 if scale is None else scale.get(e, 1))
        if sc == 0:
            continue
        tot = _through(sel, w, R, e, k)
        st = _through(sel, sl, R, e, k)
        d = (_rv(fe) - tot) * z3.RealVal(str(sc))
        s.add(d <= st, -d <= st)
    _constraints(s, sel, R, k, constraints, coverage, lengths)
    return _minimise(s, z3.Sum([z3.ToReal(x) if wt is int else x for x in sl] + [z3.RealVal(0)]))


def min_cover(R, edges, constraints=None, coverage=1.0, lengths=None, kmax=8):
    """fewest routes covering every edge in `edges` (and each constraint inside one route)"""
    R = [r for r in R]
    for k in range(0 if not edges and not constraints else 1, kmax + 1):
        for combo in itertools.combinations_with_replacement(range(len(R)), k):
            if all(any(R[j].get(e, 0) > 0 for j in combo) for e in edges) and \
               all(any(constraint_ok(R[j], c, coverage, lengths) for j in combo) for c in (constraints or ())):
                return k
    return None


# ---------------------------------------------------------------------------------------------
# digraphs with cycles: routes = connected balanced multiplicity vectors (s-t walks), capped

def augmented(G, starts=(), ends=()):
    """returns (sources, sinks) at spec level: nodes without in-edges or declared starts, ..."""
    S = [v for v in G if G.in_degree(v) == 0 or v in starts]
    T = [v for v in G if G.out_degree(v) == 0 or v in ends]
    return S, T


def routes_walks(G, caps, starts=(), ends=()):
    """all s-t walks of G as edge multiplicity dicts, multiplicity of e at most caps[e] (spec-level cap, generous)"""
    S, T = augmented(G, starts, ends)
    E = list(G.edges())
    out = {}
    for s in S:
        for t in T:
            for ms in itertools.product(*[range(caps[e] + 1) for e in E]):
                m = dict(zip(E, ms))
                ok = True
                for v in G.nodes():
                    inn = sum(m[e] for e in E if e[1] == v) + (1 if v == s else 0)
                    outt = sum(m[e] for e in E if e[0] == v) + (1 if v == t else 0)
                    if inn != outt:
                        ok = False
                        break
                if not ok:
                    continue
                used = [e for e in E if m[e] > 0]
                seen = {s}
                stack = [s]
                while stack:
                    v = stack.pop()
                    for e in used:
                        if e[0] == v and e[1] not in seen:
                            seen.add(e[1])
                            stack.append(e[1])
                if any(e[0] not in seen for e in used) or t not in seen:
                    continue
                key = tuple(sorted((e, c) for e, c in m.items() if c > 0)) + (("__st", (s, t)),)
                out[key] = {e: c for e, c in m.items() if c > 0}
    # distinct multiplicity vectors (start/end pair does not matter for the objective)
    uniq = {}
    for key, m in out.items():
        uniq[tuple(sorted(m.items()))] = m
    return list(uniq.values())


def reach(G, v):
    return set(nx.descendants(G, v)) | {v}


def width_routes(R, edges, kmax=8):
    return min_cover(R, edges, kmax=kmax)
