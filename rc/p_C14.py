"""C14 bounded stand-in: the REAL walk reconstruction (AbstractWalkModelDiGraph._build_residual_graph_for_layer / _reconstruct_eulerian_walk /
_build_closed_walk_from_vertex / get_solution_walks) is run, without any solver, on EVERY per-walk edge-multiplicity assignment of a small universe
that is balanced at inner nodes, leaves the source once and is connected - and on every ordering of the adjacency lists (the only
nondeterminism of the algorithm is the order in which parallel choices are popped).  Contract: one single source-to-sink walk that traverses
each edge exactly its multiplicity; an all-zero assignment gives an empty walk."""
import itertools
from collections import Counter


class _G:
    """minimal stand-in for the stDiGraph the decoder reads: nodes(), edges(), source, sink"""

    def __init__(self, nodes, edges, source, sink, order):
        self._nodes, self._edges, self.source, self.sink = nodes, edges, source, sink
        self._order = order

    def nodes(self):
        return list(self._nodes)

    def edges(self):
        return [self._edges[i] for i in self._order]

    def number_of_edges(self):
        return len(self._edges)

    def number_of_nodes(self):
        return len(self._nodes)


class _Model:
    pass


_TEMPLATE = {}


def _fresh_model():
    """a stand-in `self` carrying the plain-data state a freshly constructed real model has (so code that starts relying on a new attribute
    initialised in __init__ is exercised, not crashed): the real kPathCoverCycles constructor is run once on a one-edge graph and the
    attributes of basic type are copied (deep) into every stand-in; G, k and the solution values are then overridden."""
    import copy
    if not _TEMPLATE:
        import networkx as nx
        import flowpaths as fp
        g = nx.DiGraph()
        g.add_edge("a", "b", flow=1)
        real = fp.kPathCoverCycles(g, k=1)
        basic = (dict, list, set, tuple, int, float, str, bool, type(None))
        def plain(v, d=0):
            if isinstance(v, (dict,)):
                return d < 3 and all(plain(a, d + 1) and plain(b, d + 1) for a, b in v.items())
            if isinstance(v, (list, set, tuple)):
                return d < 3 and all(plain(a, d + 1) for a in v)
            return isinstance(v, basic)
        _TEMPLATE["attrs"] = {k: v for k, v in vars(real).items() if plain(v)}
    m = _Model()
    m.__dict__.update(copy.deepcopy(_TEMPLATE["attrs"]))
    return m


def _decoder():
    from flowpaths.abstractwalkmodeldigraph import AbstractWalkModelDiGraph as A
    return A


def balanced_connected_multigraphs(n_inner, max_trav, selfloops=True):
    """all multiplicity vectors m on the complete digraph over inner nodes 0..n-1 (+ source S, sink T) such that exactly one source edge
    and one sink edge are used, every inner node is balanced, everything used is reachable from S, total traversals <= max_trav"""
    inner = ["x%d" % i for i in range(n_inner)]
    S, T = "S", "T"
    ie = [(u, v) for u in inner for v in inner if (u != v or selfloops)]
    for s_to in inner:
        for t_from in inner:
            base = [(S, s_to), (t_from, T)]
            budget = max_trav - 2
            # enumerate multiplicities of inner edges with total <= budget
            def rec(i, left, cur):
                if i == len(ie):
                    yield dict(cur)
                    return
                for c in range(0, left + 1):
                    if c:
                        cur.append((ie[i], c))
                    yield from rec(i + 1, left - c, cur)
                    if c:
                        cur.pop()
            for m in rec(0, budget, []):
                mult = dict(m)
                mult[(S, s_to)] = 1
                mult[(t_from, T)] = 1
                ok = True
                for v in inner:
                    if sum(c for (a, b), c in mult.items() if b == v) != sum(c for (a, b), c in mult.items() if a == v):
                        ok = False
                        break
                if not ok:
                    continue
                seen, st = {S}, [S]
                while st:
                    a = st.pop()
                    for (p, q), c in mult.items():
                        if p == a and c > 0 and q not in seen:
                            seen.add(q)
                            st.append(q)
                if any(a not in seen for (a, b), c in mult.items() if c > 0):
                    continue
                yield inner, S, T, mult


_CURATED = [
    {("S", "a"): 1, ("a", "b"): 1, ("b", "a"): 1, ("a", "T"): 1, ("a", "c"): 1, ("c", "a"): 1, ("b", "d"): 1, ("d", "b"): 1},
    {("S", "a"): 1, ("a", "b"): 2, ("b", "a"): 2, ("a", "T"): 1, ("a", "c"): 1, ("c", "a"): 1, ("b", "d"): 1, ("d", "b"): 1},
    {("S", "a"): 1, ("a", "b"): 1, ("b", "c"): 1, ("c", "a"): 1, ("a", "T"): 1, ("a", "a"): 1, ("b", "d"): 1, ("d", "b"): 1, ("c", "c"): 1},
    {("S", "a"): 1, ("a", "b"): 1, ("b", "a"): 1, ("a", "e"): 1, ("e", "T"): 1, ("a", "c"): 1, ("c", "a"): 1, ("b", "d"): 1, ("d", "b"): 1, ("e", "e"): 1},
]
# one closed sub-walk with more traversals than the graph has edges (the graph is restricted to the used edges: 6 edges, 9 traversals in the closed walk at `a`)
_CURATED_RESTRICTED = [
    {("S", "a"): 1, ("a", "T"): 1, ("a", "b"): 1, ("b", "c"): 4, ("c", "b"): 3, ("c", "a"): 1},
    {("S", "a"): 1, ("a", "T"): 1, ("a", "b"): 1, ("b", "c"): 2, ("c", "b"): 1, ("c", "c"): 5, ("c", "a"): 1},
    {("S", "a"): 1, ("a", "T"): 1, ("a", "a"): 9},
]


def cases(tier):
    bounds = [(1, 5), (2, 6), (3, 6)] if tier == "quick" else [(1, 7), (2, 8), (3, 8), (4, 7)]
    for n, mt in bounds:
        for inner, S, T, mult in balanced_connected_multigraphs(n, mt):
            edges = sorted(mult)
            yield dict(inner=inner, mult=[[list(e), c] for e, c in sorted(mult.items())])
    # curated: the first greedy source-to-sink walk visits a vertex twice and closed walks hang at consecutive trunk vertices
    # (4-5 inner nodes, 8-11 traversals: beyond the exhaustive bounds above; the orderings are sampled, see check)
    for mult in _CURATED:
        inner = sorted({v for e in mult for v in e if v not in ("S", "T")})
        yield dict(inner=inner, mult=[[list(e), c] for e, c in sorted(mult.items())], fam="trunk-revisit")
    for mult in _CURATED_RESTRICTED:
        inner = sorted({v for e in mult for v in e if v not in ("S", "T")})
        yield dict(inner=inner, mult=[[list(e), c] for e, c in sorted(mult.items())], fam="long-closed-walk", restrict=True)
    # the all-zero assignment and a layer that uses nothing
    yield dict(inner=["x0", "x1"], mult=[], zero=True)


def check(case):
    A = _decoder()
    inner = case["inner"]
    S, T = "S", "T"
    mult = {tuple(e): c for e, c in case["mult"]}
    all_edges = [(S, v) for v in inner] + [(v, T) for v in inner] + [(u, v) for u in inner for v in inner]
    if case.get("restrict"):
        all_edges = [e for e in all_edges if mult.get(e, 0) > 0]          # the graph has exactly the used edges
    used = [e for e in all_edges if mult.get(e, 0) > 0]
    has_cycle = sum(mult.values()) > len(set(a for a, b in mult)) if mult else False
    # every ordering of the edge list changes the order inside each adjacency list; restrict to orderings of the USED edges (others add nothing)
    idx_used = [all_edges.index(e) for e in used]
    rest = [i for i in range(len(all_edges)) if i not in idx_used]
    n_orders = 0
    if len(idx_used) <= 6:
        perms = itertools.permutations(idx_used)
    else:
        # beyond 6 used edges: the first 240 orderings in lexicographic order + 480 pseudo-random ones (fixed seed: the run is reproducible)
        import random
        rnd = random.Random(len(idx_used) * 7919 + sum(idx_used))
        perms = itertools.chain(itertools.islice(itertools.permutations(idx_used), 0, 240),
                                (tuple(rnd.sample(idx_used, len(idx_used))) for _ in range(480 if not case.get("fam") else 3000)))
    for perm in perms:
        n_orders += 1
        m = _fresh_model()
        m.G = _G([S] + inner + [T], all_edges, S, T, list(perm) + rest)
        m.k = 1
        # a solver reports an integral multiplicity only up to its integrality tolerance: every third ordering is fed c -/+ 1e-7
        dev = (0.0, -1e-7, 1e-7)[n_orders % 3]
        m.edge_vars_sol = {(str(u), str(v), 0): float(c) + dev for (u, v), c in mult.items()}
        m.edge_vars_sol.update({(str(u), str(v), 0): 0.0 for (u, v) in all_edges if (u, v) not in mult})
        m._build_residual_graph_for_layer = lambda i, m=m: A._build_residual_graph_for_layer(m, i)
        m._reconstruct_eulerian_walk = lambda rg, i, m=m: A._reconstruct_eulerian_walk(m, rg, i)
        m._build_closed_walk_from_vertex = lambda g, v, st, m=m: A._build_closed_walk_from_vertex(m, g, v, st)
        walks = A.get_solution_walks(m)
        again = A.get_solution_walks(m)
        if again != walks:
            return dict(ok=False, nontrivial=True, fingerprint="reconstructing the walks a second time gives a different answer",
                        what="mult=%s first=%s second=%s" % (sorted(mult.items()), walks, again))
        if len(walks) != 1:
            return dict(ok=False, nontrivial=True, fingerprint="walk decoder does not return one walk per layer", what="%d walks for k=1" % len(walks))
        w = walks[0]
        if case.get("zero"):
            if w != []:
                return dict(ok=False, nontrivial=True, fingerprint="all-zero assignment does not yield an empty walk", what="walk %s" % (w,))
            continue
        full = [S] + list(w) + [T]
        trav = Counter(zip(full, full[1:]))
        want = Counter({e: c for e, c in mult.items() if c > 0})
        if trav != want:
            dropped = {str(e): want[e] - trav.get(e, 0) for e in want if trav.get(e, 0) < want[e]}
            invented = {str(e): trav[e] - want.get(e, 0) for e in trav if trav[e] > want.get(e, 0)}
            return dict(ok=False, nontrivial=True, fingerprint="reconstructed walk does not traverse each edge exactly its multiplicity",
                        what="mult=%s order=%s walk=%s dropped=%s invented=%s" % (sorted(mult.items()), [all_edges[i] for i in perm], w, dropped, invented),
                        detail=dict(dropped=dropped, invented=invented))
        if any(v in (S, T) for v in w):
            return dict(ok=False, nontrivial=True, fingerprint="reconstructed walk contains the synthetic source/sink", what="walk %s" % (w,))
        if n_orders == 1 and not case.get("zero"):
            # k = 2: an all-zero layer in front of (behind) the used layer must give an empty walk there and the same walk for the used layer
            for zero_layer in (0, 1):
                m2 = _fresh_model()
                m2.G = m.G
                m2.k = 2
                used_layer = 1 - zero_layer
                m2.edge_vars_sol = {(str(u), str(v), used_layer): float(c) for (u, v), c in mult.items()}
                m2.edge_vars_sol.update({(str(u), str(v), used_layer): 0.0 for (u, v) in all_edges if (u, v) not in mult})
                m2.edge_vars_sol.update({(str(u), str(v), zero_layer): 0.0 for (u, v) in all_edges})
                m2._build_residual_graph_for_layer = lambda i, m2=m2: A._build_residual_graph_for_layer(m2, i)
                m2._reconstruct_eulerian_walk = lambda rg, i, m2=m2: A._reconstruct_eulerian_walk(m2, rg, i)
                m2._build_closed_walk_from_vertex = lambda g, v, st, m2=m2: A._build_closed_walk_from_vertex(m2, g, v, st)
                w2 = A.get_solution_walks(m2)
                if len(w2) != 2 or w2[zero_layer] != [] or list(w2[used_layer]) != list(w):
                    return dict(ok=False, nontrivial=True, fingerprint="with an all-zero layer next to a used layer the walks are not (empty walk, the used layer's walk)",
                                what="zero layer %d: walks %s, expected the used layer's walk %s | mult=%s" % (zero_layer, w2, w, sorted(mult.items())))
    return dict(ok=True, nontrivial=bool(has_cycle), detail=dict(orders=n_orders))


def run(tier="quick", seed=0, chunk=0, nchunks=1):
    from vf.bounded import run_cases
    return run_cases(cases(tier), check, chunk, nchunks, engine="rc(exhaustive enumeration, no solver)",
                     rule="every connected, inner-balanced multiplicity vector with one source edge and one sink edge on <=3 (thorough 4) inner nodes incl. self-loops and <=6 (8) traversals, "
                          "x every ordering of the used edges (<=720 per vector; beyond 6 used edges 240 lexicographic + 480 seeded pseudo-random orderings), values fed as c, c-1e-7, c+1e-7 in turn; "
                          "+ 4 curated vectors (4-5 inner nodes, 8-11 traversals: a trunk that revisits a vertex, closed walks hanging at consecutive trunk vertices) x 3240 sampled orderings; non-trivial = the vector contains a cycle or a repeated edge",
                     bounds="inner nodes <= %d, traversals <= %d" % ((3, 6) if tier == "quick" else (4, 8)),
                     assumptions=["the decoder reads only G.nodes(), G.edges(), G.source, G.sink and edge_vars_sol (checked: a minimal stand-in object suffices)"])
