"""C16 bounded stand-in: MinErrorFlow (real HiGHS) on every small weighted digraph vs an exact, certified L1-minimum
flow-correction oracle (z3 over one Int/Real variable per edge / node; optimum found by bisection over satisfiability queries and certified by a final `objective < v` unsat query).

Reading of the statement used here (DESIGN 3.0 and the class docstring):
  * conservation is demanded at every node with both in- and out-edges that is not an additional start/end ("exempt");
  * "any other such flow" ranges over the flows the docstring describes: at an additional start the outgoing flow may exceed the
    incoming one, at an additional end the incoming may exceed the outgoing one (additional starts/ends only on acyclic inputs);
  * total change = sum over non-ignored elements (scale factor 0 = ignored) of factor * |value - corrected value|;
  * reported `error` = the unscaled sum of absolute changes on non-ignored elements, `objective_value` = the scaled sum
    (+ lambda * flow leaving the sources when sparsity_lambda > 0); with epsilon > 0 only the (1+eps) budget is demanded of the objective.
  * node-weighted input: a node-weighted graph is a flow iff edge values y >= 0 exist with inflow(v) = value(v) = outflow(v)
    wherever v has in- (resp. out-) edges; nodes without the attribute are unconstrained.
"""
import json
import random
from fractions import Fraction
import networkx as nx
from rc import graphs

TOL = 1e-6
ATTR = "flow"


# ---------------------------------------------------------------------------------------------
# universe

def _all_digraphs(n, names):
    pairs = [(i, j) for i in range(n) for j in range(n)]
    for mask in range(1, 1 << len(pairs)):
        G = nx.DiGraph()
        for b, (i, j) in enumerate(pairs):
            if mask >> b & 1:
                G.add_edge(names[i], names[j])
        if G.number_of_nodes() < n or nx.is_directed_acyclic_graph(G):
            continue
        yield G


def _topologies(tier):
    """(tag, names, edge list)"""
    out = []
    for n in (2, 3, 4):
        for gi, G in enumerate(graphs.dags(n)):
            if n == 4 and tier == "quick" and gi % 2:
                continue
            out.append(("dag", graphs.NAMES1, list(G.edges())))
    for n in (3, 4):
        for gi, G in enumerate(graphs.dags(n, graphs.NAMES2)):
            if gi % (3 if n == 3 else 9) == 0:
                out.append(("dag", graphs.NAMES2, list(G.edges())))
    if tier != "quick":
        for gi, G in enumerate(graphs.dags(5)):
            if gi % 23 == 0:
                out.append(("dag", graphs.NAMES1, list(G.edges())))
    for n in (1, 2, 3):
        step = {1: 1, 2: 1, 3: (9 if tier == "quick" else 2)}[n]
        for gi, G in enumerate(_all_digraphs(n, graphs.NAMES1)):
            if gi % step == 0:
                out.append(("cyc", graphs.NAMES1, list(G.edges())))
    for gi, G in enumerate(_all_digraphs(3, graphs.NAMES2)):
        if gi % (61 if tier == "quick" else 17) == 0:
            out.append(("cyc", graphs.NAMES2, list(G.edges())))
    if tier != "quick":
        for gi, G in enumerate(_all_digraphs(4, graphs.NAMES1)):
            if gi % 997 == 0:
                out.append(("cyc", graphs.NAMES1, list(G.edges())))
    return out


def _case(kind, edges, nodes, wt, ignore=(), scaling=(), starts=(), ends=(), lam=0, eps=None, edgeattr=None):
    """edgeattr (node-weighted input only): every edge additionally carries the attribute of the same name with this value - it must not count"""
    return dict(edgeattr=edgeattr, kind=kind, edges=[list(e) for e in edges], nodes=nodes, wt=wt, ignore=[list(x) if isinstance(x, tuple) else x for x in ignore],
                scaling=[[list(k) if isinstance(k, tuple) else k, f] for k, f in scaling], starts=list(starts), ends=list(ends), lam=lam, eps=eps)


def cases(tier):
    rnd = random.Random(16)
    nw = 2 if tier == "quick" else 4
    for ti, (tag, names, E) in enumerate(_topologies(tier)):
        V = sorted({x for e in E for x in e}, key=names.index)
        inner = [v for v in V if any(e[1] == v for e in E) and any(e[0] == v for e in E)]
        for wi in range(nw):
            vals = [rnd.choice((0, 1, 2, 3, 3, 5)) for _ in E]
            nvals = [rnd.choice((0, 1, 2, 3, 5)) for _ in V]
            for wt in ("int", "float"):
                sc = 1 if wt == "int" else 0.5
                ev = [(u, v, x * sc) for (u, v), x in zip(E, vals)]
                nv = {v: x * sc for v, x in zip(V, nvals)}
                # --- edge-weighted, plain
                yield _case("edge", ev, None, wt)
                var = (ti + wi) % 6
                e1 = E[(ti + wi) % len(E)]
                e2 = E[(ti + 2 * wi + 1) % len(E)]
                # --- ignore lists (size 1, 2; one ignored edge without the attribute)
                if var in (0, 3):
                    yield _case("edge", ev, None, wt, ignore=[e1])
                    yield _case("edge", [(u, v, None if (u, v) == e1 else x) for u, v, x in ev], None, wt, ignore=sorted({e1, e2}))
                # --- error scaling 0 / 0.5 / 1
                if var in (1, 4):
                    yield _case("edge", ev, None, wt, scaling=[(e1, 0.5)])
                    yield _case("edge", ev, None, wt, scaling=[(e1, 0)] + ([(e2, 0.5)] if e2 != e1 else []), ignore=[e2] if var == 4 and e2 != e1 else [])
                    yield _case("edge", ev, None, wt, scaling=[(e1, 1)])
                # --- additional starts / ends (acyclic inputs only, per the docstring)
                if tag == "dag" and inner and var in (2, 5, 0):
                    a = inner[(ti + wi) % len(inner)]
                    b = inner[(ti + wi + 1) % len(inner)]
                    yield _case("edge", ev, None, wt, starts=[a])
                    yield _case("edge", ev, None, wt, ends=[b])
                    yield _case("edge", ev, None, wt, starts=[a], ends=[b])
                # --- few-values epsilon
                if var in (0, 2, 4) or tier != "quick":
                    for eps in (0.25, 1):
                        yield _case("edge", ev, None, wt, eps=eps)
                    if var == 4:
                        yield _case("edge", ev, None, wt, eps=1, scaling=[(e1, 0.5)], ignore=[e2] if e2 != e1 else [])
                # --- sparsity (documented for acyclic inputs only)
                if tag == "dag" and var in (1, 3):
                    yield _case("edge", ev, None, wt, lam=0.5)
                    yield _case("edge", ev, None, wt, lam=2)
                    yield _case("edge", ev, None, wt, lam=2, eps=1)            # both stages: the (1+eps) budget is on the SAME objective (change + lambda * outflow)
                    yield _case("edge", ev, None, wt, lam=0.5, eps=0.25)
                # --- node-weighted
                if var in (0, 1, 2, 3) or tier != "quick":
                    yield _case("node", E, nv, wt)
                    if var == 0:
                        yield _case("node", E, nv, wt, edgeattr=(7 if wt == "int" else 7.5))
                    n1 = V[(ti + wi) % len(V)]
                    n2 = V[(ti + wi + 1) % len(V)]
                    if var == 0:
                        yield _case("node", E, {v: (None if v == n1 else x) for v, x in nv.items()}, wt)
                        yield _case("node", E, nv, wt, ignore=[n1])
                    if var == 1:
                        yield _case("node", E, nv, wt, scaling=[(n1, 0.5), (n2, 0)] if n1 != n2 else [(n1, 0.5)])
                        yield _case("node", E, nv, wt, eps=1)
                    if var == 2 and tag == "dag":
                        yield _case("node", E, nv, wt, starts=[n1], ends=[n2])
                        yield _case("node", E, nv, wt, starts=[n2])
                    if var == 3 and tag == "dag":
                        yield _case("node", E, nv, wt, lam=0.5)
                        yield _case("node", E, nv, wt, eps=0.25)
    # the documentation's example and two already-conserving inputs (optimum 0)
    doc = [("s", "a", 7), ("s", "b", 7), ("a", "b", 2), ("a", "c", 4), ("b", "c", 9), ("c", "d", 7), ("c", "t", 7), ("d", "t", 6)]
    for wt in ("int", "float"):
        yield _case("edge", doc, None, wt)
        yield _case("edge", doc, None, wt, eps=0.25)
        yield _case("edge", [("x", "y", 2), ("y", "z", 2)], None, wt)
        yield _case("edge", [("x", "y", 2), ("y", "y", 3), ("y", "z", 2)], None, wt, eps=1)


# ---------------------------------------------------------------------------------------------
# oracle

def _F(x):
    return Fraction(x).limit_denominator(10 ** 9)


def _spec(case):
    E = [tuple(e[:2]) for e in case["edges"]]
    G = nx.DiGraph()
    if case["kind"] == "node":
        G.add_nodes_from(case["nodes"])
    G.add_edges_from(E)
    dag = nx.is_directed_acyclic_graph(G)
    starts = set(case["starts"]) if dag else set()
    ends = set(case["ends"]) if dag else set()
    src = {v for v in G if G.in_degree(v) == 0 or v in starts}
    snk = {v for v in G if G.out_degree(v) == 0 or v in ends}
    if case["kind"] == "edge":
        val = {tuple(e[:2]): e[2] for e in case["edges"]}
        ign = {tuple(x) for x in case["ignore"]}
        scale = {tuple(k): f for k, f in case["scaling"]}
    else:
        val = dict(case["nodes"])
        ign = set(case["ignore"])
        scale = {k: f for k, f in case["scaling"]}
    counted = {k: _F(scale.get(k, 1)) for k, f in val.items() if f is not None and k not in ign and scale.get(k, 1) != 0}
    return G, E, dag, src, snk, val, counted


_ocache = {}


def l1_opt(case):
    """certified minimum of  sum_k factor_k*|val_k - x_k| + lam*(flow entering at sources/starts)  over all non-negative (integer) flows; None if uncertified"""
    key = json.dumps([case[k] for k in ("kind", "edges", "nodes", "wt", "ignore", "scaling", "starts", "ends", "lam")], sort_keys=True)
    if key in _ocache:
        return _ocache[key]
    import z3
    G, E, dag, src, snk, val, counted = _spec(case)
    T = z3.Int if case["wt"] == "int" else z3.Real
    cons = []
    xe = {e: T("e%d" % i) for i, e in enumerate(E)}
    sv = {v: T("s%d" % i) for i, v in enumerate(G) if v in src}
    tv = {v: T("t%d" % i) for i, v in enumerate(G) if v in snk}
    cons += [x >= 0 for x in list(xe.values()) + list(sv.values()) + list(tv.values())]
    zero = z3.IntVal(0)
    if case["kind"] == "edge":
        xk = xe
        for v in G:
            inn = z3.Sum([xe[e] for e in E if e[1] == v] + ([sv[v]] if v in sv else []) + [zero])
            out = z3.Sum([xe[e] for e in E if e[0] == v] + ([tv[v]] if v in tv else []) + [zero])
            cons.append(inn == out)
    else:
        xk = {v: T("n%d" % i) for i, v in enumerate(G)}
        cons += [x >= 0 for x in xk.values()]
        for v in G:
            inn = z3.Sum([xe[e] for e in E if e[1] == v] + ([sv[v]] if v in sv else []) + [zero])
            out = z3.Sum([xe[e] for e in E if e[0] == v] + ([tv[v]] if v in tv else []) + [zero])
            cons += [inn == xk[v], xk[v] == out]
    terms = [z3.RealVal(0)]
    for k, fac in counted.items():
        d = z3.RealVal(str(_F(val[k]))) - (z3.ToReal(xk[k]) if case["wt"] == "int" else xk[k])
        terms.append(z3.RealVal(str(fac)) * z3.If(d >= 0, d, -d))
    if case["lam"]:
        for v in sv:
            terms.append(z3.RealVal(str(_F(case["lam"]))) * (z3.ToReal(sv[v]) if case["wt"] == "int" else sv[v]))
    obj = z3.Sum(terms)
    # z3.Optimize is not used: it sporadically does not return on these tiny integer programs (observed: minutes inside Z3_optimize_check).
    # Bisection with plain satisfiability queries, then the certifying query `objective < v` must be unsat.
    res = None
    s = z3.Solver()
    s.set("timeout", 5000)
    s.add(*cons)

    def query(bound, strict):
        s.push()
        s.add(obj < z3.RealVal(str(bound)) if strict else obj <= z3.RealVal(str(bound)))
        r = s.check()
        v = _val(s.model().eval(obj, model_completion=True)) if r == z3.sat else None
        s.pop()
        return r, v
    if s.check() == z3.sat:
        hi = _val(s.model().eval(obj, model_completion=True))      # some solution attains hi
        lo = Fraction(0)                                           # no solution has objective < lo
        for _ in range(60):
            if hi - lo <= Fraction(1, 16):
                break
            mid = (lo + hi) / 2
            r, v = query(mid, True)
            if r == z3.sat:
                hi = v
            elif r == z3.unsat:
                lo = mid
            else:
                break
        # candidate optima: the grid points (all data are multiples of 1/2, scale factors of 1/2) in [lo, hi] and hi itself;
        # a candidate c is accepted only with both certificates: `objective <= c` sat and `objective < c` unsat
        g = Fraction(1, 8)
        cands = sorted({g * k for k in range(int(lo / g), int(hi / g) + 2) if lo <= g * k <= hi} | {hi})
        for c in cands:
            r1, _v = query(c, False)
            if r1 != z3.sat:
                continue
            r2, _v = query(c, True)
            if r2 == z3.unsat:
                res = c
            break
    _ocache[key] = res
    return res


def _val(v):
    s = str(v)
    if "/" in s:
        a, b = s.split("/")
        return Fraction(int(a), int(b))
    return Fraction(s)


def _node_flow_exists(G, E, src, snk, xv, exempt_free, tol):
    """node-weighted flow test: do edge values y>=0 (and values >=0 for nodes without one) exist with  in(v)+src == x_v == out(v)+snk  up to tol?"""
    import z3
    s = z3.Solver()
    s.set("timeout", 5000)
    ye = {e: z3.Real("y%d" % i) for i, e in enumerate(E)}
    extra = {}
    for i, v in enumerate(G):
        if v in src:
            extra[("s", v)] = z3.Real("s%d" % i)
        if v in snk:
            extra[("t", v)] = z3.Real("t%d" % i)
    for x in list(ye.values()) + list(extra.values()):
        s.add(x >= 0)
    for i, v in enumerate(G):
        if xv.get(v) is None:
            x = z3.Real("n%d" % i)
            s.add(x >= 0)
            t = 0
        else:
            x = z3.RealVal(str(_F(xv[v])))
            t = tol * (1 + abs(xv[v]))
        tt = z3.RealVal(str(_F(t)))
        inn = z3.Sum([ye[e] for e in E if e[1] == v] + ([extra[("s", v)]] if ("s", v) in extra else []) + [z3.RealVal(0)])
        out = z3.Sum([ye[e] for e in E if e[0] == v] + ([extra[("t", v)]] if ("t", v) in extra else []) + [z3.RealVal(0)])
        if v in exempt_free:
            continue
        s.add(inn - x <= tt, x - inn <= tt, out - x <= tt, x - out <= tt)
    r = s.check()
    return None if r == z3.unknown else r == z3.sat


# ---------------------------------------------------------------------------------------------
# check

def _fail(fp_, what, **detail):
    return dict(ok=False, nontrivial=True, fingerprint=fp_, what=what, detail=detail)


def check(case):
    import flowpaths as fp
    wt = int if case["wt"] == "int" else float
    kind = case["kind"]
    G, E, dag, src, snk, val, counted = _spec(case)
    inp = nx.DiGraph()
    inp.graph["id"] = "g"
    if kind == "edge":
        for u, v, f in case["edges"]:
            if f is None:
                inp.add_edge(u, v)
            else:
                inp.add_edge(u, v, **{ATTR: f})
        ignore = [tuple(x) for x in case["ignore"]]
        scaling = {tuple(k): f for k, f in case["scaling"]}
    else:
        for v, f in case["nodes"].items():
            if f is None:
                inp.add_node(v)
            else:
                inp.add_node(v, **{ATTR: f})
        inp.add_edges_from(E)
        if case.get("edgeattr") is not None:
            for (u, v) in E:
                inp[u][v][ATTR] = case["edgeattr"]
        ignore = list(case["ignore"])
        scaling = {k: f for k, f in case["scaling"]}
    desc = "%s-weighted %s %s values=%s ignore=%s scaling=%s starts=%s ends=%s lambda=%s eps=%s" % (
        kind, "DAG" if dag else "cyclic", case["wt"], case["edges"] if kind == "edge" else (E, case["nodes"]), case["ignore"], case["scaling"],
        case["starts"], case["ends"], case["lam"], case["eps"]) + (" edges-carry-%s=%s" % (ATTR, case["edgeattr"]) if case.get("edgeattr") is not None else "")
    kw = dict(flow_attr=ATTR, flow_attr_origin=kind, weight_type=wt, sparsity_lambda=case["lam"], few_flow_values_epsilon=case["eps"],
              elements_to_ignore=ignore, error_scaling=scaling)
    if case["starts"] or case["ends"]:
        kw.update(additional_starts=list(case["starts"]), additional_ends=list(case["ends"]))
    try:
        m = fp.MinErrorFlow(inp, **kw)
        ok = m.solve()
        if not ok or not m.is_solved():
            # decidable attribution: HiGHS' MIP presolve sometimes reports kInfeasible on a feasible few-values model
            # (the same model is kOptimal with presolve off, and z3 finds the captured MILP satisfiable): a solver defect, not the library's
            suffix = ""
            try:
                m2 = fp.MinErrorFlow(inp.copy(), **dict(kw, solver_options={"presolve": "off"}))
                if m2.solve() and m2.is_solved() and m.solver.get_model_status() == "kInfeasible":
                    suffix = " [HiGHS presolve reports kInfeasible; solved with presolve off]"
            except Exception:
                pass
            return _fail("MinErrorFlow unsolved on a valid weighted digraph" + suffix, "solve() = %s, is_solved() = %s on %s" % (ok, m.is_solved(), desc))
        sol = m.get_solution()
        H = sol["graph"]
    except Exception as e:
        return _fail("MinErrorFlow raises on a valid weighted digraph" + (" (node-weighted, few-values stage)" if kind == "node" and case["eps"] else ""),
                     "%s: %s on %s" % (type(e).__name__, e, desc))
    if m.get_corrected_graph() is not H and not nx.utils.graphs_equal(m.get_corrected_graph(), H):
        return _fail("get_corrected_graph differs from get_solution()['graph']", desc)
    # ---- same graph
    if set(H.nodes()) != set(G.nodes()) or set(H.edges()) != set(G.edges()):
        return _fail("corrected graph has different nodes or edges", "nodes %s edges %s on %s" % (sorted(H.nodes()), sorted(H.edges()), desc))
    if kind == "edge":
        got = {e: H.edges[e].get(ATTR) for e in E}
    else:
        got = {v: H.nodes[v].get(ATTR) for v in G}
    for k, f in val.items():
        if f is not None and got[k] is None:
            return _fail("a weighted element lost its value in the corrected graph", "%s on %s" % (k, desc))
    # ---- non-negative, of the weight type
    for k, x in got.items():
        if x is None:
            continue
        if wt is int and (isinstance(x, bool) or not isinstance(x, int)):
            return _fail("corrected value is not an integer under weight_type=int", "%s -> %r on %s" % (k, x, desc), got=str(got))
        if x < (0 if wt is int else -TOL):
            return _fail("corrected value is negative", "%s -> %r on %s" % (k, x, desc), got=str(got))
    # ---- conservation at the non-exempt inner nodes
    exempt = (set(case["starts"]) | set(case["ends"])) if dag else set()
    if kind == "edge":
        for v in G:
            if G.in_degree(v) == 0 or G.out_degree(v) == 0 or v in exempt:
                continue
            ie = [got[e] for e in E if e[1] == v]
            oe = [got[e] for e in E if e[0] == v]
            if any(x is None for x in ie + oe):
                continue          # an ignored edge without the attribute: its corrected value is not reported
            a, b = sum(ie), sum(oe)
            if (a != b) if wt is int else abs(a - b) > TOL * (1 + abs(a)):
                return _fail("corrected values violate flow conservation at an inner node", "node %s: in %s out %s; %s" % (v, a, b, desc), got=str(got))
    else:
        tol = 0 if wt is int else TOL
        ex = _node_flow_exists(G, E, {v for v in G if G.in_degree(v) == 0}, {v for v in G if G.out_degree(v) == 0}, got, exempt, tol)
        if ex is None:
            return dict(ok=None, nontrivial=False, what="node-flow existence query undecided on " + desc)
        if not ex:
            return _fail("corrected node values are not a node-weighted flow", "values %s; %s" % (got, desc), got=str(got))
    # ---- recomputed change
    S = sum((fac * abs(_F(val[k]) - _F(got[k])) for k, fac in counted.items()), Fraction(0))
    U = sum((abs(_F(val[k]) - _F(got[k])) for k in counted), Fraction(0))
    opt = l1_opt(case)
    if opt is None:
        return dict(ok=None, nontrivial=False, what="oracle optimum not certified on " + desc)
    eps, lam = case["eps"], case["lam"]

    def near(a, b):
        return abs(float(a) - float(b)) <= TOL * (1 + abs(float(b)))
    # the clauses on reported numbers are evaluated last, so that they never mask an optimality / budget violation
    late = None
    if not near(sol["error"], U):
        late = _fail("reported error differs from the recomputed absolute change" + (" (few-values stage)" if eps else ""),
                     "reported %r recomputed %s; %s; corrected %s" % (sol["error"], float(U), desc, got))
    elif m.get_objective_value() != sol["error"]:
        late = _fail("get_objective_value differs from the reported error", desc)
    if lam:
        # flow entering at the sources = what leaves them (no node is both start and end in these cases)
        if kind == "edge":
            inflow = sum((sum(_F(got[e]) for e in E if e[0] == v) - sum(_F(got[e]) for e in E if e[1] == v) for v in src), Fraction(0))
        else:
            inflow = None
        if eps is None and inflow is not None and not near(sol["objective_value"], S + _F(lam) * inflow):
            return _fail("reported objective differs from scaled change + lambda * source outflow",
                         "reported %r recomputed %s; %s" % (sol["objective_value"], float(S + _F(lam) * inflow), desc))
        if eps is None and not near(sol["objective_value"], opt):
            return _fail("sparsity objective is not the minimum of scaled change + lambda * source outflow",
                         "reported %r oracle %s; %s; corrected %s" % (sol["objective_value"], float(opt), desc, got))
        if eps is not None and inflow is not None and float(S + _F(lam) * inflow) > (1 + eps) * float(opt) + TOL * (1 + float(opt)):
            return _fail("few-values result exceeds (1+eps) times the optimum of scaled change + lambda * source outflow",
                         "objective of the result %s, oracle optimum %s; %s; corrected %s" % (float(S + _F(lam) * inflow), float(opt), desc, got), opt=str(opt))
        return late or dict(ok=True, nontrivial=opt > 0, detail=dict(opt=str(opt), S=str(S)))
    if eps is None:
        if float(S) > float(opt) + TOL * (1 + float(opt)):
            return _fail("corrected flow is not a closest flow", "change %s, oracle optimum %s; %s; corrected %s" % (float(S), float(opt), desc, got), opt=str(opt))
        if late is None and not near(sol["objective_value"], S):
            late = _fail("reported objective differs from the recomputed scaled change", "reported %r recomputed %s; %s" % (sol["objective_value"], float(S), desc))
    else:
        if float(S) > (1 + eps) * float(opt) + TOL * (1 + float(opt)):
            return _fail("few-values result exceeds (1+eps) times the optimum", "change %s, oracle optimum %s; %s; corrected %s" % (float(S), float(opt), desc, got), opt=str(opt))
    if float(S) < float(opt) - TOL * (1 + float(opt)):
        # a feasible flow cannot beat a certified optimum: the result breaks a clause of the documented model the harness did not test (or the harness is wrong)
        return dict(ok=None, nontrivial=False, what="result beats the certified optimum (%s < %s) - harness/oracle to be inspected: %s" % (float(S), float(opt), desc))
    return late or dict(ok=True, nontrivial=opt > 0, detail=dict(opt=str(opt), S=str(S), distinct=len(set(x for x in got.values() if x is not None))))


def run(tier="quick", seed=0, chunk=0, nchunks=1):
    from vf.bounded import run_cases
    return run_cases(cases(tier), check, chunk, nchunks, engine="rc",
                     rule="DAGs on <=4 nodes (quick: all n<=3, every 2nd n=4; thorough: all n<=4 + sampled n=5) and cyclic digraphs with self-loops on <=3 nodes "
                          "(all n<=2, sampled n=3; thorough adds sampled n=4), no source/sink required; 2 (thorough 4) pseudo-random weightings from {0,1,2,3,5} "
                          "(x0.5 for float) per topology x both weight types; per topology a rotating subset of: ignore lists of size 1-2 (one ignored edge without "
                          "attribute), error scaling {0,0.5,1}, one additional start/end (DAG), eps in {0.25,1}, lambda in {0.5,2} (DAG), node-weighted variants "
                          "(missing attribute, ignore, scaling, starts/ends, eps, lambda); oracle = z3 bisection certified by `objective < v` unsat; "
                          "non-trivial = certified optimum > 0 (the input is not already a flow)",
                     bounds="n<=4 DAG / n<=3 cyclic (quick), values<=5, |ignore|<=2")
