"""C13 bounded cross-validation (fault enumeration on the real API, real HiGHS): every invocation index of the solver x every
inconclusive status is injected; the executable contract
   solve() False  =>  is_solved() False and get_solution()/get_objective_value() raise
   solve() True   =>  same optimum as the fault-free run (an inconclusive run may only make the search give up, never skip a k)
is evaluated.  It validates the sub-model contracts assumed by the PyVC proofs and is the replay vehicle for status sequences."""
import contextlib
import networkx as nx

STATUSES = ("kTimeLimit", "kIterationLimit", "kUnknown", "kSolutionLimit")


@contextlib.contextmanager
def inject(at_index, status):
    """the `at_index`-th call of SolverWrapper.optimize() (0-based, counted globally) reports `status` instead of the real one"""
    import flowpaths.utils.solverwrapper as sw
    state = dict(n=0, hit=None)
    real_opt, real_status = sw.SolverWrapper.optimize, sw.SolverWrapper.get_model_status

    def optimize(self):
        idx = state["n"]
        state["n"] += 1
        real_opt(self)
        if idx == at_index:
            self._verif_injected = status
            state["hit"] = idx

    def get_model_status(self, raw=False):
        inj = getattr(self, "_verif_injected", None)
        if inj is not None:
            return inj
        return real_status(self, raw)
    sw.SolverWrapper.optimize, sw.SolverWrapper.get_model_status = optimize, get_model_status
    try:
        yield state
    finally:
        sw.SolverWrapper.optimize, sw.SolverWrapper.get_model_status = real_opt, real_status


@contextlib.contextmanager
def inject_alarm(at_index):
    """every SolverWrapper is created with the documented extra timeout switched on (use_also_custom_timeout, time_limit 600 s); during the
    `at_index`-th optimize() (0-based, counted globally) the SIGALRM of that extra timeout is delivered right after HiGHS returns, while the
    wrapper is still inside its timed section - exactly what a solver that overruns its limit produces.  state['status'] is what THAT wrapper reports."""
    import os
    import signal
    import flowpaths.utils.solverwrapper as sw
    state = dict(n=0, hit=None, status=None)
    real_init, real_opt = sw.SolverWrapper.__init__, sw.SolverWrapper.optimize

    def init(self, *a, **kw):
        kw = dict(kw, use_also_custom_timeout=True)
        if kw.get("time_limit", float("inf")) == float("inf"):
            kw["time_limit"] = 600
        real_init(self, *a, **kw)

    def optimize(self):
        idx = state["n"]
        state["n"] += 1
        if idx == at_index and getattr(self, "external_solver", "highs") == "highs":
            run = self.solver.optimize

            def late():
                r = run()
                os.kill(os.getpid(), signal.SIGALRM)       # the alarm of the extra timeout fires before the timed section is left
                for _ in range(3):
                    pass                                    # give the interpreter a bytecode boundary to run the handler
                return r
            self.solver.optimize = late
            try:
                real_opt(self)
            finally:
                try:
                    del self.solver.optimize
                except AttributeError:
                    self.solver.optimize = run
            state["hit"] = idx
            state["status"] = self.get_model_status()
        else:
            real_opt(self)
    # whatever handler the process had is replaced by a no-op for the duration and afterwards (never SIG_DFL: an alarm delivered
    # to a process without a handler would terminate the checker's worker)
    noop = lambda signum, frame: None
    signal.signal(signal.SIGALRM, noop)
    sw.SolverWrapper.__init__, sw.SolverWrapper.optimize = init, optimize
    try:
        yield state
    finally:
        sw.SolverWrapper.__init__, sw.SolverWrapper.optimize = real_init, real_opt
        signal.alarm(0)
        signal.signal(signal.SIGALRM, noop)


def _g(edges, attr="flow"):
    G = nx.DiGraph()
    G.graph["id"] = "fault"
    for u, v, f in edges:
        G.add_edge(u, v, **{attr: f})
    return G


def instances():
    import flowpaths as fp
    # DAG with minimum flow decomposition 3 (paths xa..), width 2
    dag = [("s", "a", 6), ("s", "b", 7), ("a", "b", 2), ("a", "t", 4), ("b", "t", 9)]
    dag2 = [("x", "y", 3), ("x", "z", 5), ("y", "w", 3), ("z", "w", 5), ("y", "z", 0 + 2), ("x", "w", 1)]
    dag2 = [("x", "y", 5), ("x", "z", 5), ("y", "w", 3), ("z", "w", 7), ("y", "z", 2), ("x", "w", 1)]
    cyc = [("x", "y", 4), ("y", "z", 6), ("z", "y", 2), ("z", "w", 4), ("x", "w", 3)]
    nog = {"optimize_with_greedy": False}
    # two diamonds in series: width 2, minimum flow decomposition 3 (so k = 2 is tried and proven infeasible first)
    dd = [("s", "a", 5), ("s", "b", 5), ("a", "m", 5), ("b", "m", 5), ("m", "c", 3), ("m", "d", 7), ("c", "t", 3), ("d", "t", 7)]
    ddc = dd + [("c", "m", 0)]
    ddc = [("s", "a", 5), ("s", "b", 5), ("a", "m", 5), ("b", "m", 5), ("m", "c", 4), ("m", "d", 7), ("c", "t", 3), ("d", "t", 7), ("c", "m", 1)]
    out = []
    out.append(("MinFlowDecomp/two-diamonds", lambda: fp.MinFlowDecomp(_g(dd), flow_attr="flow", optimization_options=dict(nog)), "paths"))
    out.append(("MinFlowDecomp/two-diamonds+mingenset", lambda: fp.MinFlowDecomp(_g(dd), flow_attr="flow", optimization_options=dict(nog, use_min_gen_set_lowerbound=True)), "paths"))
    out.append(("MinFlowDecompCycles/two-diamonds+cycle", lambda: fp.MinFlowDecompCycles(_g(ddc), flow_attr="flow"), "walks"))
    out.append(("MinPathCover/two-diamonds+subpaths", lambda: fp.MinPathCover(_g(dd), subpath_constraints=[[("a", "m"), ("m", "c")], [("a", "m"), ("m", "d")], [("b", "m"), ("m", "c")]]), "paths"))
    out.append(("MinFlowDecomp/dag", lambda: fp.MinFlowDecomp(_g(dag), flow_attr="flow", optimization_options=dict(nog)), "paths"))
    out.append(("MinFlowDecomp/dag2+mingenset", lambda: fp.MinFlowDecomp(_g(dag2), flow_attr="flow", optimization_options=dict(nog, use_min_gen_set_lowerbound=True)), "paths"))
    out.append(("MinFlowDecomp/dag2+guessed-weights", lambda: fp.MinFlowDecomp(_g(dag2), flow_attr="flow", optimization_options=dict(nog, optimize_with_guessed_weights=True, use_min_gen_set_lowerbound=True)), "paths"))
    out.append(("MinFlowDecompCycles/cyc", lambda: fp.MinFlowDecompCycles(_g(cyc), flow_attr="flow"), "walks"))
    out.append(("MinPathCover/dag2", lambda: fp.MinPathCover(_g(dag2)), "paths"))
    out.append(("MinPathCoverCycles/cyc", lambda: fp.MinPathCoverCycles(_g(cyc)), "walks"))
    out.append(("MinGenSet/[3,5,8,13]", lambda: fp.MinGenSet(numbers=[3, 5, 8, 13, 16], total=21, weight_type=int, lowerbound=1, remove_complement_values=False), None))
    out.append(("kFlowDecomp/dag,k=3", lambda: fp.kFlowDecomp(_g(dag), flow_attr="flow", k=3, optimization_options=dict(nog)), "paths"))
    out.append(("kMinPathError/dag,k=2", lambda: fp.kMinPathError(_g(dag), flow_attr="flow", k=3), "paths"))
    out.append(("kLeastAbsErrorsCycles/cyc,k=2", lambda: fp.kLeastAbsErrorsCycles(_g(cyc), flow_attr="flow", k=2), "walks"))
    out.append(("MinErrorFlow/dag", lambda: fp.MinErrorFlow(_g(dag), flow_attr="flow"), None))
    out.append(("MinErrorFlow/dag,epsilon", lambda: fp.MinErrorFlow(_g([("s", "a", 6), ("s", "b", 7), ("a", "b", 2), ("a", "t", 5), ("b", "t", 7)]), flow_attr="flow", few_flow_values_epsilon=0.5), None))
    out.append(("NumPathsOptimization(kMinPathError)", lambda: fp.NumPathsOptimization(model_type=fp.kMinPathError, stop_on_first_feasible=True, G=_g(dag), flow_attr="flow"), "paths"))
    out.append(("MinSetCover", lambda: fp.MinSetCover(universe=[1, 2, 3, 4], subsets=[[1, 2], [2, 3], [3, 4], [1, 4], [1, 2, 3]], subset_weights=[1, 1, 1, 1, 2]), None))
    return out


def _size(model, key):
    sol = model.get_solution()
    if key and isinstance(sol, dict) and key in sol:
        return ("n", len(sol[key]))
    if isinstance(sol, list):
        return ("n", len(sol))
    if isinstance(sol, dict) and "error" in sol:
        return ("err", round(float(sol["error"]), 6))
    try:
        return ("obj", round(float(model.get_objective_value()), 6))
    except Exception:
        return ("sol", None)


def _objective(model, key):
    try:
        return round(float(model.get_objective_value()), 6)
    except Exception:
        return None


def run(tier="quick", only=None):
    evaluations, nontrivial, failures, samples, undecided = 0, 0, [], [], []
    calls, base_of = {}, {}
    statuses = STATUSES if tier == "thorough" else STATUSES[:2] + ("kUnknown",)
    for name, mk, key in instances():
        if only and only not in name:
            continue
        try:
            with inject(-1, None) as st0:
                m0 = mk()
                ok0 = m0.solve()
                n_calls = st0["n"]
            base = (_size(m0, key), _objective(m0, key)) if ok0 else None
            calls[name] = n_calls
            base_of[name] = base
        except SystemExit as e:
            failures.append(dict(fingerprint="%s terminates the process" % name.split("/")[0],
                                 what="%s: solve() called exit(%s) in the fault-free run" % (name, e), replay=dict(instance=name, inject_at=None)))
            continue
        except Exception as e:
            undecided.append(dict(case=name, reason="fault-free run raised %s: %s" % (type(e).__name__, e)))
            continue
        if not ok0:
            undecided.append(dict(case=name, reason="fault-free run is not solved; instance skipped"))
            continue
        for t in range(n_calls):
            for status in statuses:
                evaluations += 1
                case = dict(instance=name, inject_at=t, status=status, fault_free=base, solver_calls=n_calls)
                try:
                    with inject(t, status) as st:
                        m = mk()
                        ok = m.solve()
                except BaseException as e:     # SystemExit included (exit(0) in library code)
                    failures.append(dict(fingerprint="%s raised %s on injected %s" % (name.split("/")[0], type(e).__name__, status),
                                         what="%s: solve() raised %s(%s) when solver call #%d reported %s" % (name, type(e).__name__, e, t, status), replay=case))
                    continue
                nontrivial += 1
                if len(samples) < 5:
                    samples.append(dict(case, solved=bool(ok)))
                if ok and name.startswith("NumPathsOptimization"):
                    # this class may move on to a larger k; what it returns must itself be a solved model
                    inner = getattr(m, "model", None)
                    if inner is None or not inner.is_solved() or inner.solver.get_model_status() != "kOptimal":
                        failures.append(dict(fingerprint="NumPathsOptimization returned a model that is not proven optimal",
                                             what="%s: solver call #%d reported %s; returned model status %s" % (name, t, status, inner and inner.solver.get_model_status()), replay=case))
                elif ok:
                    got = (_size(m, key), _objective(m, key))
                    if got != base:
                        failures.append(dict(fingerprint="%s non-minimal answer after inconclusive run" % name.split("/")[0],
                                             what="%s: solver call #%d reported %s, solve() still returned True with %s instead of %s (an inconclusive k was skipped)" % (name, t, status, got, base),
                                             replay=case))
                else:
                    bad = []
                    try:
                        if m.is_solved():
                            bad.append("is_solved() is True")
                    except Exception:
                        pass
                    for g in ("get_solution", "get_objective_value"):
                        if hasattr(m, g):
                            try:
                                getattr(m, g)()
                                bad.append("%s() returned data" % g)
                            except Exception:
                                pass
                    if bad:
                        failures.append(dict(fingerprint="%s unsolved model returns data" % name.split("/")[0],
                                             what="%s: solver call #%d reported %s, solve() False but %s" % (name, t, status, "; ".join(bad)), replay=case))
                    # the caller tries again on the same object, this time without any fault: the answer must be the fault-free one
                    # (state kept from the inconclusive attempt - a raised lower bound, a stale solution - must not leak into it)
                    if status == statuses[0] and not name.startswith(("NumPathsOptimization", "MinErrorFlow", "MinSetCover")):
                        try:
                            ok2 = m.solve()
                            got2 = (_size(m, key), _objective(m, key)) if ok2 else None
                        except BaseException as e:
                            failures.append(dict(fingerprint="%s raised %s when solve() was called again after an inconclusive attempt" % (name.split("/")[0], type(e).__name__),
                                                 what="%s: first attempt had solver call #%d report %s; second solve() raised %s(%s)" % (name, t, status, type(e).__name__, e), replay=case))
                            continue
                        if ok2 and got2 != base:
                            failures.append(dict(fingerprint="%s: a second solve() after an inconclusive attempt returns a different answer than a fresh model" % name.split("/")[0],
                                                 what="%s: first attempt had solver call #%d report %s (solve() False); second solve() on the same object gives %s, a fresh model %s" % (name, t, status, got2, base),
                                                 replay=case))
    # ---- the wrapper's own extra timeout (SIGALRM) fires during the t-th solver run: that run must be reported as timed out by ITS wrapper
    #      (whatever other wrappers exist or existed in the process), and the search must not return an answer built on it
    alarm_instances = [x for x in instances() if x[0].split("/")[0] in ("MinFlowDecomp", "MinPathCover", "MinFlowDecompCycles", "MinGenSet", "kFlowDecomp")]
    if tier != "thorough":
        alarm_instances = alarm_instances[:1] + [x for x in alarm_instances[1:] if x[0] in ("MinPathCover/dag2", "MinFlowDecompCycles/cyc", "MinGenSet/[3,5,8,13]", "kFlowDecomp/dag,k=3")]
    for name, mk, key in alarm_instances:
        if only and only not in name:
            continue
        if name not in calls:
            continue
        for t in range(calls[name]):
            evaluations += 1
            case = dict(instance=name, alarm_during_call=t, solver_calls=calls[name])
            try:
                with inject_alarm(t) as st:
                    m = mk()
                    ok = m.solve()
            except BaseException as e:
                failures.append(dict(fingerprint="%s raised %s when the extra timeout fired" % (name.split("/")[0], type(e).__name__),
                                     what="%s: solve() raised %s(%s) when the alarm fired during solver call #%d" % (name, type(e).__name__, e, t), replay=case))
                continue
            if st["hit"] is None:
                continue                       # fewer solver calls with the extra timeout on (nothing injected)
            nontrivial += 1
            if st["status"] != "kTimeLimit":
                failures.append(dict(fingerprint="the extra timeout fired during a solver run but that run's wrapper does not report kTimeLimit",
                                     what="%s: alarm during solver call #%d; the wrapper of that call reports %s (solve() = %s)" % (name, t, st["status"], ok), replay=case))
            elif ok and not name.startswith("NumPathsOptimization"):
                got = (_size(m, key), _objective(m, key))
                if got != base_of.get(name):
                    failures.append(dict(fingerprint="%s non-minimal answer after a run cut short by the extra timeout" % name.split("/")[0],
                                         what="%s: alarm during solver call #%d, solve() still returned True with %s instead of %s" % (name, t, got, base_of.get(name)), replay=case))
    return dict(engine="rc.fault_enumeration", evaluations=evaluations, distinct_nontrivial=nontrivial, failures=failures, samples=samples, undecided=undecided,
                rule="every (instance, solver invocation index, injected status) triple; non-trivial = the injected run completed without crashing the harness",
                solver_calls_per_instance=calls, bounds="18 small instances x all invocation indexes x %d statuses" % len(statuses), exhaustive=True,
                assumptions=["fault model: the status reported by SolverWrapper.get_model_status after the t-th optimize() is replaced; HiGHS itself runs normally"])
