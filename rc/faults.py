"""C13 bounded cross-validation (fault enumeration on the real API, real HiGHS): every invocation index of the solver x every
inconclusive status is injected; the executable contract
   solve() False  =>  is_solved() False and get_solution()/get_objective_value() raise
   solve() True   =>  same optimum as the fault-free run (an inconclusive run may only make the search give up, never skip a k)
is evaluated.  It validates the sub-model contracts assumed by the PyVC proofs and is the replay vehicle for status sequences."""
import contextlib
import networkx as nx

STATUSES = ("kTimeLimit", "kIterationLimit", "kUnknown", "kSolutionLimit")


@contextlib.contextmanager
def inject(at_index, status):
    """the `at_index`-th call of SolverWrapper.optimize() (0-based, counted globally) reports `status` instead of the real one"""
    import flowpaths.utils.solverwrapper as sw
    state = dict(n=0, hit=None)
    real_opt, real_status = sw.SolverWrapper.optimize, sw.SolverWrapper.get_model_status

    def optimize(self):
        idx = state["n"]
        state["n"] += 1
        real_opt(self)
        if idx == at_index:
            self._verif_injected = status
            state["hit"] = idx

    def get_model_status(self, raw=False):
        inj = getattr(self, "_verif_injected", None)
        if inj is not None:
            return inj
        return real_status(self, raw)
    sw.SolverWrapper.optimize, sw.SolverWrapper.get_model_status = optimize, get_model_status
    try:
        yield state
    finally:
        sw.SolverWrapper.optimize, sw.SolverWrapper.get_model_status = real_opt, real_status


def _g(edges, attr="flow"):
    G = nx.DiGraph()
    G.graph["id"] = "fault"
    for u, v, f in edges:
        G.add_edge(u, v, **{attr: f})
    return G


def instances():
    import flowpaths as fp
    # DAG with minimum flow decomposition 3 (paths xa..), width 2
    dag = [("s", "a", 6), ("s", "b", 7), ("a", "b", 2), ("a", "t", 4), ("b", "t", 9)]
    dag2 = [("x", "y", 3), ("x", "z", 5), ("y", "w", 3), ("z", "w", 5), ("y", "z", 0 + 2), ("x", "w", 1)]
    dag2 = [("x", "y", 5), ("x", "z", 5), ("y", "w", 3), ("z", "w", 7), ("y", "z", 2), ("x", "w", 1)]
    cyc = [("x", "y", 4), ("y", "z", 6), ("z", "y", 2), ("z", "w", 4), ("x", "w", 3)]
    nog = {"optimize_with_greedy": False}
    # two diamonds in series: width 2, minimum flow decomposition 3 (so k = 2 is tried and proven infeasible first)
    dd = [("s", "a", 5), ("s", "b", 5), ("a", "m", 5), ("b", "m", 5), ("m", "c", 3), ("m", "d", 7), ("c", "t", 3), ("d", "t", 7)]
    ddc = dd + [("c", "m", 0)]
    ddc = [("s", "a", 5), ("s", "b", 5), ("a", "m", 5), ("b", "m", 5), ("m", "c", 4), ("m", "d", 7), ("c", "t", 3), ("d", "t", 7), ("c", "m", 1)]
    out = []
    out.append(("MinFlowDecomp/two-diamonds", lambda: fp.MinFlowDecomp(_g(dd), flow_attr="flow", optimization_options=dict(nog)), "paths"))
    out.append(("MinFlowDecomp/two-diamonds+mingenset", lambda: fp.MinFlowDecomp(_g(dd), flow_attr="flow", optimization_options=dict(nog, use_min_gen_set_lowerbound=True)), "paths"))
    out.append(("MinFlowDecompCycles/two-diamonds+cycle", lambda: fp.MinFlowDecompCycles(_g(ddc), flow_attr="flow"), "walks"))
    out.append(("MinPathCover/two-diamonds+subpaths", lambda: fp.MinPathCover(_g(dd), subpath_constraints=[[("a", "m"), ("m", "c")], [("a", "m"), ("m", "d")], [("b", "m"), ("m", "c")]]), "paths"))
    out.append(("MinFlowDecomp/dag", lambda: fp.MinFlowDecomp(_g(dag), flow_attr="flow", optimization_options=dict(nog)), "paths"))
    out.append(("MinFlowDecomp/dag2+mingenset", lambda: fp.MinFlowDecomp(_g(dag2), flow_attr="flow", optimization_options=dict(nog, use_min_gen_set_lowerbound=True)), "paths"))
    out.append(("MinFlowDecomp/dag2+guessed-weights", lambda: fp.MinFlowDecomp(_g(dag2), flow_attr="flow", optimization_options=dict(nog, optimize_with_guessed_weights=True, use_min_gen_set_lowerbound=True)), "paths"))
    out.append(("MinFlowDecompCycles/cyc", lambda: fp.MinFlowDecompCycles(_g(cyc), flow_attr="flow"), "walks"))
    out.append(("MinPathCover/dag2", lambda: fp.MinPathCover(_g(dag2)), "paths"))
    out.append(("MinPathCoverCycles/cyc", lambda: fp.MinPathCoverCycles(_g(cyc)), "walks"))
    out.append(("MinGenSet/[3,5,8,13]", lambda: fp.MinGenSet(numbers=[3, 5, 8, 13, 16], total=21, weight_type=int, lowerbound=1, remove_complement_values=False), None))
    out.append(("kFlowDecomp/dag,k=3", lambda: fp.kFlowDecomp(_g(dag), flow_attr="flow", k=3, optimization_options=dict(nog)), "paths"))
    out.append(("kMinPathError/dag,k=2", lambda: fp.kMinPathError(_g(dag), flow_attr="flow", k=3), "paths"))
    out.append(("kLeastAbsErrorsCycles/cyc,k=2", lambda: fp.kLeastAbsErrorsCycles(_g(cyc), flow_attr="flow", k=2), "walks"))
    out.append(("MinErrorFlow/dag", lambda: fp.MinErrorFlow(_g(dag), flow_attr="flow"), None))
    out.append(("MinErrorFlow/dag,epsilon", lambda: fp.MinErrorFlow(_g([("s", "a", 6), ("s", "b", 7), ("a", "b", 2), ("a", "t", 5), ("b", "t", 7)]), flow_attr="flow", few_flow_values_epsilon=0.5), None))
    out.append(("NumPathsOptimization(kMinPathError)", lambda: fp.NumPathsOptimization(model_type=fp.kMinPathError, stop_on_first_feasible=True, G=_g(dag), flow_attr="flow"), "paths"))
    out.append(("MinSetCover", lambda: fp.MinSetCover(universe=[1, 2, 3, 4], subsets=[[1, 2], [2, 3], [3, 4], [1, 4], [1, 2, 3]], subset_weights=[1, 1, 1, 1, 2]), None))
    return out


def _size(model, key):
    sol = model.get_solution()
    if key and isinstance(sol, dict) and key in sol:
        return ("n", len(sol[key]))
    if isinstance(sol, list):
        return ("n", len(sol))
    if isinstance(sol, dict) and "error" in sol:
        return ("err", round(float(sol["error"]), 6))
    try:
        return ("obj", round(float(model.get_objective_value()), 6))
    except Exception:
        return ("sol", None)


def _objective(model, key):
    try:
        return round(float(model.get_objective_value()), 6)
    except Exception:
        return None


def run(tier="quick", only=None):
    evaluations, nontrivial, failures, samples, undecided = 0, 0, [], [], []
    calls = {}
    statuses = STATUSES if tier == "thorough" else STATUSES[:2] + ("kUnknown",)
    for name, mk, key in instances():
        if only and only not in name:
            continue
        try:
            with inject(-1, None) as st0:
                m0 = mk()
                ok0 = m0.solve()
                n_calls = st0["n"]
            base = (_size(m0, key), _objective(m0, key)) if ok0 else None
            calls[name] = n_calls
        except SystemExit as e:
            failures.append(dict(fingerprint="%s terminates the process" % name.split("/")[0],
                                 what="%s: solve() called exit(%s) in the fault-free run" % (name, e), replay=dict(instance=name, inject_at=None)))
            continue
        except Exception as e:
            undecided.append(dict(case=name, reason="fault-free run raised %s: %s" % (type(e).__name__, e)))
            continue
        if not ok0:
            undecided.append(dict(case=name, reason="fault-free run is not solved; instance skipped"))
            continue
        for t in range(n_calls):
            for status in statuses:
                evaluations += 1
                case = dict(instance=name, inject_at=t, status=status, fault_free=base, solver_calls=n_calls)
                try:
                    with inject(t, status) as st:
                        m = mk()
                        ok = m.solve()
                except BaseException as e:     # SystemExit included (exit(0) in library code)
                    failures.append(dict(fingerprint="%s raised %s on injected %s" % (name.split("/")[0], type(e).__name__, status),
                                         what="%s: solve() raised %s(%s) when solver call #%d reported %s" % (name, type(e).__name__, e, t, status), replay=case))
                    continue
                nontrivial += 1
                if len(samples) < 5:
                    samples.append(dict(case, solved=bool(ok)))
                if ok and name.startswith("NumPathsOptimization"):
                    # this class may move on to a larger k; what it returns must itself be a solved model
                    inner = getattr(m, "model", None)
                    if inner is None or not inner.is_solved() or inner.solver.get_model_status() != "kOptimal":
                        failures.append(dict(fingerprint="NumPathsOptimization returned a model that is not proven optimal",
                                             what="%s: solver call #%d reported %s; returned model status %s" % (name, t, status, inner and inner.solver.get_model_status()), replay=case))
                elif ok:
                    got = (_size(m, key), _objective(m, key))
                    if got != base:
                        failures.append(dict(fingerprint="%s non-minimal answer after inconclusive run" % name.split("/")[0],
                                             what="%s: solver call #%d reported %s, solve() still returned True with %s instead of %s (an inconclusive k was skipped)" % (name, t, status, got, base),
                                             replay=case))
                else:
                    bad = []
                    try:
                        if m.is_solved():
                            bad.append("is_solved() is True")
                    except Exception:
                        pass
                    for g in ("get_solution", "get_objective_value"):
                        if hasattr(m, g):
                            try:
                                getattr(m, g)()
                                bad.append("%s() returned data" % g)
                            except Exception:
                                pass
                    if bad:
                        failures.append(dict(fingerprint="%s unsolved model returns data" % name.split("/")[0],
                                             what="%s: solver call #%d reported %s, solve() False but %s" % (name, t, status, "; ".join(bad)), replay=case))
    return dict(engine="rc.fault_enumeration", evaluations=evaluations, distinct_nontrivial=nontrivial, failures=failures, samples=samples, undecided=undecided,
                rule="every (instance, solver invocation index, injected status) triple; non-trivial = the injected run completed without crashing the harness",
                solver_calls_per_instance=calls, bounds="18 small instances x all invocation indexes x %d statuses" % len(statuses), exhaustive=True,
                assumptions=["fault model: the status reported by SolverWrapper.get_model_status after the t-th optimize() is replaced; HiGHS itself runs normally"])
