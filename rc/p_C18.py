"""C18 bounded stand-in: a model's result depends only on its own arguments; caller data is never mutated.

Three clauses, all on the real public API with the real solver:
  frame   : deep snapshots of every argument object (graphs by nodes / edges / attribute dicts) before and after
            construct + solve + getters are equal;
  history : for every ordered pair (A, B) of model classes and every kind of shared argument object (nothing passed = the
            default arguments, optimization_options, solver_options, constraint list, ignore list, error_scaling,
            additional starts/ends, everything together): result of B built after A with the SAME objects == result of B
            built alone from equal fresh objects;
  repeat  : solve(); get_solution(); get_objective_value() repeated on one model return equal values.
"Result" = (exception type at construction | solve() value, is_solved(), get_solution(), get_objective_value()) with graphs
canonicalised; solve_statistics / timings are not results (DESIGN 3.0).
The oracle is independent of the library: it is python value equality of deep copies taken by the harness.
Mutable default arguments of the library are emptied before every reference run and every history run, so each case is
independent of what ran earlier in the process."""
import copy
import inspect
import logging

import re

import networkx as nx

from rc import graphs

_SYNTH = re.compile(r"^(source_?|sink_?)\d+")

DAG_FLOW_K = ("kFlowDecomp", "kMinPathError", "kLeastAbsErrors")
CYC_FLOW_K = ("kFlowDecompCycles", "kMinPathErrorCycles", "kLeastAbsErrorsCycles")
DAG_COVER = ("kPathCover", "MinPathCover")
CYC_COVER = ("kPathCoverCycles", "MinPathCoverCycles")
DAG_CLASSES = DAG_FLOW_K + ("MinFlowDecomp",) + DAG_COVER + ("NumPathsOptimization",)
CYC_CLASSES = CYC_FLOW_K + ("MinFlowDecompCycles",) + CYC_COVER
COVER_CLASSES = DAG_COVER + CYC_COVER
K_CLASSES = DAG_FLOW_K + CYC_FLOW_K + ("kPathCover", "kPathCoverCycles")
HAS_ERROR_SCALING = ("kMinPathError", "kLeastAbsErrors", "kMinPathErrorCycles", "kLeastAbsErrorsCycles", "MinErrorFlow")
NO_ADDITIONAL = ("kFlowDecomp", "MinFlowDecomp", "MinFlowDecompCycles")     # not accepted / only accepted for node-weighted input
NO_OPTS = ("MinErrorFlow", "MinGenSet", "MinSetCover")
NO_GRAPH = ("MinGenSet", "MinSetCover")
ALL_CLASSES = ("MinFlowDecomp", "kFlowDecomp", "kMinPathError", "kLeastAbsErrors", "kPathCover", "MinPathCover", "NumPathsOptimization",
               "MinFlowDecompCycles", "kFlowDecompCycles", "kMinPathErrorCycles", "kLeastAbsErrorsCycles", "kPathCoverCycles", "MinPathCoverCycles",
               "MinErrorFlow", "MinGenSet", "MinSetCover")
# flavours of the FIRST model of a history (class, flavour)
A_FLAVOURS = [(c, "plain") for c in ALL_CLASSES] + [(c, "superset") for c in DAG_FLOW_K]

BASES = {
    "diamond": dict(edges=[("x", "y", 3), ("x", "z", 2), ("y", "z", 1), ("y", "w", 2), ("z", "w", 3)], nodew={"x": 5, "y": 3, "z": 3, "w": 5},
                    con=[("x", "y"), ("y", "z")], ign=("y", "z"), mid=("y", "z"), k=4),
    "fork": dict(edges=[("x", "z", 1), ("y", "z", 2), ("z", "w", 2), ("z", "v", 1)], nodew={"x": 1, "y": 2, "z": 3, "w": 2, "v": 1},
                 con=[("y", "z"), ("z", "w")], ign=("x", "z"), mid=("z", "z"), k=3),
    "cycle": dict(edges=[("x", "y", 2), ("y", "z", 1), ("z", "y", 1), ("y", "w", 2)], nodew={"x": 2, "y": 3, "z": 1, "w": 2}, con=[("y", "z"), ("z", "y")],
                  ign=("z", "y"), mid=("y", "z"), k=3),
    "loop": dict(edges=[("x", "y", 2), ("y", "y", 1), ("y", "z", 2)], nodew={"x": 2, "y": 3, "z": 2}, con=[("x", "y"), ("y", "y")], ign=("y", "y"), mid=("y", "y"), k=3),
}
CYCLIC_BASES = ("cycle", "loop")
KINDS_QUICK = ("none", "opts", "sopts", "cons", "ign", "all", "threads_other")
KINDS_ALL = ("none", "opts", "opts_empty", "opts2", "opts3", "sopts", "cons", "ign", "scal", "se", "all", "threads_other")
OPTS_CONTENT = {"opts": {"optimize_with_safe_zero_edges": True}, "opts_empty": {}, "opts2": {"optimize_with_safe_paths": False},
                "opts3": {"optimize_with_safe_sequences": False}, "all": {"optimize_with_safe_zero_edges": True}}


# ----------------------------------------------------------------------------------------------------------------------
#  canonical values / snapshots
# ----------------------------------------------------------------------------------------------------------------------
def canon(o):
    """deep, comparable copy; graphs by nodes, edges, attribute dicts and whether the object still accepts modifications (nx.freeze replaces
    the mutators of the instance: the caller can no longer extend a graph it passed in)"""
    if isinstance(o, nx.Graph):
        return ("graph", ("frozen", bool(nx.is_frozen(o))), canon(dict(o.graph)), sorted(((repr(n), canon(a)) for n, a in o.nodes(data=True)), key=repr),
                sorted(((repr(u), repr(v), canon(a)) for u, v, a in o.edges(data=True)), key=repr))
    if isinstance(o, dict):
        return ("dict", sorted(((repr(k), canon(v)) for k, v in o.items()), key=repr))
    if isinstance(o, (list, tuple)):
        return (type(o).__name__, [canon(x) for x in o])
    if isinstance(o, (set, frozenset)):
        return ("set", sorted((canon(x) for x in o), key=repr))
    if isinstance(o, str):
        # the synthetic source / sink names embed id(graph) (a memory address): not part of the result's value
        return _SYNTH.sub(lambda m: m.group(1) + "#", o)
    if isinstance(o, bool) or o is None or isinstance(o, int):
        return o
    if isinstance(o, float):
        return o
    try:
        import numbers
        if isinstance(o, numbers.Integral):
            return int(o)
        if isinstance(o, numbers.Real):
            return float(o)
    except Exception:
        pass
    if isinstance(o, type):
        return ("type", o.__name__)
    return ("obj", repr(o)[:80])


def _mutable_defaults():
    """every mutable default-argument object of the library's functions and methods"""
    import flowpaths as fp
    import flowpaths.utils.solverwrapper
    import flowpaths.utils.graphutils
    import flowpaths.utils.safetypathcovers
    import flowpaths.utils.safetyflowdecomp
    import sys
    out, seen = [], set()
    for mname, mod in list(sys.modules.items()):
        if not mname.startswith("flowpaths") or mod is None:
            continue
        holders = [mod] + [c for c in vars(mod).values() if inspect.isclass(c) and getattr(c, "__module__", "").startswith("flowpaths")]
        for h in holders:
            for fname, f in list(vars(h).items()):
                f = getattr(f, "__func__", f)
                if isinstance(f, property):
                    f = f.fget
                if not inspect.isfunction(f) or id(f) in seen or not str(getattr(f, "__module__", "")).startswith("flowpaths"):
                    continue            # only the library's own functions (never touch defaults of imported third-party functions)
                seen.add(id(f))
                for d in list(f.__defaults__ or ()) + list((f.__kwdefaults__ or {}).values()):
                    if isinstance(d, (dict, list, set)):
                        out.append(("%s.%s" % (getattr(h, "__name__", "?"), fname), d))
    return out


_DEFAULTS = None


def reset_defaults():
    """restore every mutable default argument of the library to the value it had when this module first looked (the
    source has only empty containers and one constant table), and destroy the process-global HiGHS scheduler so that a
    `threads` option used by an earlier case cannot leak into this one"""
    global _DEFAULTS
    if _DEFAULTS is None:
        _DEFAULTS = [(name, d, copy.deepcopy(d)) for name, d in _mutable_defaults()]
    dirty = []
    for name, d, pristine in _DEFAULTS:
        if d != pristine:
            dirty.append(name)
            d.clear()
            if isinstance(d, dict):
                d.update(copy.deepcopy(pristine))
            elif isinstance(d, list):
                d.extend(copy.deepcopy(pristine))
            else:
                d |= copy.deepcopy(pristine)
    try:
        import highspy
        highspy.Highs.resetGlobalScheduler(True)
    except Exception:
        pass
    return dirty


def dirty_defaults():
    return [(name, repr(d)[:120]) for name, d, pristine in (_DEFAULTS or []) if d != pristine]


def _quiet():
    logging.getLogger("flowpaths").setLevel(logging.CRITICAL + 1)
    try:
        import flowpaths.utils as u
        u.logger.setLevel(logging.CRITICAL + 1)
    except Exception:
        pass


# ----------------------------------------------------------------------------------------------------------------------
#  argument objects
# ----------------------------------------------------------------------------------------------------------------------
def make_graph(base, names):
    b = BASES[base]
    r = dict(zip(graphs.NAMES1, names))
    G = nx.DiGraph()
    G.graph["id"] = "g_" + base
    for n, f in b["nodew"].items():
        G.add_node(r[n], flow=f)
    for u, v, f in b["edges"]:
        G.add_edge(r[u], r[v], flow=f)
    return G


def make_shared(kind, base, names):
    """the argument objects that the two models of a history share (a fresh set per call)"""
    b = BASES[base]
    r = dict(zip(graphs.NAMES1, names))
    E = lambda e: (r[e[0]], r[e[1]])
    sh = {"G": make_graph(base, names)}
    if kind in OPTS_CONTENT:
        sh["opts"] = dict(OPTS_CONTENT[kind])
    if kind in ("sopts", "all"):
        sh["sopts"] = {"threads": 1, "time_limit": 60}
    if kind in ("cons", "all"):
        sh["cons"] = [[E(e) for e in b["con"]]]
    if kind in ("ign", "all"):
        sh["ign"] = [E(b["ign"])]
    if kind in ("scal", "all"):
        sh["scal"] = {E(b["edges"][0]): 0.5}
    if kind in ("se", "all"):
        sh["starts"] = [r[b["mid"][0]]]
        sh["ends"] = [r[b["mid"][1]]]
    return sh


def node_shared(sh):
    """node-weighted counterpart of a set of shared objects (constraints / ignore list / scaling by node names)"""
    out = dict(sh)
    if "cons" in sh:
        out["cons"] = [[e[0] for e in c] + [c[-1][1]] for c in sh["cons"]]
    if "ign" in sh:
        out["ign"] = [e[1] for e in sh["ign"]]
    if "scal" in sh:
        out["scal"] = {e[0]: f for e, f in sh["scal"].items()}
    return out


def kwargs_for(cls, flavour, sh, base, origin="edge"):
    """(positional, keyword) arguments of class `cls` using the objects in sh (an object is passed iff sh holds it)"""
    import flowpaths as fp
    b = BASES[base]
    if cls == "MinGenSet":
        kw = dict(numbers=sh.setdefault("numbers", [1, 2, 3]), total=6, weight_type=int)
        if "sopts" in sh:
            kw["solver_options"] = sh["sopts"]
        return kw
    if cls == "MinSetCover":
        kw = dict(universe=sh.setdefault("universe", [1, 2, 3]), subsets=sh.setdefault("subsets", [[1, 2], [2, 3], [3]]), subset_weights=sh.setdefault("subset_weights", [1, 1, 1]))
        if "sopts" in sh:
            kw["solver_options"] = sh["sopts"]
        return kw
    inner = "kLeastAbsErrors" if cls == "NumPathsOptimization" else cls
    kw = {"G": sh["G"]}
    if inner in COVER_CLASSES:
        if origin == "node":
            kw["cover_type"] = "node"
    else:
        kw["flow_attr"] = "flow"
        kw["weight_type"] = int
        if origin == "node":
            kw["flow_attr_origin"] = "node"
    if cls in K_CLASSES:
        kw["k"] = b["k"]
    if cls == "NumPathsOptimization":
        kw.update(model_type=getattr(fp, inner), stop_on_first_feasible=True, max_num_paths=4)
    if "opts" in sh and cls not in NO_OPTS:
        kw["optimization_options"] = sh["opts"]
    if "sopts" in sh:
        kw["solver_options"] = sh["sopts"]
    if "cons" in sh and cls != "MinErrorFlow":
        kw["subset_constraints" if cls in CYC_CLASSES else "subpath_constraints"] = sh["cons"]
    if "ign" in sh:
        kw["elements_to_ignore"] = sh["ign"]
    if "scal" in sh and inner in HAS_ERROR_SCALING:
        kw["error_scaling"] = sh["scal"]
    if "starts" in sh and inner not in NO_ADDITIONAL:
        kw["additional_starts"] = sh["starts"]
        kw["additional_ends"] = sh["ends"]
    if flavour == "superset":
        kw["solution_weights_superset"] = sh.setdefault("superset", [1, 2, 3])
    return kw


def shares_something(A, B, kind):
    """do classes A and B both take an argument object of this kind? (otherwise the history shares nothing but the graph)"""
    def takes(c):
        t = set()
        if c not in NO_GRAPH:
            t |= {"G", "ign"}
            if c != "MinErrorFlow":
                t.add("cons")
            if c not in NO_OPTS:
                t.add("opts")
            ic = "kLeastAbsErrors" if c == "NumPathsOptimization" else c
            if ic in HAS_ERROR_SCALING:
                t.add("scal")
            if ic not in NO_ADDITIONAL:
                t.add("se")
        t.add("sopts")
        return t
    key = {"opts_empty": "opts", "opts2": "opts", "opts3": "opts"}.get(kind, kind)
    if key in ("none", "all", "threads_other"):
        return True
    return key in takes(A) and key in takes(B)


# ----------------------------------------------------------------------------------------------------------------------
#  running a model and collecting its result
# ----------------------------------------------------------------------------------------------------------------------
def run_model(cls, kw, getters_twice=False):
    """-> (result tuple, model or None).  Never raises."""
    import flowpaths as fp
    try:
        m = getattr(fp, cls)(**kw)
    except (Exception, SystemExit) as e:
        return ("construct raises", type(e).__name__), None
    res = []
    try:
        res.append(("solve", m.solve()))
    except (Exception, SystemExit) as e:
        res.append(("solve raises", type(e).__name__))
    try:
        res.append(("is_solved", bool(m.is_solved())))
    except (Exception, SystemExit) as e:
        res.append(("is_solved raises", type(e).__name__))
    for g in ("get_solution", "get_objective_value"):
        if not hasattr(m, g):
            continue
        try:
            res.append((g, canon(getattr(m, g)())))
        except (Exception, SystemExit) as e:
            res.append((g + " raises", type(e).__name__))
    return tuple(res), m


_ALONE = {}


def alone(cls, kind, base, names, origin, fresh=False):
    key = (cls, kind, base, names, origin)
    if fresh or key not in _ALONE:
        reset_defaults()
        sh = make_shared(kind, base, names)
        if origin == "node":
            sh = node_shared(sh)
        r, _ = run_model(cls, kwargs_for(cls, "plain", sh, base, origin))
        if fresh:
            return r
        _ALONE[key] = r
    return _ALONE[key]


def history(A, flavour, B, kind, base, names, origin):
    """-> (result of B after A, list of frame violations seen on the way)"""
    reset_defaults()
    sh = make_shared(kind, base, names)
    if origin == "node":
        sh = node_shared(sh)
    frames = []
    if kind == "threads_other":
        shA = dict(sh, sopts={"threads": 1})         # A's own solver options: an object B never sees
        kwA = kwargs_for(A, flavour, shA, base, origin)
    else:
        kwA = kwargs_for(A, flavour, sh, base, origin)
    snapA = {k: canon(v) for k, v in kwA.items()}
    run_model(A, kwA)
    for k, v in kwA.items():
        if canon(v) != snapA[k]:
            frames.append((A, flavour, k, str(snapA[k])[:300], str(canon(v))[:300]))
    # the objects B receives are the SAME objects A received, whatever A did to them
    kwB = kwargs_for(B, "plain", sh, base, origin)
    snapB = {k: canon(v) for k, v in kwB.items()}
    rB, _ = run_model(B, kwB)
    for k, v in kwB.items():
        if canon(v) != snapB[k]:
            frames.append((B, "plain", k, str(snapB[k])[:300], str(canon(v))[:300]))
    return rB, frames, dirty_defaults()


def mutate_in_place(G, origin, arm=None):
    """an in-place change of the caller's graph between two models that keeps every class's input valid: a detached extra source-to-sink edge;
    for the cover classes (no values to keep consistent) alternatively a new arm a -> r -> b between two existing nodes, which changes
    the reachability among the nodes the first model already asked about"""
    if arm:
        G.add_edge(arm[0], "r_new")
        G.add_edge("r_new", arm[1])
        return
    if origin == "node":
        G.add_node("m_in", flow=2)
        G.add_node("m_out", flow=2)
        G.add_edge("m_in", "m_out")
    else:
        G.add_edge("m_in", "m_out", flow=2)


class CallerGraphLocked(Exception):
    pass


def mutation_history(A, B, base, names, origin, arm=None):
    """model A on G; the caller then changes G in place; model B on the SAME object must equal model B on a freshly built equal graph"""
    import copy
    reset_defaults()
    sh = make_shared("none", base, names)
    if origin == "node":
        sh = node_shared(sh)
    run_model(A, kwargs_for(A, "plain", sh, base, origin))
    try:
        mutate_in_place(sh["G"], origin, arm)
    except nx.NetworkXError as e:
        # the caller can no longer extend its own graph: the first model froze (or otherwise locked) the object it was given
        raise CallerGraphLocked("%s: %s" % (type(e).__name__, e))
    after, _ = run_model(B, kwargs_for(B, "plain", sh, base, origin))
    reset_defaults()
    fresh = make_shared("none", base, names)
    if origin == "node":
        fresh = node_shared(fresh)
    mutate_in_place(fresh["G"], origin, arm)
    ref, _ = run_model(B, kwargs_for(B, "plain", fresh, base, origin))
    return after, ref


def check_mutation(case):
    A, B, base, names, origin = case["A"], case["B"], case["base"], _names(case["names"]), case["origin"]
    arm = None
    if case.get("arm"):
        r = dict(zip(graphs.NAMES1, names))
        arm = (r[BASES[base]["mid"][0]], r[BASES[base]["edges"][-1][1]])
    try:
        after, ref = mutation_history(A, B, base, names, origin, arm)
    except CallerGraphLocked as e:
        return dict(ok=False, nontrivial=True, fingerprint="frame: %s modifies the caller's graph (the object no longer accepts the caller's own changes)" % A,
                    what="%s on %s graph (%s weights): afterwards add_edge / add_node on the caller's graph raises %s" % (A, base, origin, e))
    if after == ref:
        return dict(ok=True, nontrivial=True, detail=dict(result=str(ref)[:200]))
    again = [mutation_history(A, B, base, names, origin, arm) for _ in range(2)]
    if any(a == r for a, r in again):
        return dict(ok=None, nontrivial=False, what="not reproducible (library non-determinism on this instance): %s after %s on %s" % (B, A, base))
    return dict(ok=False, nontrivial=True, fingerprint="history: after the caller changed the graph object in place, %s still answers for the graph an earlier model saw" % B,
                what="%s on %s graph (%s weights), changed in place after a %s model: got %s, a freshly built equal graph gives %s" % (B, base, origin, A, str(after)[:300], str(ref)[:300]))


# ----------------------------------------------------------------------------------------------------------------------
#  cases
# ----------------------------------------------------------------------------------------------------------------------
def _accepts_base(cls, base):
    if cls in NO_GRAPH:
        return True
    return base not in CYCLIC_BASES or cls in CYC_CLASSES or cls == "MinErrorFlow"


def cases(tier):
    quick = tier == "quick"
    kinds = KINDS_QUICK if quick else KINDS_ALL
    # ---- frame + repeat: every class x base x kind of argument set x weight origin
    for cls, flavour in A_FLAVOURS:
        for base in (("diamond", "cycle") if quick else tuple(BASES)):
            if not _accepts_base(cls, base) or (cls in NO_GRAPH and base != "diamond"):
                continue
            for names in ((1,) if quick else (1, 2)):
                for origin in ("edge", "node"):
                    if cls in NO_GRAPH and origin == "node":
                        continue
                    for kind in (("none", "all") if quick else KINDS_ALL):
                        if cls in NO_GRAPH and kind not in ("none", "all", "sopts"):
                            continue
                        yield dict(clause="frame+repeat", A=cls, flavour=flavour, kind=kind, base=base, names=names, origin=origin)
    # ---- history: every ordered pair of classes x kind of shared object
    for A, flavour in A_FLAVOURS:
        for B in ALL_CLASSES:
            for kind in kinds:
                if not shares_something(A, B, kind):
                    continue
                for base in (("diamond", "cycle") if quick else tuple(BASES)):
                    if not (_accepts_base(A, base) and _accepts_base(B, base)):
                        continue
                    if A in NO_GRAPH and B in NO_GRAPH and base != "diamond":
                        continue
                    if base in CYCLIC_BASES and quick and kind not in ("none", "opts", "all"):
                        continue
                    if kind == "threads_other" and (flavour != "plain" or base != "diamond"):
                        continue
                    for names, origin in (((1, "edge"),) if quick else ((1, "edge"), (2, "edge"), (1, "node"))):
                        if origin == "node" and kind not in ("none", "opts", "ign", "cons", "all"):
                            continue
                        if names == 2 and kind not in ("none", "opts", "all"):
                            continue
                        if kind == "threads_other" and (names, origin) != (1, "edge"):
                            continue
                        yield dict(clause="history", A=A, flavour=flavour, B=B, kind=kind, base=base, names=names, origin=origin)
    # ---- the caller changes the shared graph object in place between two models (same class, and one other class before)
    for B in ALL_CLASSES:
        if B in NO_GRAPH:
            continue
        for base in (("diamond", "cycle") if quick else tuple(BASES)):
            if not _accepts_base(B, base):
                continue
            for A in dict.fromkeys([B, "MinPathCoverCycles" if base in CYCLIC_BASES else "MinPathCover"]):
                if not _accepts_base(A, base):
                    continue
                for origin in (("edge",) if quick else ("edge", "node")):
                    yield dict(clause="mutation", A=A, B=B, base=base, names=1, origin=origin)
                if B in COVER_CLASSES:
                    yield dict(clause="mutation", A=A, B=B, base=base, names=1, origin="edge", arm=True)


def _names(i):
    return graphs.NAMES1 if i == 1 else graphs.NAMES2


# ----------------------------------------------------------------------------------------------------------------------
#  checks
# ----------------------------------------------------------------------------------------------------------------------
def _argname(k):
    return {"G": "graph", "optimization_options": "optimization_options dict", "solver_options": "solver_options dict", "subpath_constraints": "constraint list",
            "subset_constraints": "constraint list", "elements_to_ignore": "ignore list", "error_scaling": "error_scaling dict", "additional_starts": "additional_starts list",
            "additional_ends": "additional_ends list", "solution_weights_superset": "solution_weights_superset list", "numbers": "numbers list", "universe": "universe list",
            "subsets": "subsets list", "subset_weights": "subset_weights list"}.get(k, k)


def check_frame_repeat(case):
    import flowpaths as fp
    cls, flavour, kind, base, origin = case["A"], case["flavour"], case["kind"], case["base"], case["origin"]
    names = _names(case["names"])
    reset_defaults()
    sh = make_shared(kind, base, names)
    if origin == "node":
        sh = node_shared(sh)
    kw = kwargs_for(cls, flavour, sh, base, origin)
    snap = {k: canon(v) for k, v in kw.items()}
    try:
        m = getattr(fp, cls)(**kw)
    except (Exception, SystemExit) as e:
        m = None
        err = e
    where = "construction"
    changed = [k for k, v in kw.items() if canon(v) != snap[k]]
    obs = {}
    if m is not None and not changed:
        where = "solve + getters"
        calls = []
        for name in ("solve", "get_solution", "get_objective_value", "get_solution", "get_objective_value", "solve", "get_solution", "get_objective_value"):
            if not hasattr(m, name):
                calls.append((name, "absent"))
                continue
            try:
                calls.append((name, ("value", canon(getattr(m, name)()))))
            except (Exception, SystemExit) as e:
                calls.append((name, ("raises", type(e).__name__)))
        changed = [k for k, v in kw.items() if canon(v) != snap[k]]
        for name in ("solve", "get_solution", "get_objective_value"):
            vals = [v for n, v in calls if n == name]
            obs[name] = vals
    ident = "%s(%s) base=%s names=%s origin=%s arguments=%s" % (cls, flavour, base, case["names"], origin, kind)
    if changed:
        k = changed[0]
        return dict(ok=False, nontrivial=True, fingerprint="frame: %s modifies the caller's %s" % (cls, _argname(k)),
                    what="%s: %s changed during %s: before %s after %s" % (ident, changed, where, str(snap[k])[:400], str(canon(kw[k]))[:400]))
    if m is None:
        return dict(ok=True, nontrivial=False, detail=dict(note="constructor raised %s; arguments unchanged" % type(err).__name__))
    for name, vals in obs.items():
        if any(v == "absent" for v in vals):
            continue
        if any(v != vals[0] for v in vals[1:]):
            return dict(ok=False, nontrivial=True, fingerprint="repeat: %s.%s() returns different values on repeated calls" % (cls, name),
                        what="%s: successive %s() results: %s" % (ident, name, str(vals)[:900]))
    return dict(ok=True, nontrivial=kind != "none", detail=dict(solved=str(obs.get("solve"))[:80]))


def check_history(case):
    A, flavour, B, kind, base, origin = case["A"], case["flavour"], case["B"], case["kind"], case["base"], case["origin"]
    names = _names(case["names"])
    ref = alone(B, kind, base, names, origin)
    got, frames, dirty = history(A, flavour, B, kind, base, names, origin)
    ident = "B=%s after A=%s(%s) sharing %s; base=%s names=%s origin=%s" % (B, A, flavour, kind, base, case["names"], origin)
    sharing = {"none": "nothing but the default arguments", "opts": "its optimization_options dict", "opts_empty": "its (empty) optimization_options dict",
               "opts2": "its optimization_options dict", "opts3": "its optimization_options dict", "sopts": "its solver_options dict", "cons": "its constraint list",
               "ign": "its ignore list", "scal": "its error_scaling dict", "se": "its additional starts/ends lists", "all": "all its argument objects",
               "threads_other": "no argument object with it but had its own solver_options (threads)"}[kind]
    if got != ref:
        # control: is the difference attributable to the history, or is the library not deterministic on this instance?
        refs = [ref] + [alone(B, kind, base, names, origin, fresh=True) for _ in range(2)]
        gots = [got] + [history(A, flavour, B, kind, base, names, origin)[0] for _ in range(2)]
        if all(g in refs for g in gots):
            return dict(ok=True, nontrivial=True, detail=dict(note="equal up to the library's own run-to-run variation"))
        if any(r != refs[0] for r in refs):
            return dict(ok=None, nontrivial=False, what="%s: the reference run itself is not reproducible (%s)" % (ident, str(refs)[:300]))
        return dict(ok=False, nontrivial=True, fingerprint="history: result of %s depends on an earlier model that shared %s" % (B, sharing),
                    what="%s: alone %s ; after A %s ; caller objects modified on the way: %s ; non-empty default arguments: %s"
                         % (ident, str(ref)[:500], str(got)[:500], [(f[0], f[2]) for f in frames], dirty[:4]),
                    detail=dict(alone=str(ref)[:1500], after=str(got)[:1500]))
    if frames:
        f = frames[0]
        return dict(ok=False, nontrivial=True, fingerprint="frame: %s modifies the caller's %s" % (f[0], _argname(f[2])),
                    what="%s: %s(%s) changed %s: before %s after %s" % (ident, f[0], f[1], f[2], f[3], f[4]))
    return dict(ok=True, nontrivial=True, detail=dict(result=str(got)[:120]))


def check(case):
    _quiet()
    if case["clause"] == "history":
        return check_history(case)
    if case["clause"] == "mutation":
        return check_mutation(case)
    return check_frame_repeat(case)


def run(tier="quick", seed=0, chunk=0, nchunks=1):
    from vf.bounded import run_cases
    return run_cases(cases(tier), check, chunk, nchunks, engine="rc",
                     rule="frame+repeat: 16 exported model classes (+ solution_weights_superset flavours) x base graph x edge-/node-weighted x argument sets "
                          "(nothing optional passed / every mutable argument passed%s): deep snapshots of all arguments before/after construct+solve+getters, "
                          "and solve/get_solution/get_objective_value called 2-3 times; history: every ordered pair (A,B) of the 16 classes (+3 flavours of A) x kind "
                          "of shared object (defaults only, optimization_options, solver_options, constraint list, ignore list, all%s) x base graph: B after A on the "
                          "same objects vs B alone on equal fresh objects (library default arguments emptied before each run; a mismatch is re-run 3+3 times to rule "
                          "out run-to-run variation); non-trivial = at least one argument object passed / a pair that shares an object"
                          % ((", each kind alone", ", empty dict, other option keys, error_scaling, starts/ends") if tier != "quick" else ("", "")),
                     bounds="graphs: diamond DAG and 2-cycle digraph (thorough: + fork, self-loop; second naming scheme; node-weighted histories), weights <=5, k<=3")
