"""C09 bounded stand-in: minimum path / walk covers and width against explicit route enumeration.

DAG side:   MinPathCover, kPathCover, stDAG.get_width   vs  oracles.min_cover over oracles.routes_dag (all source-to-sink paths).
cyclic side: MinPathCoverCycles, kPathCoverCycles, stDiGraph.get_width  vs  oracles.min_cover over the inclusion-maximal *supports* of
source-to-sink walks.  The supports are enumerated without any multiplicity cap by an explicit search over (current node, set of edges
used so far); a cover only depends on which elements a walk touches, and a walk touching more dominates one touching less, so keeping the
maximal supports loses nothing.  On graphs with <= 5 edges the result is cross-checked against oracles.routes_walks with multiplicity
cap 3 (disagreement = undecided, never a failure).
Configurations: edge / node cover, ignored elements, additional starts / ends, subpath (DAG) and subset (cyclic) constraints with
coverage 1 and 0.5 and length coverage."""
import functools
import itertools
import networkx as nx
from rc import graphs, oracles as O
from rc.common import is_route

LEN = "len"


# ---------------------------------------------------------------------------------------------------------------------
# oracles

def _build(edges, nodes=(), lengths=None):
    G = nx.DiGraph()
    G.graph["id"] = "g"
    for v in nodes:
        G.add_node(v)
    for e in edges:
        u, v = e
        if lengths is not None and lengths.get((u, v)) is not None:
            G.add_edge(u, v, **{LEN: lengths[(u, v)]})
        else:
            G.add_edge(u, v)
    return G


def _elements_of_path(p):
    d = {v: 1 for v in p}
    for e in graphs.pedges(p):
        d[e] = 1
    return d


@functools.lru_cache(maxsize=None)
def dag_routes(edges, nodes, starts, ends):
    G = _build(edges, nodes)
    return tuple(tuple(p) for p in O.routes_dag(G, starts, ends))


@functools.lru_cache(maxsize=None)
def walk_supports(edges, nodes, starts, ends):
    """element sets (edges and nodes) of all source-to-sink walks, as frozensets; exact, no multiplicity cap"""
    G = _build(edges, nodes)
    S, T = O.augmented(G, starts, ends)
    T = set(T)
    E = list(G.edges())
    bit = {e: 1 << i for i, e in enumerate(E)}
    seen, sup = set(), set()
    stack = [(s, 0) for s in S]
    while stack:
        v, F = stack.pop()
        if (v, F) in seen:
            continue
        seen.add((v, F))
        if v in T:
            if F == 0:
                sup.add(frozenset([v]))
            else:
                es = [e for e in E if F & bit[e]]
                sup.add(frozenset(es) | frozenset(x for e in es for x in e))
        for w in G.successors(v):
            stack.append((w, F | bit[(v, w)]))
    return frozenset(sup)


@functools.lru_cache(maxsize=None)
def walk_routes(edges, nodes, starts, ends):
    sup = walk_supports(edges, nodes, starts, ends)
    mx = [s for s in sup if not any(s < t for t in sup)]
    mx.sort(key=lambda s: sorted(map(str, s)))
    return tuple(mx)


@functools.lru_cache(maxsize=None)
def capped_walks(edges, nodes, starts, ends, cap):
    G = _build(edges, nodes)
    return tuple(tuple(sorted(r.items())) for r in O.routes_walks(G, {e: cap for e in G.edges()}, starts, ends))


def in_domain_cyclic(edges, nodes, starts, ends):
    """every edge (and every node) lies on some source-to-sink walk"""
    sup = walk_supports(edges, nodes, starts, ends)
    cov = set().union(*sup) if sup else set()
    G = _build(edges, nodes)
    return all(e in cov for e in G.edges()) and all(v in cov for v in G.nodes())


def oracle_min(case):
    """(minimum cover size or None, number of candidate routes); routes as element dicts"""
    edges, nodes = tuple(map(tuple, case["edges"])), tuple(case["nodes"])
    starts, ends = tuple(case["starts"]), tuple(case["ends"])
    G = _build(edges, nodes)
    if case.get("cert"):
        # a large curated instance: the minimum is certified by hand - ONE explicit source-to-sink walk covering every edge (no cover is smaller than 1)
        w = list(case["cert"])
        E = set(edges)
        srcs = set(starts) | {v for v in G if G.in_degree(v) == 0}
        snks = set(ends) | {v for v in G if G.out_degree(v) == 0}
        assert w[0] in srcs and w[-1] in snks and all((a, b) in E for a, b in zip(w, w[1:])) and set(zip(w, w[1:])) == E, "bad certificate"
        return 1, [], sorted(E), [], 1.0, None
    if case["cyc"]:
        R = [dict.fromkeys(s, 1) for s in walk_routes(edges, nodes, starts, ends)]
    else:
        R = [_elements_of_path(p) for p in dag_routes(edges, nodes, starts, ends)]
    ign = set(_el(x) for x in case["ignore"])
    if case["cover"] == "edge":
        req = [e for e in G.edges() if e not in ign]
    else:
        req = [v for v in G.nodes() if v not in ign]
    cons = [[_el(x) for x in c] for c in case["cons"]]
    if case["cyc"]:
        cons = [list(dict.fromkeys(c)) for c in cons]          # subset constraints are sets
    lengths = None
    cov = case["cov"]
    if case.get("covlen") is not None:
        cov = case["covlen"]
        lengths = {tuple(k.split("|")): v for k, v in (case.get("lengths") or {}).items()}
    return O.min_cover(R, req, cons, cov, lengths, kmax=8), R, req, cons, cov, lengths


def _el(x):
    return tuple(x) if isinstance(x, (list, tuple)) else x


# ---------------------------------------------------------------------------------------------------------------------
# cases

def _case(kind, cyc, edges, **kw):
    d = dict(kind=kind, cyc=cyc, edges=[list(e) for e in edges], nodes=[], cover="edge", ignore=[], starts=[], ends=[], cons=[], cov=1.0,
             covlen=None, lengths=None, dk=0)
    d.update(kw)
    return d


def _kinds(cyc, edges, ks=(0, -1), width=False, **kw):
    yield _case("min", cyc, edges, **kw)
    for dk in ks:
        yield _case("k", cyc, edges, dk=dk, **kw)
    if width and kw.get("cover", "edge") == "edge" and not kw.get("cons"):
        yield _case("width", cyc, edges, **kw)


def _width_sequences(cyc, E, st, en, seed):
    """several get_width calls on ONE s-t graph object with different ignore sets in different orders (a stale cache must show)"""
    if len(E) < 2:
        return
    A = [list(E[seed % len(E)])]
    B = [list(E[(seed + 1) % len(E)])]
    C = [list(e) for e in E[:-1]] if len(E) > 2 else B
    for seq in ([A, [], B, A, C], [[], B, A, []], [C, A, [], B]):
        yield _case("widthseq", cyc, E, starts=list(st), ends=list(en), seq=seq)
    if len(E) >= 3:
        for r in (1, 2):
            combos = [[list(e) for e in ign] for ign in itertools.combinations(E, r)]
            yield _case("widthseq", cyc, E, starts=list(st), ends=list(en), seq=combos[seed % 2::2][:8] + [[]] + combos[:6])


def _dag_family(G, full, stride_seed):
    E = list(G.edges())
    V = list(G.nodes())
    paths = O.routes_dag(G)
    pe = sorted((graphs.pedges(p) for p in paths), key=lambda x: (-len(x), x))
    # A. plain edge cover
    for c in _kinds(False, E, ks=(0, -1, 1), width=True):
        yield c
    # B. ignored edges: width for every set of size <= 2 that leaves an edge, the models on singles and a stride of the pairs
    n = 0
    for r in (1, 2):
        for ign in itertools.combinations(E, r):
            if len(ign) >= len(E):
                continue
            n += 1
            yield _case("width", False, E, ignore=[list(e) for e in ign])
            if full and (r == 1 or (n + stride_seed) % 4 == 0):
                yield _case("min", False, E, ignore=[list(e) for e in ign])
                if (n + stride_seed) % 2 == 0:
                    yield _case("k", False, E, ignore=[list(e) for e in ign], dk=0)
                    yield _case("k", False, E, ignore=[list(e) for e in ign], dk=-1)
    for c in _width_sequences(False, E, [], [], stride_seed):
        yield c
    # C. additional starts / ends
    inner_s = [v for v in V if G.in_degree(v) > 0]
    inner_t = [v for v in V if G.out_degree(v) > 0]
    cfgs = []
    if inner_s:
        cfgs.append(([inner_s[stride_seed % len(inner_s)]], []))
    if inner_t:
        cfgs.append(([], [inner_t[stride_seed % len(inner_t)]]))
    if inner_s and inner_t:
        cfgs.append(([inner_s[-1]], [inner_t[0]]))
        cfgs.append(([V[0]], [V[-1]]))                      # declaring a node that already is a source / sink
    for ci, (st, en) in enumerate(cfgs):
        if not full and ci not in (2,):
            continue
        for c in _kinds(False, E, ks=(0, -1), width=True, starts=st, ends=en):
            yield c
        if full and len(E) > 1:
            yield _case("min", False, E, starts=st, ends=en, ignore=[list(E[(stride_seed + ci) % len(E)])])
            yield _case("width", False, E, starts=st, ends=en, ignore=[list(E[(stride_seed + ci) % len(E)])])
    # D. subpath constraints (lists of edges)
    if full:
        longest = pe[0]
        variants = []
        if len(longest) >= 2:
            variants.append(dict(cons=[longest[:2]]))                                        # contiguous
            variants.append(dict(cons=[longest]))                                            # a whole path
            variants.append(dict(cons=[longest, longest]))                                   # duplicated
            variants.append(dict(cons=[longest], ignore=longest[:-1] if len(longest) == len(E) else longest))   # constraint over ignored edges
            variants.append(dict(cons=[longest], cov=0.5, ignore=longest[:-1] if len(longest) == len(E) else longest))
            lens = {"%s|%s" % e: (1, 2, 3)[i % 3] for i, e in enumerate(E) if i != 1}       # one edge without the attribute (counts 1)
            variants.append(dict(cons=[longest], covlen=0.6, lengths=lens, ignore=longest[:-1] if len(longest) == len(E) else longest))
            variants.append(dict(cons=[longest], covlen=1.0, lengths=lens))
            # relaxed BY LENGTH, edge-count coverage left at 1, nothing ignored: one heavy edge satisfies the constraint alone,
            # the other edges of the constraint are not forced by it but must still be covered
            heavy_last = {"%s|%s" % e: (7 if e == longest[-1] else 1) for e in E}
            heavy_first = {"%s|%s" % e: (7 if e == longest[0] else 2) for e in E if e != longest[-1]}
            variants.append(dict(cons=[longest], covlen=0.5, lengths=heavy_last))
            variants.append(dict(cons=[longest], covlen=0.6, lengths=heavy_first))
            if len(pe) >= 2 and len(pe[1]) >= 2:
                variants.append(dict(cons=[longest, pe[1]], covlen=0.5, lengths=heavy_last))
        if len(longest) >= 3:
            variants.append(dict(cons=[[longest[0], longest[2]]]))                           # gapped
            variants.append(dict(cons=[longest[:2], longest[1:3]]))                          # overlapping, same path
        if len(pe) >= 2:
            variants.append(dict(cons=[pe[0], pe[-1]]))                                      # two whole paths
            variants.append(dict(cons=[pe[0], pe[1]], cov=0.5))
        variants.append(dict(cons=[[E[stride_seed % len(E)]]], ignore=[E[stride_seed % len(E)]] if len(E) > 1 else []))   # single ignored edge still demanded
        if cfgs:
            st, en = cfgs[-2] if len(cfgs) >= 3 else cfgs[0]
            sub = sorted((graphs.pedges(p) for p in O.routes_dag(G, st, en)), key=lambda x: (len(x), x))
            sub = [s for s in sub if len(s) >= 1]
            if sub:
                variants.append(dict(cons=[sub[0]], starts=st, ends=en))                     # constraint + additional start / end
        for vi, v in enumerate(variants):
            v = {k: ([[list(e) for e in c] for c in val] if k == "cons" else [list(e) for e in val] if k == "ignore" else val) for k, val in v.items()}
            yield _case("min", False, E, **v)
            if (vi + stride_seed) % 2 == 0 or (v.get("covlen") is not None and v["covlen"] < 1 and not v.get("ignore")):
                yield _case("k", False, E, dk=0, **v)
                yield _case("k", False, E, dk=-1, **v)
    # E. node cover
    for c in _kinds(False, E, ks=(0, -1, 1) if full else (0,), cover="node"):
        yield c
    if full:
        for i, v in enumerate(V):
            yield _case("min", False, E, cover="node", ignore=[v])
            if i == stride_seed % len(V):
                yield _case("k", False, E, cover="node", ignore=[v], dk=0)
        if cfgs:
            st, en = cfgs[-2] if len(cfgs) >= 3 else cfgs[0]
            yield _case("min", False, E, cover="node", starts=st, ends=en)
            yield _case("k", False, E, cover="node", starts=st, ends=en, dk=0)
        lp = max(paths, key=lambda p: (len(p), p))
        yield _case("min", False, E, cover="node", cons=[list(lp)])
        yield _case("min", False, E, cover="node", cons=[[lp[0], lp[-1]]], ignore=[lp[0]])
        yield _case("min", False, E, cover="node", cons=[list(lp)], cov=0.5, ignore=list(lp)[:-1] if len(lp) == len(V) else list(lp))
        yield _case("k", False, E, cover="node", cons=[list(lp)], dk=0)


def all_digraphs(n, names):
    pairs = [(i, j) for i in range(n) for j in range(n)]
    for mask in range(1, 1 << len(pairs)):
        ed = [(names[i], names[j]) for b, (i, j) in enumerate(pairs) if mask >> b & 1]
        if len(set(x for e in ed for x in e)) < n:
            continue
        yield ed


def _cyclic_instances(n, names):
    """(edges, starts, ends, natural) in the property's domain: every edge on a walk from a source / declared start to a sink / declared end"""
    for ed in all_digraphs(n, names):
        G = _build(ed)
        V = list(G.nodes())
        if nx.is_directed_acyclic_graph(G):
            continue
        inner_s = [v for v in V if G.in_degree(v) > 0]
        inner_t = [v for v in V if G.out_degree(v) > 0]
        opts = [((), ())] + [((a,), ()) for a in inner_s] + [((), (b,)) for b in inner_t] + [((a,), (b,)) for a in inner_s for b in inner_t]
        for st, en in opts:
            S, T = O.augmented(G, st, en)
            if not S or not T:
                continue
            if in_domain_cyclic(tuple(ed), (), st, en):
                yield ed, st, en, (not st and not en)


def _cyclic_family(ed, st, en, full, seed):
    E = list(ed)
    st, en = list(st), list(en)
    for c in _kinds(True, E, ks=(0, -1, 1) if full else (0, -1), width=True, starts=st, ends=en):
        yield c
    n = 0
    for r in (1, 2):
        for ign in itertools.combinations(E, r):
            if len(ign) >= len(E):
                continue
            n += 1
            if r == 2 and not full and (n + seed) % 3:
                continue
            yield _case("width", True, E, starts=st, ends=en, ignore=[list(e) for e in ign])
            if (r == 1 and (full or (n + seed) % 2 == 0)) or (r == 2 and full and (n + seed) % 5 == 0):
                yield _case("min", True, E, starts=st, ends=en, ignore=[list(e) for e in ign])
                if (n + seed) % 3 == 0:
                    yield _case("k", True, E, starts=st, ends=en, ignore=[list(e) for e in ign], dk=0)
                    yield _case("k", True, E, starts=st, ends=en, ignore=[list(e) for e in ign], dk=-1)
    for c in _width_sequences(True, E, st, en, seed):
        yield c
    routes = walk_routes(tuple(E), (), tuple(st), tuple(en))
    big = [sorted(e for e in r if isinstance(e, tuple)) for r in routes]
    big = sorted((b for b in big if len(b) >= 2), key=lambda b: (-len(b), b))
    if big and full:
        b = big[seed % len(big)]
        vs = [dict(cons=[[b[0], b[-1]]]), dict(cons=[b]), dict(cons=[b, b[:2]]), dict(cons=[b], cov=0.5, ignore=b[:-1] if len(b) == len(E) else b),
              dict(cons=[[b[0], b[0], b[-1]]])]
        if len(big) >= 2:
            vs.append(dict(cons=[big[0], big[-1]]))
        for vi, v in enumerate(vs):
            v = {k: ([[list(e) for e in c] for c in val] if k == "cons" else [list(e) for e in val] if k == "ignore" else val) for k, val in v.items()}
            yield _case("min", True, E, starts=st, ends=en, **v)
            if (vi + seed) % 2 == 0:
                yield _case("k", True, E, starts=st, ends=en, dk=0, **v)
                yield _case("k", True, E, starts=st, ends=en, dk=-1, **v)
    # node cover
    for c in _kinds(True, E, ks=(0, -1) if full else (0,), cover="node", starts=st, ends=en):
        yield c
    if full:
        V = sorted(set(x for e in E for x in e))
        if len(V) > 1:
            v = V[seed % len(V)]
            yield _case("min", True, E, cover="node", starts=st, ends=en, ignore=[v])
            yield _case("k", True, E, cover="node", starts=st, ends=en, ignore=[v], dk=0)
        nodesets = sorted((sorted(x for x in r if not isinstance(x, tuple)) for r in routes), key=lambda s: (-len(s), s))
        if nodesets and len(nodesets[0]) >= 2:
            yield _case("min", True, E, cover="node", starts=st, ends=en, cons=[nodesets[0]])


def cases(tier):
    quick = tier == "quick"
    # ---------------- DAGs
    for names, ns in ((graphs.NAMES1, (2, 3, 4) if quick else (2, 3, 4, 5)), (graphs.NAMES2, (2, 3, 4))):
        for n in ns:
            for gi, G in enumerate(graphs.dags(n, names)):
                if n == 5 and gi % (6 if not quick else 10 ** 9):
                    continue
                if names is graphs.NAMES2 and n == 4 and gi % (14 if quick else 2):
                    continue
                full = names is graphs.NAMES1 and (n <= 3 or (n == 4 and (not quick or gi % 2 == 0)) or gi % 24 == 0) or (names is graphs.NAMES2 and n <= 3)
                for c in _dag_family(G, full, gi):
                    yield c
    # curated DAG-side specials: isolated nodes, single node, the docs' example
    yield _case("min", False, [], nodes=["x"], cover="node")
    yield _case("k", False, [], nodes=["x"], cover="node", dk=0)
    yield _case("k", False, [], nodes=["x"], cover="node", dk=1)
    yield _case("min", False, [], nodes=["x", "y"], cover="node")
    for cover in ("edge", "node"):
        yield _case("min", False, [("x", "y")], nodes=["v"], cover=cover)
        yield _case("k", False, [("x", "y")], nodes=["v"], cover=cover, dk=0)
        yield _case("k", False, [("x", "y")], nodes=["v"], cover=cover, dk=-1)
    yield _case("width", False, [("x", "y")], nodes=["v"])
    # length-relaxed constraint whose light edge is not forced by the constraint (y->w alone reaches 60% of the length) but must be covered
    for ed, con, ln, cl in (([("x", "y"), ("z", "y"), ("y", "w")], [["x", "y"], ["y", "w"]], {"x|y": 1, "y|w": 3, "z|y": 1}, 0.6),
                            ([("x", "y"), ("x", "z"), ("y", "w"), ("z", "w")], [["x", "y"], ["y", "w"]], {"x|y": 5, "y|w": 1, "x|z": 1, "z|w": 1}, 0.5),
                            ([("x", "y"), ("y", "z"), ("y", "w"), ("v", "y")], [["x", "y"], ["y", "z"]], {"x|y": 1, "y|z": 9, "y|w": 2}, 0.9)):
        for names in (graphs.NAMES1, graphs.NAMES2):
            mp = dict(zip("xyzwv", names))
            ed2 = [(mp[a], mp[b]) for a, b in ed]
            kw = dict(cons=[[[mp[a], mp[b]] for a, b in con]], covlen=cl, lengths={"%s|%s" % tuple(mp[c] for c in k.split("|")): v for k, v in ln.items()})
            yield _case("min", False, ed2, **kw)
            yield _case("k", False, ed2, dk=0, **kw)
            yield _case("k", False, ed2, dk=-1, **kw)
    doc = [("s", "a"), ("s", "b"), ("a", "b"), ("a", "c"), ("b", "c"), ("c", "d"), ("c", "t"), ("d", "t")]
    for c in _kinds(False, doc, ks=(0, -1, 1), width=True):
        yield c
    yield _case("min", False, doc, cons=[[["a", "c"], ["c", "t"]]])
    yield _case("min", False, doc, cover="node")
    # ---------------- digraphs with cycles
    idx = 0
    for names, ns in ((graphs.NAMES1, (1, 2, 3)), (graphs.NAMES2, (2, 3))):
        for n in ns:
            for ed, st, en, natural in _cyclic_instances(n, names):
                idx += 1
                if names is graphs.NAMES2 and idx % (9 if quick else 3):
                    continue
                if n == 3 and not natural and idx % (32 if quick else 2):
                    continue
                full = natural or n <= 2 or idx % (96 if quick else 6) == 0
                for c in _cyclic_family(ed, st, en, full, idx):
                    yield c
    # four nodes: one source, one sink, cycles among the two inner nodes (natural sources / sinks only), strided
    nm = graphs.NAMES1
    inner = [(nm[1], nm[1]), (nm[1], nm[2]), (nm[2], nm[1]), (nm[2], nm[2])]
    outer = [(nm[0], nm[1]), (nm[0], nm[2]), (nm[0], nm[3]), (nm[1], nm[3]), (nm[2], nm[3])]
    gi = 0
    for im in range(1, 16):
        for om in range(1, 32):
            ed = [e for b, e in enumerate(outer) if om >> b & 1] + [e for b, e in enumerate(inner) if im >> b & 1]
            if len(set(x for e in ed for x in e)) < 4:
                continue
            if not in_domain_cyclic(tuple(ed), (), (), ()):
                continue
            gi += 1
            if gi % (9 if quick else 1):
                continue
            for c in _cyclic_family(ed, (), (), gi % (18 if quick else 1) == 0, gi):
                yield c
    # node names that look like generated auxiliary names ('z1', 'z2', ...): a width / cover computed through an auxiliary network must not confuse them
    ZN = ("z1", "z2", "z3", "z4", "z5")
    for n in (3, 4):
        for gi, G in enumerate(graphs.dags(n, ZN)):
            if gi % (5 if quick else 2) != 1:
                continue
            for c in _kinds(False, list(G.edges()), ks=(0,), width=True):
                yield c
    # one walk must traverse a bottleneck edge more often than the graph has nodes (13 times, 11 nodes): c->d, d->a_i, a_i->b_j complete 3x4, b_j->c
    A_, B_ = ["a1", "a2", "a3"], ["b1", "b2", "b3", "b4"]
    big = [("c", "d")] + [("d", a) for a in A_] + [(a, b) for a in A_ for b in B_] + [(b, "c") for b in B_]
    cert = []
    for a in A_:
        for b in B_:
            cert += ["c", "d", a, b]
    cert += ["c", "d"]
    yield _case("min", True, big, starts=["c"], ends=["d"], cert=cert)
    yield _case("k", True, big, starts=["c"], ends=["d"], cert=cert, dk=0)
    # two DIFFERENT ignored edges between the same pair of SCCs (both leave the 3-cycle for the sink): the bundle loses two units of multiplicity
    tri = [("s", "a"), ("a", "b"), ("b", "c"), ("c", "a"), ("a", "t"), ("b", "t"), ("c", "t")]
    for ign in ([["a", "t"], ["b", "t"]], [["b", "t"], ["c", "t"]], [["a", "t"], ["b", "t"], ["c", "t"]][:2] + [["s", "a"]][:0]):
        for c in _kinds(True, tri, ks=(0, -1), width=True, ignore=ign):
            yield c
    tri2 = [("s", "a"), ("s", "b"), ("a", "b"), ("b", "a"), ("a", "t")]
    for c in _kinds(True, tri2, ks=(0,), width=True, ignore=[["s", "a"]]):
        yield c
    # the cyclic cover models with each safe-sequence option switched away from its default (the cover rows must not depend on them)
    for ed in ([("s", "a"), ("a", "b"), ("b", "a"), ("a", "t")], d16_ := [("x", "y"), ("y", "z"), ("z", "y"), ("z", "w")], tri):
        for opts in ({"optimize_with_safe_sequences_allow_geq_constraints": False}, {"optimize_with_safe_sequences": False},
                     {"optimize_with_safe_sequences_fix_via_bounds": True}, {"optimize_with_safe_sequences_fix_zero_edges": False}):
            for c in _kinds(True, ed, ks=(0, 1), opts=opts):
                yield c
    # curated cyclic specials: the D16 witness shape, the docs' example
    d16 = [("x", "y"), ("y", "z"), ("z", "y"), ("z", "w")]
    for c in _kinds(True, d16, ks=(0, -1, 1), width=True):
        yield c
    yield _case("min", True, d16, cover="node")
    docc = [("s", "a"), ("a", "t"), ("s", "b"), ("b", "a"), ("a", "h"), ("h", "t"), ("b", "c"), ("c", "d"), ("c", "h"), ("d", "h"), ("d", "e"), ("e", "c"),
            ("e", "f"), ("f", "g"), ("g", "e")]
    yield _case("min", True, docc)
    yield _case("width", True, docc)
    yield _case("min", True, docc, cons=[[["b", "a"], ["a", "t"]]])


# ---------------------------------------------------------------------------------------------------------------------
# check

def _quiet():
    import logging
    logging.getLogger("flowpaths").setLevel(logging.CRITICAL + 1)


def _names(case):
    cyc, node = case["cyc"], case["cover"] == "node"
    return ("MinPathCoverCycles" if cyc else "MinPathCover", "kPathCoverCycles" if cyc else "kPathCover", "stDiGraph" if cyc else "stDAG",
            "walk" if cyc else "path", "node" if node else "edge")


def _kwargs(case, G):
    kw = dict(cover_type=case["cover"], elements_to_ignore=[_el(x) for x in case["ignore"]],
              additional_starts=list(case["starts"]), additional_ends=list(case["ends"]))
    cons = [[_el(x) for x in c] for c in case["cons"]]
    if case["cyc"]:
        kw.update(subset_constraints=cons, subset_constraints_coverage=case["cov"])
    else:
        kw.update(subpath_constraints=cons, subpath_constraints_coverage=case["cov"])
        if case.get("covlen") is not None:
            kw.update(subpath_constraints_coverage_length=case["covlen"], length_attr=LEN)
    if case.get("opts"):
        kw["optimization_options"] = dict(case["opts"])          # a documented optimisation switched away from its default: the cover must stay a minimum cover
    return kw


def _inst(case):
    s = "%s edges=%s" % ("digraph" if case["cyc"] else "DAG", [tuple(e) for e in case["edges"]])
    for k in ("nodes", "ignore", "starts", "ends", "cons"):
        if case[k]:
            s += " %s=%s" % (k, case[k])
    if case["cover"] != "edge":
        s += " cover_type=node"
    if case.get("opts"):
        s += " optimization_options=%s" % (case["opts"],)
    if case["cons"]:
        s += " coverage=%s" % case["cov"] if case.get("covlen") is None else " coverage_length=%s lengths=%s" % (case["covlen"], case["lengths"])
    return s


def _solution_clauses(case, G, routes, who, req, cons, cov, lengths):
    """coverage of every non-ignored element, constraints inside one route, every route a real source-to-sink route of the caller's graph"""
    _, _, _, rt, el = _names(case)
    elems = [_elements_of_path(r) for r in routes]
    for x in req:
        if not any(x in d for d in elems):
            return dict(ok=False, nontrivial=True, fingerprint="%s (%s cover) leaves a non-ignored %s on no returned %s" % (who, el, el, rt),
                        what="%s %r not on any of %s; %s" % (el, x, routes, _inst(case)), detail=dict(routes=routes))
    for c in cons:
        if not any(O.constraint_ok(d, c, cov, lengths) for d in elems):
            return dict(ok=False, nontrivial=True, fingerprint="%s (%s cover) returns no single %s honouring a constraint" % (who, el, rt),
                        what="constraint %s (coverage %s) in none of %s; %s" % (c, cov, routes, _inst(case)), detail=dict(routes=routes))
    for r in routes:
        ok, why = is_route(G, r, case["starts"], case["ends"], simple=not case["cyc"])
        if not ok:
            return dict(ok=False, nontrivial=True, fingerprint="%s (%s cover) returned a %s that is not a source-to-sink %s of the caller's graph" % (who, el, rt, rt),
                        what="%s: %s; %s" % (r, why, _inst(case)), detail=dict(routes=routes))
    return None


def check(case):
    _quiet()
    import flowpaths as fp
    edges, nodes = tuple(map(tuple, case["edges"])), tuple(case["nodes"])
    lengths_attr = None
    if case.get("lengths"):
        lengths_attr = {tuple(k.split("|")): v for k, v in case["lengths"].items()}
    G = _build(edges, nodes, lengths_attr)
    minname, kname, stname, rt, el = _names(case)
    opt, R, req, cons, cov, lengths = oracle_min(case)
    if not req:
        return dict(ok=None, nontrivial=False, what="no non-ignored element: outside the property's domain")
    if case["cyc"] and not case.get("cert") and not in_domain_cyclic(edges, nodes, tuple(case["starts"]), tuple(case["ends"])):
        return dict(ok=None, nontrivial=False, what="some edge lies on no source-to-sink walk: outside the property's domain")
    if case["cyc"] and case["cover"] == "edge" and len(edges) <= 5 and not case.get("cert"):
        R2 = [dict(r) for r in capped_walks(edges, nodes, tuple(case["starts"]), tuple(case["ends"]), 3)]
        opt2 = O.min_cover(R2, req, cons, cov, lengths, kmax=8)
        if opt2 != opt:
            return dict(ok=None, nontrivial=False, what="support oracle %s and capped multiplicity oracle %s disagree on %s" % (opt, opt2, _inst(case)))
    if opt is None:
        return dict(ok=None, nontrivial=False, what="no cover with <= 8 routes satisfies the constraints (constraint unsatisfiable?): %s" % _inst(case))
    nontrivial = len(edges) > 1 or len(nodes) > 0
    kind = case["kind"]

    if kind == "widthseq":
        cls = fp.stDiGraph if case["cyc"] else fp.stDAG
        g = cls(G, additional_starts=list(case["starts"]), additional_ends=list(case["ends"]))
        ss = list(g.source_sink_edges)
        got, exp, asked = [], [], []
        for i, ign in enumerate(case["seq"]):
            o = oracle_min(dict(case, ignore=ign))
            if not o[2] or o[0] is None:
                continue                                 # nothing left to cover: outside the domain of the width clause
            if i % 2:
                g.get_width()                            # an unrestricted call in between; its cached value must not leak
            try:
                got.append(g.get_width([_el(x) for x in ign] + ss))
            except Exception as e:          # a library exception on an in-domain ignore set is a failure of the width clause
                return dict(ok=False, nontrivial=True, fingerprint="%s.get_width raises when called repeatedly on one object with in-domain ignore sets" % stname,
                            what="%s: %s after ignore sets %s, now %s; %s" % (type(e).__name__, e, asked, ign, _inst(case)))
            exp.append(o[0])
            asked.append(ign)
        if got != exp:
            return dict(ok=False, nontrivial=True, fingerprint="%s.get_width called repeatedly on one object with different ignore sets differs from the minimum %s cover sizes" % (stname, rt),
                        what="ignore sets %s (each + source/sink edges): get_width = %s, oracle %s; %s" % (asked, got, exp, _inst(case)), detail=dict(width=got, oracle=exp))
        return dict(ok=True, nontrivial=len(set(exp)) > 1, detail=dict(widths=exp))

    if kind == "width":
        cls = fp.stDiGraph if case["cyc"] else fp.stDAG
        g = cls(G, additional_starts=list(case["starts"]), additional_ends=list(case["ends"]))
        arg = [_el(x) for x in case["ignore"]] + list(g.source_sink_edges)
        try:
            w1 = g.get_width(list(arg))
            g.get_width()                                   # fills the cache of the unrestricted width; must not leak into the next call
            w2 = g.get_width(list(arg))
        except Exception as e:
            return dict(ok=False, nontrivial=True, fingerprint="%s.get_width raises on an in-domain ignore set" % stname, what="%s: %s; %s" % (type(e).__name__, e, _inst(case)))
        if w1 != opt or w2 != opt:
            return dict(ok=False, nontrivial=True, fingerprint="%s.get_width(ignored + source/sink edges) differs from the minimum %s cover size" % (stname, rt),
                        what="get_width = %s (again after an unrestricted call: %s), oracle %s; %s" % (w1, w2, opt, _inst(case)), detail=dict(width=[w1, w2], oracle=opt))
        return dict(ok=True, nontrivial=nontrivial, detail=dict(width=opt))

    kw = _kwargs(case, G)
    key = "walks" if case["cyc"] else "paths"
    if kind == "min":
        cls = fp.MinPathCoverCycles if case["cyc"] else fp.MinPathCover
        try:
            m = cls(G, **kw)
            ok = m.solve()
            solved = bool(ok) and m.is_solved()
            sol = m.get_solution()[key] if solved else None
        except Exception as e:
            return dict(ok=False, nontrivial=True, fingerprint="%s (%s cover) raises %s on an instance of the domain" % (minname, el, type(e).__name__),
                        what="%s: %s; %s" % (type(e).__name__, e, _inst(case)), detail=dict(oracle=opt))
        if not solved:
            return dict(ok=False, nontrivial=True, fingerprint="%s (%s cover) unsolved although a cover exists" % (minname, el),
                        what="solve() = %s, oracle minimum %d; %s" % (ok, opt, _inst(case)), detail=dict(oracle=opt))
        if len(sol) != opt:
            return dict(ok=False, nontrivial=True, fingerprint="%s (%s cover) does not return a minimum number of %ss" % (minname, el, rt),
                        what="returned %d %ss %s, oracle minimum %d; %s" % (len(sol), rt, sol, opt, _inst(case)), detail=dict(routes=sol, oracle=opt))
        bad = _solution_clauses(case, G, sol, minname, req, cons, cov, lengths)
        if bad:
            return bad
        return dict(ok=True, nontrivial=nontrivial, detail=dict(k=opt))

    # kind == "k"
    k = opt + case["dk"]
    if k < 1:
        return dict(ok=True, nontrivial=False, detail=dict(skipped="k < 1"))
    cls = fp.kPathCoverCycles if case["cyc"] else fp.kPathCover
    try:
        m = cls(G, k=k, **kw)
        m.solve()
        solved = bool(m.is_solved())
        sol = m.get_solution()[key] if solved else None
    except Exception as e:
        return dict(ok=False, nontrivial=True, fingerprint="%s (%s cover) raises %s on an instance of the domain" % (kname, el, type(e).__name__),
                    what="%s: %s; k=%d (oracle minimum %d) %s" % (type(e).__name__, e, k, opt, _inst(case)), detail=dict(oracle=opt))
    if solved and k < opt:
        return dict(ok=False, nontrivial=True, fingerprint="%s (%s cover) solved with k below the minimum cover size" % (kname, el),
                    what="k=%d solved with %s, oracle minimum %d; %s" % (k, sol, opt, _inst(case)), detail=dict(routes=sol, oracle=opt))
    if not solved and k >= opt:
        return dict(ok=False, nontrivial=True, fingerprint="%s (%s cover) unsolved with k at or above the minimum cover size" % (kname, el),
                    what="k=%d unsolved, oracle minimum %d; %s" % (k, opt, _inst(case)), detail=dict(oracle=opt))
    if solved:
        if len(sol) > k:
            return dict(ok=False, nontrivial=True, fingerprint="%s (%s cover) returns more than k %ss" % (kname, el, rt),
                        what="k=%d, returned %s; %s" % (k, sol, _inst(case)), detail=dict(routes=sol))
        bad = _solution_clauses(case, G, sol, kname, req, cons, cov, lengths)
        if bad:
            return bad
    return dict(ok=True, nontrivial=nontrivial, detail=dict(k=k, oracle=opt, solved=solved))


def run(tier="quick", seed=0, chunk=0, nchunks=1):
    from vf.bounded import run_cases
    return run_cases(cases(tier), check, chunk, nchunks, engine="rc",
                     rule="DAGs: all on <=4 named nodes (thorough: every 6th on 5), two naming schemes; digraphs with cycles: all on <=3 nodes incl. self-loops x every choice of <=1 additional "
                          "start and <=1 additional end putting every edge on a source-to-sink walk (quick: strided), plus source/two-inner/sink 4-node digraphs (strided); per graph: "
                          "Min*Cover, k*Cover at k = optimum-1/optimum/optimum+1, get_width(ignore + source/sink edges) for every ignore set of size <=2 leaving an edge, and sequences of get_width calls "
                          "on one object with different ignore sets in different orders; edge and node cover, "
                          "ignored elements, additional starts/ends, 1-2 subpath/subset constraints (contiguous, gapped, overlapping, duplicated, whole routes, over ignored edges; coverage 1, 0.5, "
                          "length coverage with and without ignored constraint edges); oracle = oracles.min_cover over all source-to-sink paths / all maximal walk supports (cross-checked with capped walk enumeration when <=5 edges); "
                          "non-trivial = more than one edge",
                     bounds="DAGs n<=%d; cyclic digraphs n<=3 (+4-node source/inner/inner/sink); ignore sets <=2; <=2 constraints; <=1 additional start and end; covers <=8 routes" % (4 if tier == "quick" else 5),
                     exhaustive=False)
