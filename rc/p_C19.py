"""C19 bounded stand-in: invalid inputs are rejected with ValueError (at construction, at the latest in solve()) and never
yield a model that claims to be solved; every input inside the documented domain (with >= 1 non-ignored weighted element) is
accepted without error.

Oracle = `valid(spec)`, a declarative validity predicate written from the class docstrings / docs (NOT from the code):
True = inside the documented domain, False = documented as outside, None = the documentation does not decide (never generated
as a verdict: such cases are skipped).  Cases = all 16 exported model classes x a few valid base instances x variants
(converse clause) and x every single corruption of a catalogue (pairs of corruptions in the thorough tier)."""
import copy
import logging

import networkx as nx

from rc import graphs

# ----------------------------------------------------------------------------------------------------------------------
#  class tables (from the docstrings)
# ----------------------------------------------------------------------------------------------------------------------
DAG_FLOW_K = ("kFlowDecomp", "kMinPathError", "kLeastAbsErrors")
CYC_FLOW_K = ("kFlowDecompCycles", "kMinPathErrorCycles", "kLeastAbsErrorsCycles")
DAG_COVER = ("kPathCover", "MinPathCover")
CYC_COVER = ("kPathCoverCycles", "MinPathCoverCycles")
DAG_CLASSES = DAG_FLOW_K + ("MinFlowDecomp",) + DAG_COVER
CYC_CLASSES = CYC_FLOW_K + ("MinFlowDecompCycles",) + CYC_COVER
FLOW_CLASSES = DAG_FLOW_K + CYC_FLOW_K + ("MinFlowDecomp", "MinFlowDecompCycles")
COVER_CLASSES = DAG_COVER + CYC_COVER
K_CLASSES = DAG_FLOW_K + CYC_FLOW_K + ("kPathCover", "kPathCoverCycles")
K_NONE_DOCUMENTED = ("kMinPathError", "kMinPathErrorCycles", "kLeastAbsErrorsCycles")   # docstrings say that k=None means "use the width"; kPathCoverCycles only has None as an (undocumented) signature default: undecided
FD_CONSERVATION_DOCUMENTED = ("kFlowDecomp", "MinFlowDecomp", "MinFlowDecompCycles")                      # "Raises" sections
HAS_ERROR_SCALING = ("kMinPathError", "kLeastAbsErrors", "kMinPathErrorCycles", "kLeastAbsErrorsCycles", "MinErrorFlow")
NO_ADDITIONAL = ("kFlowDecomp",)
GRAPH_CLASSES = DAG_CLASSES + CYC_CLASSES + ("MinErrorFlow",)
ALL_CLASSES = GRAPH_CLASSES + ("NumPathsOptimization", "MinGenSet", "MinSetCover")
NPO_KEYS = ("model_type", "stop_on_first_feasible", "stop_on_delta_abs", "stop_on_delta_rel", "min_num_paths", "max_num_paths", "time_limit")


class Ty:
    """JSON token for a type / class object"""
    TABLE = {"int": int, "float": float, "str": str, "bool": bool, "complex": complex}


def enc(o):
    if isinstance(o, tuple):
        return {"__t": [enc(x) for x in o]}
    if isinstance(o, list):
        return [enc(x) for x in o]
    if isinstance(o, dict):
        if all(isinstance(k, str) for k in o):
            return {k: enc(v) for k, v in o.items()}
        return {"__d": [[enc(k), enc(v)] for k, v in o.items()]}
    if isinstance(o, type):
        return {"__ty": o.__name__}
    return o


def dec(o):
    if isinstance(o, list):
        return [dec(x) for x in o]
    if isinstance(o, dict):
        if "__t" in o:
            return tuple(dec(x) for x in o["__t"])
        if "__d" in o:
            return {dec(k): dec(v) for k, v in o["__d"]}
        if "__ty" in o:
            if o["__ty"] in Ty.TABLE:
                return Ty.TABLE[o["__ty"]]
            import flowpaths as fp
            return getattr(fp, o["__ty"])
        return {k: dec(v) for k, v in o.items()}
    return o


def build_graph(spec):
    G = nx.DiGraph()
    if spec.get("gid") is not None:
        G.graph["id"] = spec["gid"]
    for n, a in spec.get("nodes", []):
        G.add_node(n, **a)
    for u, v, a in spec.get("edges", []):
        G.add_edge(u, v, **a)
    return G


# ----------------------------------------------------------------------------------------------------------------------
#  the validity predicate (declarative; from the docstrings)
# ----------------------------------------------------------------------------------------------------------------------
def _is_pos_int(k):
    return isinstance(k, int) and not isinstance(k, bool) and k >= 1


def _num(x):
    return isinstance(x, (int, float)) and not isinstance(x, bool)


def valid(spec):
    """-> (True | False | None, [reasons]).  spec holds python objects (already decoded)."""
    cls, kw = spec["cls"], spec["kw"]
    bad, unk = [], []
    if cls == "MinSetCover":
        if not isinstance(kw.get("universe"), list) or not isinstance(kw.get("subsets"), list):
            unk.append("universe/subsets not lists")
        w = kw.get("subset_weights")
        if w is not None and (not isinstance(w, list) or len(w) != len(kw["subsets"])):
            unk.append("weights do not match the subsets")
        return (None if unk else True), unk
    if cls == "MinGenSet":
        if kw.get("weight_type", float) not in (int, float):
            bad.append("weight_type is not int or float")
        pc = kw.get("partition_constraints")
        if pc is not None:
            if not isinstance(pc, list) or not all(isinstance(c, list) for c in pc):
                bad.append("partition_constraints is not a list of lists")
            elif not all(all(_num(x) for x in c) and sum(c) == kw["total"] for c in pc):
                bad.append("a partition constraint does not sum to total")
            if kw.get("max_multiplicity", 1) > 1:
                bad.append("partition_constraints with max_multiplicity > 1")
        if not all(_num(x) and x >= 0 for x in kw["numbers"]) or not _num(kw["total"]):
            unk.append("numbers outside the obvious domain")
        return (False if bad else None if unk else True), bad + unk
    if cls == "NumPathsOptimization":
        inner = {k: v for k, v in kw.items() if k not in NPO_KEYS}
        if all(kw.get(c) is None for c in ("stop_on_first_feasible", "stop_on_delta_abs", "stop_on_delta_rel")):
            bad.append("no stopping criterion")
        if "k" in inner:
            bad.append("k passed to NumPathsOptimization")
        mt = kw["model_type"].__name__
        if mt not in DAG_FLOW_K:
            unk.append("model type outside the documented family")
        inner["k"] = 1
        v, why = valid(dict(spec, cls=mt, kw=inner))
        if v is False:
            bad += why
        elif v is None:
            unk += why
        return (False if bad else None if unk else True), bad + unk

    G = build_graph(spec)
    origin_key = "cover_type" if cls in COVER_CLASSES else "flow_attr_origin"
    origin = kw.get(origin_key, "edge")
    if origin not in ("edge", "node"):
        return False, ["%s is neither 'edge' nor 'node'" % origin_key]
    if "weight_type" in kw and kw["weight_type"] not in (int, float):
        bad.append("weight_type is not int or float")
    acyclic = nx.is_directed_acyclic_graph(G)
    if not all(isinstance(n, str) for n in G.nodes()):
        # the string requirement is documented on the s-t augmented graphs; MinErrorFlow builds none for a cyclic input
        (unk if (cls == "MinErrorFlow" and not acyclic) else bad).append("a node is not a string")
    if G.number_of_edges() == 0:
        unk.append("no edges")
    if cls in DAG_CLASSES and not acyclic:
        bad.append("the graph has a cycle but the model is for DAGs")
    starts, ends = kw.get("additional_starts", []), kw.get("additional_ends", [])
    if cls in NO_ADDITIONAL and (starts or ends):
        unk.append("class takes no additional starts/ends")
    mef_cyclic = cls == "MinErrorFlow" and not acyclic      # no s-t augmentation is documented for this case
    if any(n not in G for n in starts):
        (unk if mef_cyclic else bad).append("an additional start is not a node of the graph")
    if any(n not in G for n in ends):
        (unk if mef_cyclic else bad).append("an additional end is not a node of the graph")
    if starts or ends:
        if cls == "MinFlowDecomp" and origin == "edge":
            bad.append("MinFlowDecomp takes additional starts/ends only for node-weighted input")
        if cls == "MinFlowDecompCycles":
            unk.append("additional starts/ends of MinFlowDecompCycles are not described consistently")
        if cls == "MinErrorFlow" and not acyclic:
            unk.append("additional starts/ends of MinErrorFlow apply only to acyclic graphs")
    if cls in CYC_CLASSES:
        if not (any(G.in_degree(n) == 0 for n in G) or starts):
            bad.append("no source node and no additional start")
        if not (any(G.out_degree(n) == 0 for n in G) or ends):
            bad.append("no sink node and no additional end")
    if cls == "MinErrorFlow" and not acyclic and (not any(G.in_degree(n) == 0 for n in G) or not any(G.out_degree(n) == 0 for n in G)):
        unk.append("MinErrorFlow on a graph without source or sink")
    # k
    if cls in K_CLASSES:
        k = kw.get("k")
        if k is None:
            if cls not in K_NONE_DOCUMENTED:
                unk.append("k=None is not documented for this class")
        elif not _is_pos_int(k):
            bad.append("k is not a positive integer")
    # elements to ignore / error scaling / weights
    ign = kw.get("elements_to_ignore", [])
    scal = kw.get("error_scaling", {})
    if origin == "edge":
        if not all(isinstance(e, tuple) and len(e) == 2 for e in ign):
            unk.append("elements_to_ignore of wrong shape")
        elems = [((u, v), a) for u, v, a in G.edges(data=True)]
    else:
        if not all(isinstance(e, str) for e in ign):
            unk.append("elements_to_ignore of wrong shape")
        elems = [(n, a) for n, a in G.nodes(data=True)]
    if any(not _num(f) or f < 0 or f > 1 for f in scal.values()):
        unk.append("error scaling outside [0,1] (not part of this property's catalogue)")
    ignored = set(e for e in ign if isinstance(e, (tuple, str))) | set(e for e, f in scal.items() if f == 0)
    if cls in FLOW_CLASSES or cls == "MinErrorFlow":
        attr = kw["flow_attr"]
        weighted = 0
        positive = 0
        for e, a in elems:
            if e in ignored:
                if _num(a.get(attr, 0)) and a.get(attr, 0) < 0:
                    unk.append("negative weight on an ignored element (docstrings reject negative values without an exemption)")
                continue
            if attr not in a:
                if origin == "node":
                    continue            # documented: a node without the attribute is ignored automatically
                if cls == "MinErrorFlow":
                    unk.append("missing weight for MinErrorFlow is not documented")
                else:
                    bad.append("a non-ignored edge has no weight")
                continue
            if not _num(a[attr]):
                unk.append("non-numeric weight")
                continue
            if a[attr] < 0:
                if cls == "MinErrorFlow":
                    unk.append("negative weight for MinErrorFlow is not documented")
                else:
                    bad.append("a non-ignored element has a negative weight")
            weighted += 1
            positive += a[attr] > 0
        if weighted == 0 or positive == 0:
            unk.append("no non-ignored element with a positive weight")
        # conservation
        if cls in FLOW_CLASSES and ("FlowDecomp" in cls) and origin == "edge":
            cons = True
            for n in G:
                if G.in_degree(n) > 0 and G.out_degree(n) > 0 and n not in starts and n not in ends:
                    fin = [G.edges[e].get(attr) for e in G.in_edges(n)]
                    fout = [G.edges[e].get(attr) for e in G.out_edges(n)]
                    if any(not _num(x) for x in fin + fout):
                        cons = None
                        break
                    if abs(sum(fin) - sum(fout)) > 1e-9:
                        cons = False
            if cons is False:
                if cls in FD_CONSERVATION_DOCUMENTED and not ignored:
                    bad.append("the flow is not conserved and nothing is ignored")
                else:
                    unk.append("non-conserving flow where the docstring does not demand conservation")
    else:
        if not any(e not in ignored for e, _ in elems):
            unk.append("nothing to cover")
    # constraints
    ckey = "subpath_constraints" if cls in DAG_CLASSES else "subset_constraints"
    if ckey in kw:
        cs = kw[ckey]
        ok_shape = isinstance(cs, list) and all(isinstance(c, list) for c in cs)
        if not ok_shape:
            bad.append("constraints are not a list of lists")
        else:
            for c in cs:
                if len(c) == 0:
                    bad.append("empty constraint")
                elif origin == "edge" or all(isinstance(x, tuple) for x in c):
                    if not all(isinstance(x, tuple) and len(x) == 2 for x in c):
                        bad.append("a constraint element is not an edge (pair of nodes)")
                    elif not all(G.has_edge(*x) for x in c):
                        bad.append("a constraint names an edge that is not in the graph")
                elif all(isinstance(x, str) for x in c):
                    if not all(x in G for x in c):
                        bad.append("a constraint names a node that is not in the graph")
                else:
                    bad.append("a constraint mixes nodes and edges or holds other objects")
        cov = kw.get(ckey + "_coverage", 1.0)
        n_c = len(cs) if isinstance(cs, list) else 0
        if not _num(cov):
            unk.append("non-numeric coverage")
        elif not (0 < cov <= 1):
            (bad if n_c > 0 else unk).append("coverage outside (0,1]")
        covl = kw.get("subpath_constraints_coverage_length")
        if covl is not None:
            if not _num(covl):
                unk.append("non-numeric coverage length")
            elif not (0 < covl <= 1):
                (bad if n_c > 0 else unk).append("coverage length outside (0,1]")
            if kw.get("length_attr") is None or cov != 1:
                unk.append("coverage length without length_attr / together with coverage (not part of this property's catalogue)")
    if cls == "MinErrorFlow" and kw.get("sparsity_lambda", 0) != 0 and not acyclic:
        unk.append("sparsity on a cyclic graph (not part of this property's catalogue)")
    return (False if bad else None if unk else True), bad + unk


# ----------------------------------------------------------------------------------------------------------------------
#  base instances
# ----------------------------------------------------------------------------------------------------------------------
def _rename(names):
    return dict(zip(graphs.NAMES1, names))


# (name, acyclic, edges with a conserving positive flow, node weights that are a superposition of source-sink routes,
#  a two-edge constraint that lies on one route, an edge whose removal keeps one weighted element, a node to start / end at)
BASES = {
    "edge": dict(edges=[("x", "y", 2)], nodew={"x": 2, "y": 2}, con=[("x", "y")], ign=("x", "y"), mid=("x", "y")),
    "path": dict(edges=[("x", "y", 2), ("y", "z", 2)], nodew={"x": 2, "y": 2, "z": 2}, con=[("x", "y"), ("y", "z")], ign=("y", "z"), mid=("y", "y")),
    "diamond": dict(edges=[("x", "y", 3), ("x", "z", 2), ("y", "z", 1), ("y", "w", 2), ("z", "w", 3)], nodew={"x": 5, "y": 3, "z": 3, "w": 5},
                    con=[("x", "y"), ("y", "z")], ign=("y", "z"), mid=("y", "z")),
    "fork": dict(edges=[("x", "z", 1), ("y", "z", 2), ("z", "w", 2), ("z", "v", 1)], nodew={"x": 1, "y": 2, "z": 3, "w": 2, "v": 1},
                 con=[("y", "z"), ("z", "w")], ign=("x", "z"), mid=("z", "z")),
    "loop": dict(edges=[("x", "y", 2), ("y", "y", 1), ("y", "z", 2)], nodew={"x": 2, "y": 3, "z": 2}, con=[("x", "y"), ("y", "y")], ign=("y", "y"), mid=("y", "y")),
    "cycle": dict(edges=[("x", "y", 2), ("y", "z", 1), ("z", "y", 1), ("y", "w", 2)], nodew={"x": 2, "y": 3, "z": 1, "w": 2}, con=[("y", "z"), ("z", "y")],
                  ign=("z", "y"), mid=("y", "z")),
}
DAG_BASES = ("path", "diamond", "fork", "edge")
CYC_BASES = ("loop", "cycle")


def _graph_part(base, names, origin, wt, with_weights=True):
    b = BASES[base]
    r = _rename(names)
    conv = (lambda f: f) if wt is int else (lambda f: f * 1.5)
    if origin == "edge":
        edges = [(r[u], r[v], ({"flow": conv(f)} if with_weights else {})) for u, v, f in b["edges"]]
        nodes = []
    else:
        edges = [(r[u], r[v], {}) for u, v, f in b["edges"]]
        nodes = [(r[n], ({"flow": conv(f)} if with_weights else {})) for n, f in b["nodew"].items()]
    return nodes, edges


def base_spec(cls, base, names=graphs.NAMES1, origin="edge", wt=int, k=None, extra=None):
    """a valid spec of class `cls` on base graph `base`"""
    b = BASES[base]
    covers = cls in COVER_CLASSES
    nodes, edges = _graph_part(base, names, origin, wt, with_weights=not covers)
    kw = {}
    if covers:
        if origin != "edge":
            kw["cover_type"] = origin
    else:
        kw["flow_attr"] = "flow"
        kw["weight_type"] = wt
        if origin != "edge":
            kw["flow_attr_origin"] = origin
    if cls in K_CLASSES:
        kw["k"] = k if k is not None else len(b["edges"])
    kw.update(extra or {})
    return dict(cls=cls, gid="g_" + base, nodes=nodes, edges=edges, kw=kw)


def _ckey(cls):
    return "subpath_constraints" if cls in DAG_CLASSES else "subset_constraints"


def variants(cls, base, names, tier):
    """valid variants (label, spec) of class cls on a base graph"""
    b = BASES[base]
    r = _rename(names)
    E = lambda e: (r[e[0]], r[e[1]])
    out = []
    out.append(("plain edge-weighted, int", base_spec(cls, base, names)))
    if cls not in COVER_CLASSES:
        out.append(("plain edge-weighted, float", base_spec(cls, base, names, wt=float)))
    out.append(("node-weighted" if cls not in COVER_CLASSES else "cover_type=node", base_spec(cls, base, names, origin="node")))
    if cls == "MinErrorFlow":
        return out + _variants_tail(cls, base, names, tier, b, r, E)
    # constraints
    out.append(("one constraint, coverage 1", base_spec(cls, base, names, extra={_ckey(cls): [[E(e) for e in b["con"]]]})))
    out.append(("one constraint, coverage 0.5", base_spec(cls, base, names, extra={_ckey(cls): [[E(e) for e in b["con"]]], _ckey(cls) + "_coverage": 0.5})))
    out.append(("node-weighted, constraint as node list", base_spec(cls, base, names, origin="node", extra={_ckey(cls): [[r[b["con"][0][0]], r[b["con"][0][1]]]]})))
    return out + _variants_tail(cls, base, names, tier, b, r, E)


def _variants_tail(cls, base, names, tier, b, r, E):
    out = []
    s = base_spec(cls, base, names, extra={"elements_to_ignore": [E(b["ign"])]})
    out.append(("one ignored edge", s))
    if cls not in COVER_CLASSES:
        # a missing weight on an ignored edge is a documented use (NodeExpandedDiGraph example); a negative one is left
        # undecided by the predicate (the docstrings reject negative values without exempting ignored edges) and is dropped
        for lab, val in (("negative weight on an ignored edge", -1), ("missing weight on an ignored edge", None)):
            s2 = copy.deepcopy(s)
            for e in s2["edges"]:
                if (e[0], e[1]) == E(b["ign"]):
                    if val is None:
                        e[2].pop("flow")
                    else:
                        e[2]["flow"] = val
            out.append((lab, s2))
        s3 = base_spec(cls, base, names, origin="node")
        s3["nodes"][1][1].pop("flow")
        out.append(("node-weighted, one node without weight", s3))
    if cls in HAS_ERROR_SCALING:
        out.append(("error scaling 0.5 / 0 / 1", base_spec(cls, base, names, extra={"error_scaling": {E(b["edges"][0]): 0.5, E(b["ign"]): 0, E(b["edges"][-1]): 1}})))
    # additional starts / ends
    if cls not in NO_ADDITIONAL and cls not in ("MinFlowDecomp", "MinFlowDecompCycles"):
        out.append(("additional start and end", base_spec(cls, base, names, extra={"additional_starts": [r[b["mid"][0]]], "additional_ends": [r[b["mid"][1]]]})))
        out.append(("node-weighted, additional start and end", base_spec(cls, base, names, origin="node",
                                                                           extra={"additional_starts": [r[b["mid"][0]]], "additional_ends": [r[b["mid"][1]]]})))
    if cls == "MinFlowDecomp":
        out.append(("node-weighted, additional start and end", base_spec(cls, base, names, origin="node",
                                                                           extra={"additional_starts": [r[b["mid"][0]]], "additional_ends": [r[b["mid"][1]]]})))
    if cls in K_CLASSES:
        out.append(("k = 1", base_spec(cls, base, names, k=1)))
        if cls in K_NONE_DOCUMENTED:
            s = base_spec(cls, base, names)
            s["kw"]["k"] = None
            out.append(("k = None", s))
    if cls in DAG_FLOW_K:
        out.append(("solution_weights_superset", base_spec(cls, base, names, extra={"solution_weights_superset": [1, 2, 3]})))
    if cls in ("kMinPathError", "kLeastAbsErrors", "kMinPathErrorCycles", "kLeastAbsErrorsCycles", "MinErrorFlow"):
        s = base_spec(cls, base, names)
        s["edges"][0][2]["flow"] += 1                       # weights need not be a flow for the error models
        out.append(("non-conserving weights (error model)", s))
        s = base_spec(cls, base, names)
        s["edges"][-1][2]["flow"] = 0
        out.append(("one zero weight (error model)", s))
    if cls == "MinErrorFlow":
        out.append(("few_flow_values_epsilon", base_spec(cls, base, names, extra={"few_flow_values_epsilon": 0.5})))
        if base in DAG_BASES:
            out.append(("sparsity_lambda", base_spec(cls, base, names, extra={"sparsity_lambda": 1})))
    return out


def npo_wrap(spec, crit):
    s = copy.deepcopy(spec)
    mt = s["cls"]
    s["kw"].pop("k", None)
    import flowpaths as fp
    s["kw"]["model_type"] = getattr(fp, mt)
    s["kw"].update(crit)
    s["kw"]["max_num_paths"] = 4
    s["cls"] = "NumPathsOptimization"
    return s


NPO_CRIT = (("kMinPathError", {"stop_on_delta_abs": 1}), ("kLeastAbsErrors", {"stop_on_first_feasible": True}), ("kFlowDecomp", {"stop_on_first_feasible": True}))


# ----------------------------------------------------------------------------------------------------------------------
#  corruption catalogue: spec -> [(kind, corrupted spec)]
# ----------------------------------------------------------------------------------------------------------------------
def _map_nodes(o, f):
    if isinstance(o, tuple):
        return tuple(_map_nodes(x, f) for x in o)
    if isinstance(o, list):
        return [_map_nodes(x, f) for x in o]
    if isinstance(o, dict):
        return {_map_nodes(k, f): v for k, v in o.items()}
    return f(o)


def _rename_nodes(spec, f):
    s = copy.deepcopy(spec)
    s["nodes"] = [(f(n), a) for n, a in s["nodes"]]
    s["edges"] = [(f(u), f(v), a) for u, v, a in s["edges"]]
    for key in ("subpath_constraints", "subset_constraints", "elements_to_ignore", "additional_starts", "additional_ends", "error_scaling"):
        if key in s["kw"]:
            s["kw"][key] = _map_nodes(s["kw"][key], f)
    return s


def _inner_cls(spec):
    return spec["kw"]["model_type"].__name__ if spec["cls"] == "NumPathsOptimization" else spec["cls"]


def corruptions(spec):
    cls = _inner_cls(spec)
    kw = spec["kw"]
    out = []
    if cls in ("MinGenSet", "MinSetCover"):
        if cls == "MinGenSet":
            for lab, wt in (("a type other than int/float", str), ("a string naming the type", "int"), ("bool, a subclass of int", bool)):
                s = copy.deepcopy(spec)
                s["kw"]["weight_type"] = wt
                out.append(("unsupported weight_type (%s)" % lab, s))
            s = copy.deepcopy(spec)
            s["kw"]["partition_constraints"] = [[kw["total"] + 1]]
            out.append(("malformed constraint (partition does not sum to total)", s))
            s = copy.deepcopy(spec)
            s["kw"]["partition_constraints"] = [kw["total"]]
            out.append(("malformed constraint (partition constraints not a list of lists)", s))
            s = copy.deepcopy(spec)
            s["kw"]["partition_constraints"] = [[kw["total"]]]
            s["kw"]["max_multiplicity"] = 2
            out.append(("malformed constraint (partition constraints with max_multiplicity > 1)", s))
        return out
    covers = cls in COVER_CLASSES
    origin = kw.get("cover_type" if covers else "flow_attr_origin", "edge")
    G = build_graph(spec)
    nodes = list(G.nodes())
    inner = [n for n in nodes if G.in_degree(n) > 0 and G.out_degree(n) > 0]
    sources = [n for n in nodes if G.in_degree(n) == 0]
    sinks = [n for n in nodes if G.out_degree(n) == 0]
    ign = set(kw.get("elements_to_ignore", [])) | set(e for e, f in kw.get("error_scaling", {}).items() if f == 0)
    has_w = not covers

    def wattr(f):
        return {"flow": f} if (has_w and origin == "edge") else {}

    # 1 non-string nodes
    pick = inner[0] if inner else nodes[0]
    out.append(("non-string node (one int node)", _rename_nodes(spec, lambda n: 7 if n == pick else n)))
    idx = {n: i for i, n in enumerate(nodes)}
    out.append(("non-string nodes (all int)", _rename_nodes(spec, lambda n: idx.get(n, n))))
    # 2 cycle into a DAG model
    if cls in DAG_CLASSES and nx.is_directed_acyclic_graph(G):
        if inner:
            s = copy.deepcopy(spec)
            s["edges"].append((inner[0], inner[0], wattr(1)))
            out.append(("cyclic graph given to a DAG model (self-loop)", s))
        for u, v in G.edges():
            if u in inner or v in inner:
                s = copy.deepcopy(spec)
                for e in s["edges"]:
                    if (e[0], e[1]) == (u, v) and "flow" in e[2]:
                        e[2]["flow"] += 1
                s["edges"].append((v, u, wattr(1)))
                out.append(("cyclic graph given to a DAG model (2-cycle)", s))
                break
    # 3 no source / no sink for a cyclic model
    if cls in CYC_CLASSES and not kw.get("additional_starts") and not kw.get("additional_ends"):
        if len(sources) == 1 and len(sinks) == 1:
            tot = sum(G.edges[e].get("flow", 0) for e in G.out_edges(sources[0])) if origin == "edge" else 0
            s = copy.deepcopy(spec)
            s["edges"].append((sinks[0], sources[0], wattr(tot)))
            out.append(("graph without source and without sink given to a cyclic model", s))
        if len(sources) == 1:
            s = copy.deepcopy(spec)
            s["edges"].append((sources[0], sources[0], wattr(1)))
            out.append(("graph without source given to a cyclic model", s))
        if len(sinks) == 1:
            s = copy.deepcopy(spec)
            s["edges"].append((sinks[0], sinks[0], wattr(1)))
            out.append(("graph without sink given to a cyclic model", s))
    # 4/5/6 weights
    if has_w and cls != "MinErrorFlow":
        if origin == "edge":
            tgt = [i for i, e in enumerate(spec["edges"]) if (e[0], e[1]) not in ign and "flow" in e[2]]
            if tgt:
                i = tgt[len(tgt) // 2]
                s = copy.deepcopy(spec)
                s["edges"][i][2]["flow"] = -1
                out.append(("negative weight on a non-ignored edge", s))
                s = copy.deepcopy(spec)
                for j in tgt:
                    s["edges"][j][2]["flow"] = -s["edges"][j][2]["flow"]
                out.append(("negative weights on all edges (conserving)", s))
                s = copy.deepcopy(spec)
                s["edges"][i][2].pop("flow")
                out.append(("missing weight on a non-ignored edge", s))
                if cls in FD_CONSERVATION_DOCUMENTED and not ign and inner:
                    s = copy.deepcopy(spec)
                    j = [q for q in tgt if s["edges"][q][0] in inner or s["edges"][q][1] in inner][0]
                    s["edges"][j][2]["flow"] += 1
                    out.append(("non-conserving flow, nothing ignored", s))
                    # an inner node whose incoming side carries 0 and whose outgoing side does not (it is no source: it has in-edges)
                    s = copy.deepcopy(spec)
                    vin = [v for v in inner if any(s["edges"][q][1] == v for q in tgt) and any(s["edges"][q][0] == v for q in tgt)]
                    if vin:
                        v0 = vin[0]
                        for q in tgt:
                            if s["edges"][q][1] == v0:
                                s["edges"][q][2]["flow"] = 0
                        out.append(("non-conserving flow, nothing ignored (zero in-flow at an inner node)", s))
                    if kw.get("weight_type", float) is int:
                        # the same imbalance of one unit on a flow of magnitude 2*10^9 (exact integers): relatively tiny, still not a flow
                        s = copy.deepcopy(spec)
                        for q in tgt:
                            s["edges"][q][2]["flow"] = int(s["edges"][q][2]["flow"]) * 2000000000
                        s["edges"][j][2]["flow"] += 1
                        out.append(("non-conserving flow, nothing ignored (large magnitude)", s))
        else:
            tgt = [i for i, n in enumerate(spec["nodes"]) if n[0] not in ign and "flow" in n[1]]
            if tgt:
                s = copy.deepcopy(spec)
                s["nodes"][tgt[len(tgt) // 2]][1]["flow"] = -1
                out.append(("negative weight on a non-ignored node", s))
    # 7 constraints
    if cls == "MinErrorFlow":
        return out + _corruptions_tail(spec, cls, kw, covers, has_w)
    ckey = _ckey(cls)
    some = list(G.edges())[0]
    absent_pair = next(((a, b) for a in nodes for b in nodes if a != b and not G.has_edge(a, b)), None)
    if origin == "edge":
        bads = [("constraint naming an edge with an unknown endpoint", [[(some[0], "q")]]),
                ("malformed constraints (flat list of edges, not a list of lists)", [some]),
                ("malformed constraint (empty list)", [[]]),
                ("malformed constraint (triple instead of an edge)", [[(some[0], some[1], some[1])]]),
                ("malformed constraint (node names instead of edges, edge-weighted input)", [[some[0], some[1]]])]
        if absent_pair:
            bads.append(("constraint naming an absent edge between existing nodes", [[absent_pair]]))
        if kw.get(ckey):
            bads.append(("constraint naming an absent edge next to a valid constraint", list(kw[ckey]) + [[(some[1], "q")]]))
    else:
        bads = [("constraint naming an unknown node (node-weighted input)", [["q"]]),
                ("malformed constraint (empty list)", [[]]),
                ("malformed constraints (flat list of nodes, not a list of lists)", [some[0]])]
    for lab, c in bads:
        s = copy.deepcopy(spec)
        s["kw"][ckey] = c
        s["kw"].pop(ckey + "_coverage", None)
        out.append((lab, s))
    # 8 coverage
    if kw.get(ckey):
        for c in (0, -0.5, 1.5):
            s = copy.deepcopy(spec)
            s["kw"][ckey + "_coverage"] = c
            out.append(("constraint coverage outside (0,1] (%s)" % ("zero" if c == 0 else "negative" if c < 0 else "above 1"), s))
        if cls in DAG_CLASSES:
            for c in (0, 1.5):
                s = copy.deepcopy(spec)
                s["kw"][ckey + "_coverage"] = 1.0
                s["kw"]["subpath_constraints_coverage_length"] = c
                s["kw"]["length_attr"] = "length"
                out.append(("constraint coverage length outside (0,1] (%s)" % ("zero" if c == 0 else "above 1"), s))
    return out + _corruptions_tail(spec, cls, kw, covers, has_w)


def _corruptions_tail(spec, cls, kw, covers, has_w):
    out = []
    # 9 k
    if cls in K_CLASSES and spec["cls"] != "NumPathsOptimization":
        for lab, k in (("k = 0", 0), ("negative k", -1), ("non-integer k", 1.5)):
            s = copy.deepcopy(spec)
            s["kw"]["k"] = k
            out.append((lab, s))
    # 10 weight type
    if has_w:
        for lab, wt in (("a type other than int/float", str), ("a string naming the type", "int"), ("bool, a subclass of int", bool)):
            s = copy.deepcopy(spec)
            s["kw"]["weight_type"] = wt
            out.append(("unsupported weight_type (%s)" % lab, s))
    # 11 origin
    s = copy.deepcopy(spec)
    s["kw"]["cover_type" if covers else "flow_attr_origin"] = "vertex"
    out.append(("unsupported %s" % ("cover_type" if covers else "flow_attr_origin"), s))
    # 12 unknown additional start / end
    if cls not in NO_ADDITIONAL:
        for key in ("additional_starts", "additional_ends"):
            s = copy.deepcopy(spec)
            s["kw"][key] = list(kw.get(key, [])) + ["q"]
            out.append(("unknown node in %s" % key, s))
    return out


# ----------------------------------------------------------------------------------------------------------------------
#  case enumeration
# ----------------------------------------------------------------------------------------------------------------------
def _bases_for(cls, tier):
    if cls in DAG_CLASSES:
        return DAG_BASES
    if cls in CYC_CLASSES:
        return CYC_BASES + ("diamond",)
    return DAG_BASES[1:2] + CYC_BASES      # MinErrorFlow


def _valid_specs(tier):
    for cls in GRAPH_CLASSES:
        for base in _bases_for(cls, tier):
            for names in (graphs.NAMES1, graphs.NAMES2):
                if names is graphs.NAMES2 and tier == "quick" and base not in ("diamond", "cycle"):
                    continue
                for lab, s in variants(cls, base, names, tier):
                    yield cls, base, lab, s
    for mt, crit in NPO_CRIT:
        for base in DAG_BASES:
            for lab, s in variants(mt, base, graphs.NAMES1, tier):
                if lab in ("k = 1", "k = None"):
                    continue
                yield "NumPathsOptimization", base, "%s, %s" % (mt, lab), npo_wrap(s, crit)
    for wt in (int, float):
        for numbers, total in (([1, 2, 3], 6), ([2, 4], 6), ([5], 5), ([1, 2, 4], 7), ([3], 10)):
            yield "MinGenSet", "numbers", "plain", dict(cls="MinGenSet", kw=dict(numbers=numbers, total=total, weight_type=wt))
        yield "MinGenSet", "numbers", "partition constraint", dict(cls="MinGenSet", kw=dict(numbers=[1, 2, 3], total=6, weight_type=wt, partition_constraints=[[1, 2, 3], [3, 3]]))
        yield "MinGenSet", "numbers", "max_multiplicity 2", dict(cls="MinGenSet", kw=dict(numbers=[2, 4], total=6, weight_type=wt, max_multiplicity=2))
    for uni, subs in (([1, 2, 3], [[1, 2], [2, 3], [3]]), (["a", "b"], [["a"], ["b"], ["a", "b"]]), ([1, 2], [[1]])):
        yield "MinSetCover", "sets", "explicit weights", dict(cls="MinSetCover", kw=dict(universe=uni, subsets=subs, subset_weights=[1] * len(subs)))
        yield "MinSetCover", "sets", "default weights", dict(cls="MinSetCover", kw=dict(universe=uni, subsets=subs))


CORRUPT_FROM = ("plain edge-weighted, int", "one constraint, coverage 1", "node-weighted", "cover_type=node", "one ignored edge")


def cases(tier):
    seen = set()

    def emit(d):
        key = repr(d)
        if key in seen:
            return None
        seen.add(key)
        return d

    bases_for_corruption = []
    for cls, base, lab, s in _valid_specs(tier):
        v, why = valid(s)
        if v is not True:
            continue                # the docs do not decide this variant (never generated as a verdict)
        c = emit(dict(cls=cls, base=base, variant=lab, corrupt=None, expect=v, spec=enc(s)))
        if c:
            yield c
        inner_lab = lab.split(", ", 1)[1] if cls == "NumPathsOptimization" else lab
        if v is True and (inner_lab in CORRUPT_FROM or cls in ("MinGenSet",)):
            if cls == "NumPathsOptimization" and not lab.startswith("kMinPathError"):
                continue
            bases_for_corruption.append((cls, base, lab, s))
    for cls, base, lab, s in bases_for_corruption:
        cs = corruptions(s)
        for kind, s2 in cs:
            v, why = valid(s2)
            if v is not False:
                continue            # the corruption did not leave the documented domain (or the docs do not decide): not a C19 case
            c = emit(dict(cls=cls, base=base, variant=lab, corrupt=kind, expect=False, spec=enc(s2)))
            if c:
                yield c
        if tier == "thorough" and cls in GRAPH_CLASSES and lab in ("plain edge-weighted, int", "one constraint, coverage 1", "node-weighted", "cover_type=node"):
            # pairs of corruptions: a second corruption of a different family on top of the first
            for (k1, s1) in cs:
                if valid(s1)[0] is not False:
                    continue
                try:
                    second = corruptions(s1)
                except Exception:
                    continue            # the first corruption made the spec unusable for the generator itself
                for k2, s2 in second:
                    if family(k2) <= family(k1) or valid(s2)[0] is not False:
                        continue        # unordered pairs of different families, once
                    c = emit(dict(cls=cls, base=base, variant=lab, corrupt=k1 + " + " + k2, expect=False, spec=enc(s2)))
                    if c:
                        yield c


FAMILIES = ("non-string", "cyclic graph", "graph without", "negative weight", "missing weight", "non-conserving", "constraint coverage", "constraint naming",
            "malformed constraint", "k = 0", "negative k", "non-integer k", "unsupported weight_type", "unsupported flow_attr_origin", "unsupported cover_type", "unknown node in")
FAMILY_OF = {"k = 0": "k", "negative k": "k", "non-integer k": "k", "constraint naming": "constraints", "malformed constraint": "constraints",
             "negative weight": "weights", "missing weight": "weights", "unsupported flow_attr_origin": "origin", "unsupported cover_type": "origin"}


def family(kind):
    for f in FAMILIES:
        if kind.startswith(f):
            return FAMILY_OF.get(f, f)
    return kind


# ----------------------------------------------------------------------------------------------------------------------
#  check
# ----------------------------------------------------------------------------------------------------------------------
def _quiet():
    logging.getLogger("flowpaths").setLevel(logging.CRITICAL + 1)
    try:
        import flowpaths.utils as u
        u.logger.setLevel(logging.CRITICAL + 1)
    except Exception:
        pass


def construct(spec):
    import flowpaths as fp
    cls = getattr(fp, spec["cls"])
    kw = dict(spec["kw"])
    if spec["cls"] in ("MinGenSet", "MinSetCover"):
        return cls(**kw)
    G = build_graph(spec)
    if spec["cls"] == "NumPathsOptimization":
        return cls(G=G, **kw)
    return cls(G, **kw)


def _claims_solved(m):
    try:
        return m.is_solved() is True
    except Exception:
        return False


def check(case):
    _quiet()
    spec = dec(case["spec"])
    cls = case["cls"]
    v, why = valid(spec)
    if v is None:
        return dict(ok=True, nontrivial=False, detail=dict(skipped="documentation does not decide: %s" % why))
    kind = case["corrupt"] or case["variant"]
    stage, exc, m = "construct", None, None
    try:
        m = construct(spec)
        stage = "solve"
        solved_ret = m.solve()
        stage = "done"
    except (Exception, SystemExit) as e:
        exc = e
    claims = _claims_solved(m) if m is not None else False
    obs = "stage=%s exception=%s claims_solved=%s" % (stage, (type(exc).__name__ + ": " + str(exc)[:160]) if exc else None, claims)
    what = "%s on base %s (%s); %s; predicate: %s; spec=%s" % (cls, case["base"], case["variant"], obs, why, str(case["spec"])[:700])
    if v is True:
        if exc is not None:
            return dict(ok=False, nontrivial=True, fingerprint="%s: valid input rejected (%s): %s at %s" % (cls, _generic(case["variant"]), type(exc).__name__, stage),
                        what=what, detail=dict(exception=repr(exc)[:300]))
        return dict(ok=True, nontrivial=True, detail=dict(accepted=True, solved=claims))
    # invalid input
    if exc is not None and claims:
        return dict(ok=False, nontrivial=True, fingerprint="%s: %s -> exception but the model claims to be solved" % (cls, _generic(kind)), what=what)
    if isinstance(exc, ValueError):
        return dict(ok=True, nontrivial=True, detail=dict(rejected_at=stage))
    if exc is not None:
        return dict(ok=False, nontrivial=True, fingerprint="%s: %s -> %s instead of ValueError (at %s)" % (cls, _generic(kind), type(exc).__name__, stage), what=what,
                    detail=dict(exception=repr(exc)[:300]))
    if claims:
        return dict(ok=False, nontrivial=True, fingerprint="%s: %s -> accepted and the model claims to be solved" % (cls, _generic(kind)), what=what)
    return dict(ok=False, nontrivial=True, fingerprint="%s: %s -> no ValueError at construction or in solve() (model reported unsolved)" % (cls, _generic(kind)), what=what)


def _generic(label):
    """class-level part of a variant / corruption label (drop the inner model name of NumPathsOptimization variants; pairs of
    corruptions are named by their two families only)"""
    if " + " in label:
        return "pair of corruptions [%s]" % " + ".join(sorted(family(k) for k in label.split(" + ")))
    for mt in DAG_FLOW_K:
        if label.startswith(mt + ", "):
            return "inner " + mt + ": " + label[len(mt) + 2:]
    return label


def run(tier="quick", seed=0, chunk=0, nchunks=1):
    from vf.bounded import run_cases
    return run_cases(cases(tier), check, chunk, nchunks, engine="rc",
                     rule="16 exported model classes x base instances (3 DAGs, 2 cyclic graphs, number/set instances; two node-naming schemes) x valid variants "
                          "(weight type, node-weighted, constraints, ignored elements incl. negative/missing weights on ignored ones, additional starts/ends, k=None, "
                          "weight supersets, error-model weights) for the converse clause; x every single corruption of the catalogue (non-string nodes, cycle to a DAG "
                          "model, no source/sink to a cyclic model, negative/missing weights, non-conserving flow, absent/malformed constraints, coverage outside (0,1], "
                          "k<=0 / non-integer k, unsupported weight_type / origin / cover_type, unknown additional starts/ends)%s; expected verdict from a declarative "
                          "validity predicate written from the docstrings; cases the docs do not decide are not generated; non-trivial = the predicate decided the case"
                          % (" and pairs of corruptions" if tier == "thorough" else ""),
                     bounds="graphs with <=5 nodes and <=5 edges, weights <=5, k<=5, one or two constraints, single corruptions%s" % (" and pairs" if tier == "thorough" else ""))
