"""Helpers shared by the RC harnesses: graph (de)serialisation, exact recomputation, route validity."""
from fractions import Fraction
import networkx as nx

TOL = 1e-6


def mkgraph(edges, attr="flow", gid="g", node_attr=None):
    """edges: list of (u, v, value|None)"""
    G = nx.DiGraph()
    G.graph["id"] = gid
    for u, v, f in edges:
        if f is None:
            G.add_edge(u, v)
        else:
            G.add_edge(u, v, **{attr: f})
    for n, val in (node_attr or {}).items():
        if n not in G:
            G.add_node(n)
        if val is not None:
            G.nodes[n][attr] = val
    return G


def edges_of(G, attr="flow"):
    return [(u, v, d.get(attr)) for u, v, d in G.edges(data=True)]


def close(a, b, wt=float):
    if wt is int:
        return Fraction(a) == Fraction(b)
    return abs(float(a) - float(b)) <= TOL * (1 + abs(float(b)))


def is_route(G, r, starts=(), ends=(), simple=False):
    """r is a list of nodes: consecutive pairs are edges of G, starts at an in-degree-0 node or declared start, ends dually"""
    if len(r) == 0:
        return False, "empty route"
    for n in r:
        if n not in G:
            return False, "node %r is not a node of the caller's graph" % (n,)
    for a, b in zip(r, r[1:]):
        if not G.has_edge(a, b):
            return False, "(%r,%r) is not an edge of the caller's graph" % (a, b)
    if not (G.in_degree(r[0]) == 0 or r[0] in starts):
        return False, "starts at %r which has incoming edges and is not an additional start" % (r[0],)
    if not (G.out_degree(r[-1]) == 0 or r[-1] in ends):
        return False, "ends at %r which has outgoing edges and is not an additional end" % (r[-1],)
    if simple and len(set(r)) != len(r):
        return False, "path repeats a node"
    return True, ""


def traversals(routes):
    m = {}
    for i, r in enumerate(routes):
        for e in zip(r, r[1:]):
            m.setdefault(e, {})
            m[e][i] = m[e].get(i, 0) + 1
    return m


def explained(routes, weights, e):
    t = traversals(routes).get(e, {})
    return sum(Fraction(weights[i]).limit_denominator(10 ** 9) * c for i, c in t.items())
