"""C04 bounded stand-in: MinFlowDecompCycles on small digraphs with cycles vs an exact walk-enumeration oracle.

Clauses (taken from the property statement):
  S   solve() succeeds on every positive integer flow that is a superposition of source-to-sink walks
      (also with subset constraints that some decomposition satisfies; every option set of the walk model)
  V   what is returned is a decomposition (walks of the caller's graph, flow explained exactly) - precondition of M
  K   every subset constraint lies, to the requested coverage, inside a single returned walk
  M   the number of returned walks equals the minimum over integer-weighted walk decompositions (int weights)
  R   float weights: scaling all flows by a common positive factor changes neither solved-ness nor the number of walks
      (known open defect D17: the repetition cap of an edge inside one walk is taken from the edge's flow value)

Oracle: explicit enumeration of all s-t walks as connected balanced multiplicity vectors.  For integer weights a walk
that carries weight >= 1 cannot use an edge more often than its flow value, so caps = flow values are exact; the minimum
is found by exhaustive search over multisets of (walk, weight>=1) - certified by enumeration.  A walk of weight 0 is
accepted in a library answer (the statement does not exclude it), so M only fails when the library uses MORE walks
than the exact minimum with positive weights."""
import itertools
from fractions import Fraction
import networkx as nx
from rc import graphs, oracles as O
from rc.common import mkgraph, is_route, explained, close, traversals

SCALES = ("2", "5/2", "1/2", "1/10")
OPTION_SETS = (
    {"optimize_with_safe_sequences": False},
    {"optimize_with_safe_sequences": False, "optimize_with_safety_as_subset_constraints": True},
    {"optimize_with_safe_sequences": False, "optimize_with_max_safe_antichain_as_subset_constraints": True},
    {"optimize_with_safe_sequences_allow_geq_constraints": False},
    {"optimize_with_safe_sequences_fix_via_bounds": True},
    {"optimize_with_safe_sequences_fix_zero_edges": False},
    {"use_min_gen_set_lowerbound": True},
    {"optimize_with_guessed_weights": True, "use_min_gen_set_lowerbound": True},
)


# ------------------------------------------------------------------------------------------------ universe

def _on_st_walk(G):
    S = [v for v in G if G.in_degree(v) == 0]
    T = [v for v in G if G.out_degree(v) == 0]
    if not S or not T:
        return False
    fw, bw = set(S), set(T)
    for s in S:
        fw |= nx.descendants(G, s)
    for t in T:
        bw |= nx.ancestors(G, t)
    return all(u in fw and v in bw for u, v in G.edges())


def scc_edges(G):
    comp = {}
    for i, c in enumerate(nx.strongly_connected_components(G)):
        for v in c:
            comp[v] = i
    return {(u, v) for u, v in G.edges() if comp[u] == comp[v]}


def inner4(names):
    """one source, one sink, two inner nodes: every subset of the 9 possible edges (cycles only among inner nodes)"""
    x, y, z, w = names[:4]
    cand = [(x, y), (x, z), (x, w), (y, y), (y, z), (z, y), (z, z), (y, w), (z, w)]
    for mask in range(1, 1 << len(cand)):
        G = nx.DiGraph()
        for b, e in enumerate(cand):
            if mask >> b & 1:
                G.add_edge(*e)
        yield G


def multi4(names):
    """two sources or two sinks around one inner 2-cycle / self-loop (several sources/sinks allowed by the statement)"""
    x, y, z, w, v = names[:5]
    for E in ([(x, y), (v, y), (y, y), (y, w)], [(x, y), (y, z), (z, y), (y, w), (z, v)], [(x, y), (v, z), (y, z), (z, y), (z, w)],
              [(x, y), (v, y), (y, z), (z, y), (z, z), (z, w)], [(x, y), (y, y), (y, w), (y, v)], [(x, y), (v, z), (y, z), (z, y), (y, w), (z, w)]):
        yield nx.DiGraph(E)


def cyclic_graphs(tier, names):
    out = []
    for G in graphs.digraphs(3, names):
        if _on_st_walk(G) and not nx.is_directed_acyclic_graph(G):
            out.append(G)
    for G in inner4(names):
        if _on_st_walk(G) and not nx.is_directed_acyclic_graph(G):
            out.append(G)
    out.extend(multi4(names))
    if tier != "quick":
        n = 0
        for G in graphs.digraphs(4, names):       # any number of sources/sinks, cycles through any non-source non-sink nodes
            if G.number_of_edges() <= 8 and _on_st_walk(G) and not nx.is_directed_acyclic_graph(G):
                n += 1
                if n % 23 == 0:
                    out.append(G)
    return out


def walk_flows(G, maxmult=2, weightsets=((1,), (2,), (1, 1), (1, 2), (2, 3), (1, 1, 2), (1, 2, 3))):
    """positive integer flows that are superpositions of <=3 walks (multiplicities <= maxmult inside cycles) with weights <= 3"""
    se = scc_edges(G)
    R = O.routes_walks(G, {e: (maxmult if e in se else 1) for e in G.edges()})
    R = sorted(R, key=lambda m: sorted(m.items()))
    seen, out = set(), []
    for ws in weightsets:
        for combo in itertools.combinations(range(len(R)), len(ws)):
            f = {e: 0 for e in G.edges()}
            for w, ri in zip(ws, combo):
                for e, c in R[ri].items():
                    f[e] += w * c
            if all(x > 0 for x in f.values()):
                key = tuple(sorted(f.items()))
                if key not in seen:
                    seen.add(key)
                    out.append(f)
    return out


def _spread(lst, n):
    if len(lst) <= n:
        return list(lst)
    step = len(lst) / float(n)
    return [lst[int(i * step)] for i in range(n)]


def _constraint_sets(G, f):
    """a few subset-constraint lists: single edge, cycle edge + exit, two constraints, duplicated, non-adjacent pair"""
    E = sorted(G.edges())
    se = sorted(scc_edges(G))
    nse = [e for e in E if e not in se]
    out = []
    if se and nse:
        out.append(([[se[0], nse[-1]]], 1.0))
        out.append(([[se[0], nse[0]], [se[-1]]], 1.0))
        out.append(([[se[0], nse[0], nse[-1]]], 0.5))
    if len(nse) >= 2:
        out.append(([[nse[0], nse[-1]], [nse[0], nse[-1]]], 1.0))
    return out


def cases(tier):
    quick = tier == "quick"
    nflows = 3 if quick else 6
    for names in (graphs.NAMES1, graphs.NAMES2):
        Gs = cyclic_graphs(tier, names)
        for gi, G in enumerate(Gs):
            if names is graphs.NAMES2 and gi % (9 if quick else 3):
                continue
            if quick and G.number_of_edges() > 8:
                continue
            fl = _spread(walk_flows(G), nflows)
            for fi, f in enumerate(fl):
                edges = [(u, v, f[(u, v)]) for u, v in sorted(G.edges())]
                yield dict(kind="min", edges=edges, wt="int", cons=[], cov=1.0, opts={})
                if names is graphs.NAMES2:
                    continue
                if fi == 0 or not quick:
                    yield dict(kind="scale", edges=edges, scales=list(SCALES), opts={})
                if (gi + fi) % (3 if quick else 1) == 0:
                    for cons, cov in _constraint_sets(G, f)[: (2 if quick else 4)]:
                        yield dict(kind="min", edges=edges, wt="int", cons=[[list(e) for e in c] for c in cons], cov=cov, opts={})
                if (gi + fi) % (8 if quick else 2) == 0:
                    for opts in OPTION_SETS:
                        yield dict(kind="min", edges=edges, wt="int", cons=[], cov=1.0, opts=opts)
    # witness of D17 (DESIGN section 4): flows 1,2,1,1 decompose into one walk; scaled by 1/2 or 1/10 the model is reported unsolved
    yield dict(kind="scale", edges=[("x", "y", 1), ("y", "z", 2), ("z", "y", 1), ("z", "w", 1)], scales=list(SCALES), opts={})
    yield dict(kind="min", edges=[("x", "y", 1), ("y", "z", 2), ("z", "y", 1), ("z", "w", 1)], wt="int", cons=[], cov=1.0, opts={})
    # a closed safe sequence (a 5-cycle entered twice and left twice at one node): backward and forward reachability queries hit the same node
    yield dict(kind="min", edges=[("r", "a", 1), ("s", "a", 1), ("a", "b", 3), ("b", "c", 3), ("c", "d", 3), ("d", "e", 3), ("e", "a", 3), ("a", "t", 1), ("a", "z", 1)],
               wt="int", cons=[], cov=1.0, opts={})
    # one walk whose weight equals the largest flow value, odd: under the factor 5/2 the largest value is not an integer (bounds derived from it must not be truncated)
    for w in (1, 3):
        yield dict(kind="scale", edges=[("x", "y", w), ("y", "z", w), ("z", "y", w), ("y", "w", w)], scales=list(SCALES), opts={})
        yield dict(kind="scale", edges=[("x", "y", w), ("y", "z", 2 * w), ("z", "y", w), ("z", "w", w), ("x", "v", 2 * w + 1), ("v", "w", 2 * w + 1)], scales=list(SCALES), opts={})


# ------------------------------------------------------------------------------------------------ oracle

def int_routes(G, flow):
    """all walks that can carry weight >= 1 in a decomposition of `flow`: multiplicity(e) <= flow(e) (exact), <= 1 outside cycles"""
    se = scc_edges(G)
    return O.routes_walks(G, {e: (int(flow[e]) if e in se else 1) for e in G.edges()})


def fd_min_int(R, flow, constraints=(), coverage=1.0, kmax=6):
    """exact minimum number of (walk, integer weight >= 1) pairs explaining `flow`, each constraint inside one chosen walk.
    Exhaustive search: iterative deepening on k; some walk must cover the edge with the smallest positive remainder, so we
    branch on the walks through it; failures are memoised per (remainder, constraints met, walks left).  None = no
    decomposition with <= kmax walks (outside the checked domain)."""
    E = sorted(flow)
    constraints = [sorted(set(c)) for c in constraints]
    Rl = [r for r in R if all(r.get(e, 0) <= flow[e] for e in E) and all(e in flow for e in r)]
    vec = [tuple(r.get(e, 0) for e in E) for r in Rl]
    sat = [sum(1 << j for j, c in enumerate(constraints) if O.constraint_ok(r, c, coverage)) for r in Rl]
    full = (1 << len(constraints)) - 1
    acc = 0
    for s_ in sat:
        acc |= s_
    if acc != full:
        return None
    byvec = {}
    for v, s_ in zip(vec, sat):
        byvec.setdefault(v, 0)
        byvec[v] |= s_
    through = [[i for i, v in enumerate(vec) if v[j]] for j in range(len(E))]
    fail = set()

    def rec(rem, left, got):
        if not any(rem):
            return got == full
        if left == 0:
            return False
        key = (rem, left, got)
        if key in fail:
            return False
        if left == 1:
            g = min(x for x in rem if x)
            for w in range(1, g + 1):
                if all(x % w == 0 for x in rem):
                    s_ = byvec.get(tuple(x // w for x in rem))
                    if s_ is not None and (got | s_) == full:
                        return True
            fail.add(key)
            return False
        j0 = min((j for j in range(len(E)) if rem[j] > 0), key=lambda j: (rem[j], len(through[j])))
        for i in through[j0]:
            v = vec[i]
            wmax = min(rem[j] // v[j] for j in range(len(E)) if v[j])
            for w in range(1, wmax + 1):
                if rec(tuple(rem[j] - w * v[j] for j in range(len(E))), left - 1, got | sat[i]):
                    return True
        fail.add(key)
        return False

    start = tuple(flow[e] for e in E)
    for k in range(1, kmax + 1):
        if rec(start, k, 0):
            return k
    return None


# ------------------------------------------------------------------------------------------------ check

def _silence():
    import logging
    logging.getLogger("flowpaths").setLevel(logging.CRITICAL + 1)
    try:
        import flowpaths.utils as U
        U.logger.setLevel(logging.CRITICAL + 1)
        U.logger.disabled = True
    except Exception:
        pass


def _run(G, wt, cons, cov, opts):
    import flowpaths as fp
    kw = dict(flow_attr="flow", weight_type=wt, optimization_options=dict(opts))
    if cons:
        kw.update(subset_constraints=[[tuple(e) for e in c] for c in cons], subset_constraints_coverage=cov)
    try:
        m = fp.MinFlowDecompCycles(G, **kw)
        ok = m.solve()
        if not (ok and m.is_solved()):
            return dict(solved=False)
        sol = m.get_solution()
        return dict(solved=True, walks=[list(w) for w in sol["walks"]], weights=list(sol["weights"]))
    except Exception as ex:
        return dict(solved=False, error="%s: %s" % (type(ex).__name__, str(ex)[:200]))


def _valid(G, flow, r, wt, cons, cov):
    """V and K on a returned solution; returns (fingerprint, what) or None"""
    for w in r["walks"]:
        good, why = is_route(G, w)
        if not good or len(w) < 2:
            return "MinFlowDecompCycles returned a walk that is not a source-to-sink walk of the caller's graph", "%s: %s" % (w, why)
    for e, fe in flow.items():
        got = explained(r["walks"], r["weights"], e)
        if not close(got, fe, wt):
            return "MinFlowDecompCycles does not explain the flow", "edge %s: explained %s, flow %s; walks=%s weights=%s" % (e, got, fe, r["walks"], r["weights"])
    if any(x < 0 for x in r["weights"]):
        return "MinFlowDecompCycles returned a negative weight", str(r["weights"])
    tr = traversals(r["walks"])
    for c in cons:
        c = [tuple(e) for e in c]
        if not any(O.constraint_ok({e: tr.get(e, {}).get(i, 0) for e in set(c)}, list(set(c)), cov) for i in range(len(r["walks"]))):
            return "subset constraint not contained to the requested coverage in a single returned walk (MinFlowDecompCycles)", \
                   "constraint %s coverage %s walks %s" % (c, cov, r["walks"])
    return None


def check(case):
    _silence()
    G = mkgraph(case["edges"])
    flow = {(u, v): f for u, v, f in case["edges"]}
    inst = "edges=%s cons=%s cov=%s opts=%s" % (case["edges"], case.get("cons"), case.get("cov"), case.get("opts"))
    if case["kind"] == "min":
        cons, cov = case["cons"], case["cov"]
        R = int_routes(G, flow)
        opt = fd_min_int(R, flow, [[tuple(e) for e in c] for c in cons], cov)
        if opt is None:
            return dict(ok=True, nontrivial=False, detail="outside the domain: no positive-weight decomposition (with these constraints) within the oracle cap")
        r = _run(G, int, cons, cov, case["opts"])
        if not r["solved"]:
            return dict(ok=False, nontrivial=True, fingerprint="MinFlowDecompCycles unsolved on an integer flow that walks decompose" + (" under satisfiable subset constraints" if cons else ""),
                        what="solve() failed (%s); oracle minimum %d; %s" % (r.get("error", "returned False"), opt, inst), detail=dict(oracle=opt))
        bad = _valid(G, flow, r, int, cons, cov)
        if bad:
            return dict(ok=False, nontrivial=True, fingerprint=bad[0], what=bad[1] + " | " + inst, detail=r)
        n = len(r["walks"])
        if n > opt:
            return dict(ok=False, nontrivial=True, fingerprint="MinFlowDecompCycles is not minimum" + (" under subset constraints" if cons else ""),
                        what="returned %d walks, exact minimum is %d; %s" % (n, opt, inst), detail=dict(r, oracle=opt))
        if n < opt:
            if any(x == 0 for x in r["weights"]):
                return dict(ok=True, nontrivial=True, detail=dict(k=n, note="uses a zero-weight walk; positive-weight minimum %d" % opt))
            return dict(ok=None, nontrivial=False, what="oracle inconsistency: library found a valid positive decomposition with %d < %d walks; %s" % (n, opt, inst))
        return dict(ok=True, nontrivial=True, detail=dict(k=opt))
    # relational clause R (float weights)
    base = _run(G, float, [], 1.0, case["opts"])
    Rint = int_routes(G, flow)
    kint = fd_min_int(Rint, flow)
    if not base["solved"]:
        return dict(ok=False, nontrivial=True, fingerprint="MinFlowDecompCycles (float weights) unsolved on an integer flow that walks decompose",
                    what="solve() failed (%s); %s" % (base.get("error", "returned False"), inst), detail=dict(oracle_int=kint))
    bad = _valid(G, flow, base, float, [], 1.0)
    if bad:
        return dict(ok=False, nontrivial=True, fingerprint=bad[0], what=bad[1] + " | " + inst, detail=base)
    if kint is not None and len(base["walks"]) > kint:
        return dict(ok=False, nontrivial=True, fingerprint="MinFlowDecompCycles (float weights) uses more walks than the integer-weighted minimum",
                    what="%d > %d; %s" % (len(base["walks"]), kint, inst), detail=base)
    for sc in case["scales"]:
        c = Fraction(sc)
        sflow = {e: float(Fraction(f) * c) for e, f in flow.items()}
        H = mkgraph([(u, v, sflow[(u, v)]) for (u, v) in flow])
        r = _run(H, float, [], 1.0, case["opts"])
        if not r["solved"]:
            return dict(ok=False, nontrivial=True,
                        fingerprint="scaling all flows by a common positive factor (float weights) changes solvability of MinFlowDecompCycles" + _why(c),
                        what="factor 1: solved with %d walks %s; factor %s: solve() failed (%s); %s" % (len(base["walks"]), base["walks"], sc, r.get("error", "returned False"), inst),
                        detail=dict(base=base, factor=sc))
        bad = _valid(H, sflow, r, float, [], 1.0)
        if bad:
            return dict(ok=False, nontrivial=True, fingerprint=bad[0], what="factor %s: %s | %s" % (sc, bad[1], inst), detail=r)
        if len(r["walks"]) != len(base["walks"]):
            return dict(ok=False, nontrivial=True,
                        fingerprint="scaling all flows by a common positive factor (float weights) changes the number of walks of MinFlowDecompCycles" + _why(c),
                        what="factor 1: %d walks %s %s; factor %s: %d walks %s %s; %s" % (len(base["walks"]), base["walks"], base["weights"], sc, len(r["walks"]), r["walks"], r["weights"], inst),
                        detail=dict(base=base, scaled=r, factor=sc))
    return dict(ok=True, nontrivial=True, detail=dict(k=len(base["walks"])))


def _why(c):
    """the known defect D17 (edge repetitions capped by flow values) can only bite when the values shrink: a failure under a factor >= 1 is a
    different violation and gets a different fingerprint (which must not contain the known finding's key phrase)"""
    return " (repetition cap taken from the flow value)" if c < 1 else " - under a factor >= 1 (values only grow: not the known flow-value limit on edge repetitions)"


def run(tier="quick", seed=0, chunk=0, nchunks=1):
    from vf.bounded import run_cases
    return run_cases(cases(tier), check, chunk, nchunks, engine="rc",
                     rule="all cyclic digraphs on 3 named nodes + all cyclic digraphs with one source, one sink and two inner nodes (quick: <=8 edges) + 6 multi-source/sink graphs%s, "
                          "every edge on a source-to-sink walk; x %s positive integer flows per graph (superpositions of <=3 walks, cycle multiplicity <=2, weights <=3); "
                          "int weights vs exact enumeration oracle (with 0-2 subset-constraint lists, coverage 1 and 0.5, and 8 option sets on a sample); "
                          "float weights under factors 2, 5/2, 1/2, 1/10; second naming scheme on a sample; non-trivial = library solved and compared, or a failure"
                          % ("" if tier == "quick" else " + every 23rd cyclic digraph on 4 named nodes with <=8 edges", "3" if tier == "quick" else "6"),
                     bounds="<=4 nodes (5 in the multi-source family), <=%d edges, flows from <=3 walks with weights <=3; oracle decompositions of <=7 walks" % (8 if tier == "quick" else 9))
