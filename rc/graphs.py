"""Small deterministic instance universe (DESIGN 2.6)."""
import itertools
import networkx as nx

NAMES1 = ("x", "y", "z", "w", "v")
NAMES2 = ("s", "t", "c", "1", "e")


def dags(n, names=NAMES1):
    pairs = [(i, j) for i in range(n) for j in range(i + 1, n)]
    for mask in range(1, 1 << len(pairs)):
        G = nx.DiGraph()
        for b, (i, j) in enumerate(pairs):
            if mask >> b & 1:
                G.add_edge(names[i], names[j])
        if G.number_of_nodes() < n:
            continue
        yield G


def digraphs(n, names=NAMES1, selfloops=True):
    pairs = [(i, j) for i in range(n) for j in range(n) if (i != j or selfloops)]
    for mask in range(1, 1 << len(pairs)):
        G = nx.DiGraph()
        for b, (i, j) in enumerate(pairs):
            if mask >> b & 1:
                G.add_edge(names[i], names[j])
        if G.number_of_nodes() < n:
            continue
        if not any(G.in_degree(v) == 0 for v in G) or not any(G.out_degree(v) == 0 for v in G):
            continue
        yield G


def st_paths(G, starts=(), ends=()):
    S = [v for v in G if G.in_degree(v) == 0 or v in starts]
    T = [v for v in G if G.out_degree(v) == 0 or v in ends]
    out = set()
    for s in S:
        for t in T:
            if s == t:
                out.add((s,))
                continue
            for p in nx.all_simple_paths(G, s, t):
                out.add(tuple(p))
    return sorted(out)


def pedges(p):
    return list(zip(p, p[1:]))


def flows_from_paths(G, weightsets=((1,), (1, 2), (2, 3), (1, 2, 3), (1, 1, 2)), attr="flow"):
    paths = [p for p in st_paths(G) if len(p) > 1]
    seen = set()
    for ws in weightsets:
        if len(ws) > len(paths):
            continue
        for combo in itertools.combinations(range(len(paths)), len(ws)):
            f = {e: 0 for e in G.edges()}
            for w, pi in zip(ws, combo):
                for e in pedges(paths[pi]):
                    f[e] += w
            if all(v > 0 for v in f.values()):
                key = tuple(sorted(f.items()))
                if key not in seen:
                    seen.add(key)
                    H = G.copy()
                    for e, v in f.items():
                        H.edges[e][attr] = v
                    H.graph["id"] = "g%d" % len(seen)
                    yield H, f


def graph_repr(G, attr="flow"):
    return [(u, v, d.get(attr)) for u, v, d in G.edges(data=True)]
