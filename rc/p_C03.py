"""C03 bounded stand-in: MinFlowDecomp on every small DAG / positive conserving flow vs the explicit-path oracle."""
from rc import graphs, oracles as O
from rc.common import mkgraph, edges_of, is_route, explained, close


def cases(tier):
    ns = (2, 3, 4) if tier == "quick" else (2, 3, 4, 5)
    for names in (graphs.NAMES1, graphs.NAMES2):
        for n in ns:
            for gi, G in enumerate(graphs.dags(n, names)):
                if n == 5 and gi % 7:
                    continue
                fl = list(graphs.flows_from_paths(G))
                for fi, (H, f) in enumerate(fl[: (3 if tier == "quick" else 6)]):
                    for wt in ("int", "float"):
                        if names is graphs.NAMES2 and (wt == "float" or fi > 0):
                            continue
                        yield dict(edges=edges_of(H), wt=wt, opts={})
    # subpath constraints (greedy on and off: the greedy result must be rejected when it violates a constraint) and ignored edges
    for n in (3, 4):
        for gi, G in enumerate(graphs.dags(n)):
            if n == 4 and gi % 2:
                continue
            E = list(G.edges())
            two = [[list(a), list(b)] for a in E for b in E if a[1] == b[0]]
            for H, f in list(graphs.flows_from_paths(G))[:2]:
                for ci, cst in enumerate(two[:3] + [[list(e)] for e in E]):
                    for opts in ({}, {"optimize_with_greedy": False}):
                        yield dict(edges=edges_of(H), wt="int", opts=opts, cons=[cst])
                for e in E[:2]:
                    if len(E) >= 2:
                        yield dict(edges=edges_of(H), wt="int", opts={}, ign=[list(e)])
    # option variants on a fixed family (greedy off, lower-bound options)
    for n in (3, 4):
        for gi, G in enumerate(graphs.dags(n)):
            if gi % 5:
                continue
            for H, f in list(graphs.flows_from_paths(G))[:2]:
                for opts in ({"optimize_with_greedy": False}, {"optimize_with_greedy": False, "use_min_gen_set_lowerbound": True},
                             {"optimize_with_greedy": False, "optimize_with_guessed_weights": True, "use_min_gen_set_lowerbound": True}):
                    yield dict(edges=edges_of(H), wt="int", opts=opts)
    # fractional float flows (weights below 1), MILP and greedy route
    for n in (3, 4):
        for gi, G in enumerate(graphs.dags(n)):
            if gi % (4 if tier == "quick" else 2):
                continue
            for H, f in list(graphs.flows_from_paths(G))[:2]:
                for opts in ({}, {"optimize_with_greedy": False}):
                    yield dict(edges=[[u, v, x / 8.0] for u, v, x in edges_of(H)], wt="float", opts=opts)
    # explicitly ignored element carrying a stale small value, plus by-pass elements without any value (ignored too): the minimum is over
    # the non-ignored part, whatever the ignored values say
    for a, b in ((5, 3), (2, 2), (4, 1)):
        for stale in (1, 0, 9):
            E = [["s1", "u", a], ["s2", "u", b], ["u", "v", stale], ["v", "t1", a], ["v", "t2", b], ["u", "x", None], ["y", "v", None]]
            for wt in ("int", "float"):
                for opts in ({}, {"optimize_with_greedy": False}):
                    yield dict(edges=E, wt=wt, opts=opts, ign=[["u", "v"], ["u", "x"], ["y", "v"]])
    # length-based coverage of a constraint, one constraint edge without the length attribute (counts as 1 on BOTH sides of the row)
    for cov_len in (0.6, 0.5, 1.0):
        E = [["s", "b", 3], ["b", "c", 3], ["c", "x", 3], ["y", "b2", 5], ["b2", "c", 5], ["c", "d", 5]]
        lengths = {("s", "b"): 2, ("c", "x"): 1, ("y", "b2"): 1, ("b2", "c"): 1, ("c", "d"): 2}       # (b, c) has none
        for opts in ({}, {"optimize_with_greedy": False}):
            yield dict(edges=E, wt="int", opts=opts, cons=[[["s", "b"], ["b", "c"], ["c", "d"]]], cov_len=cov_len, lengths=[[list(e), l] for e, l in lengths.items()])
    for c in _docs_case():
        yield c


def _docs_case():
    # the graph of docs/subpath-constraints.md with a length attribute: coverage stays counted in EDGES unless a length coverage is requested
    E = [["s", "a", 6], ["s", "b", 7], ["a", "b", 2], ["a", "c", 4], ["b", "c", 9], ["c", "d", 6], ["c", "t", 7], ["d", "t", 6]]
    L = {("a", "c"): 5, ("c", "t"): 5}
    for opts in ({}, {"optimize_with_greedy": False}):
        yield dict(edges=E, wt="int", opts=opts, cons=[[["a", "c"], ["c", "t"]]], lengths=[[list(e), L.get(tuple(e[:2]), 1)] for e in E], len_only=True)


def check(case):
    import flowpaths as fp
    wt = int if case["wt"] == "int" else float
    G = mkgraph(case["edges"])
    flow = {(u, v): f for u, v, f in case["edges"] if f is not None}
    lengths = {tuple(e[:2]): l for e, l in case.get("lengths", [])}
    for e, l in lengths.items():
        G[e[0]][e[1]]["len"] = l
    R = [O.route_mult(p) for p in O.routes_dag(G)]
    cons = [[tuple(e) for e in c] for c in case.get("cons", [])]
    ign = [tuple(e) for e in case.get("ign", [])]
    cov_len = case.get("cov_len")
    if cov_len is not None:
        opt = O.fd_min(R, flow, wt, ignore=ign, constraints=cons or None, coverage=cov_len, lengths={e: lengths.get(e, 1) for e in G.edges()})
    else:
        opt = O.fd_min(R, flow, wt, ignore=ign, constraints=cons or None)
    kw = {}
    if cov_len is not None:
        kw.update(subpath_constraints_coverage_length=cov_len, length_attr="len")
    elif case.get("len_only"):
        kw.update(length_attr="len")
    if cons:
        kw["subpath_constraints"] = cons
    if ign:
        kw["elements_to_ignore"] = ign
    try:
        m = fp.MinFlowDecomp(G, flow_attr="flow", weight_type=wt, optimization_options=dict(case["opts"]), **kw)
        ok = m.solve()
    except Exception as e:          # the input is inside the documented domain: an exception is a failure of "solve() succeeds"
        return dict(ok=False, nontrivial=True, fingerprint="MinFlowDecomp raised on a positive conserving DAG flow",
                    what="%s: %s on %s opts=%s (oracle minimum %s)" % (type(e).__name__, str(e)[:120], case["edges"], case["opts"], opt), detail=dict(oracle=opt))
    if not ok or not m.is_solved():
        return dict(ok=False, nontrivial=True, fingerprint="MinFlowDecomp unsolved on a positive conserving DAG flow",
                    what="solve() = %s on %s (oracle minimum %s)" % (ok, case["edges"], opt), detail=dict(oracle=opt))
    sol = m.get_solution()
    paths, weights = sol["paths"], sol["weights"]
    for p in paths:
        r, why = is_route(G, p, simple=True)
        if not r:
            return dict(ok=False, nontrivial=True, fingerprint="MinFlowDecomp returned a non-route", what=why, detail=dict(paths=paths))
    for cst in cons:
        if cov_len is not None:
            tot = sum(lengths.get(e, 1) for e in cst)
            if not any(sum(lengths.get(e, 1) for e in cst if e in list(zip(p, p[1:]))) >= cov_len * tot - 1e-9 for p in paths):
                return dict(ok=False, nontrivial=True, fingerprint="MinFlowDecomp: a subpath constraint is covered to less than the requested length fraction in every returned path",
                            what="constraint %s, coverage_length %s, paths %s on %s opts=%s" % (cst, cov_len, paths, case["edges"], case["opts"]), detail=dict(paths=paths))
            continue
        if not any(all((a, b) in list(zip(p, p[1:])) for (a, b) in cst) for p in paths):
            return dict(ok=False, nontrivial=True, fingerprint="MinFlowDecomp: a subpath constraint is contained in no returned path", what="constraint %s, paths %s on %s opts=%s" % (cst, paths, case["edges"], case["opts"]),
                        detail=dict(paths=paths))
    for e, fe in flow.items():
        if e in ign:
            continue
        if not close(explained(paths, weights, e), fe, wt):
            return dict(ok=False, nontrivial=True, fingerprint="MinFlowDecomp does not explain the flow", what="edge %s: %s vs %s" % (e, explained(paths, weights, e), fe),
                        detail=dict(paths=paths, weights=weights))
    if opt is None:
        return dict(ok=None, nontrivial=False, what="oracle found no decomposition up to its cap")
    if len(paths) != opt:
        return dict(ok=False, nontrivial=True, fingerprint="MinFlowDecomp is not minimum", what="returned %d paths, oracle minimum is %d on %s opts=%s" % (len(paths), opt, case["edges"], case["opts"]),
                    detail=dict(paths=paths, weights=weights, oracle=opt))
    return dict(ok=True, nontrivial=len(case["edges"]) > 1, detail=dict(k=opt))


def run(tier="quick", seed=0, chunk=0, nchunks=1):
    from vf.bounded import run_cases
    return run_cases(cases(tier), check, chunk, nchunks, engine="rc",
                     rule="all DAGs on <=4 (thorough: sampled 5) named nodes x up to 3 positive conserving flows (superpositions of <=3 paths, weights 1..3) x weight type; "
                          "two node-naming schemes; option variants; non-trivial = more than one edge",
                     bounds="DAGs n<=%d, flows from <=3 paths with weights<=3" % (4 if tier == "quick" else 5))
