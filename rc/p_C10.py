"""C10 bounded stand-in: constraints, ignored elements / error scale 0, additional start/end nodes - on every model class that accepts them.

Clauses (from the property statement):
  K   every subpath constraint (DAG) / subset constraint (cyclic) lies, to the requested edge- or length-coverage fraction,
      inside a single returned route
  O   the objective (number of routes / solved-ness for a given k / error value) is the optimum over exactly the solutions that
      satisfy the constraints                                   [oracle run with the same constraints / coverage / lengths]
  I   ignoring an element, or giving it error scale 0, removes its influence on feasibility and objective and nothing else
      [oracle with the element removed from the requirement set only; also after the ignored element's own value is changed]
  A   additional starts/ends enlarge the admissible route set by exactly the routes starting/ending there
      [returned routes admissible w.r.t. the enlarged set; objective = oracle optimum over the enlarged explicit route set]

Oracles: explicit route lists (all s-t paths of a DAG; all s-t walks as connected balanced multiplicity vectors under generous
caps), exact integer enumeration for decompositions and covers, certified z3 optimisation (rc.oracles) for the error models.
Soundness of a failure: on DAGs the route list is complete, so comparisons are two-sided.  On cyclic graphs the capped list makes the
oracle value *achievable* but not necessarily optimal; a failure is raised only when the library is worse than that value, claims
solved where nothing is admissible, or returns something that direct recomputation refutes."""
import itertools
from fractions import Fraction
import networkx as nx
from rc import graphs, oracles as O
from rc.common import mkgraph, is_route, explained, close, traversals

DAGM = ("kFlowDecomp", "MinFlowDecomp", "kLeastAbsErrors", "kMinPathError", "kPathCover", "MinPathCover")
CYCM = ("kFlowDecompCycles", "MinFlowDecompCycles", "kLeastAbsErrorsCycles", "kMinPathErrorCycles", "kPathCoverCycles", "MinPathCoverCycles")
FD = ("kFlowDecomp", "MinFlowDecomp", "kFlowDecompCycles", "MinFlowDecompCycles")
ERR = ("kLeastAbsErrors", "kMinPathError", "kLeastAbsErrorsCycles", "kMinPathErrorCycles")
COV = ("kPathCover", "MinPathCover", "kPathCoverCycles", "MinPathCoverCycles")
HAS_K = ("kFlowDecomp", "kLeastAbsErrors", "kMinPathError", "kPathCover", "kFlowDecompCycles", "kLeastAbsErrorsCycles", "kMinPathErrorCycles", "kPathCoverCycles")
HAS_SCALE = ERR
# classes that accept additional_starts / additional_ends with edge-level input
HAS_STARTS = ("kLeastAbsErrors", "kMinPathError", "kPathCover", "MinPathCover",
              "kFlowDecompCycles", "kLeastAbsErrorsCycles", "kMinPathErrorCycles", "kPathCoverCycles", "MinPathCoverCycles")


# classes with a trusted_edges_for_safety parameter whose trust in an IGNORED element must be void (the element does not count)
TRUSTABLE = ("kLeastAbsErrors", "kLeastAbsErrorsCycles")          # the two classes whose constructor has the parameter


def cyclic(model):
    return model.endswith("Cycles")


# ------------------------------------------------------------------------------------------------ universe

def _on_st_walk(G, starts=(), ends=()):
    S = [v for v in G if G.in_degree(v) == 0 or v in starts]
    T = [v for v in G if G.out_degree(v) == 0 or v in ends]
    if not S or not T:
        return False
    fw, bw = set(S), set(T)
    for s in S:
        fw |= nx.descendants(G, s)
    for t in T:
        bw |= nx.ancestors(G, t)
    return all(u in fw and v in bw for u, v in G.edges())


def scc_edges(G):
    comp = {}
    for i, c in enumerate(nx.strongly_connected_components(G)):
        for v in c:
            comp[v] = i
    return {(u, v) for u, v in G.edges() if comp[u] == comp[v]}


def _cyc_graphs(names, quick):
    out = []
    for G in graphs.digraphs(3, names):
        if _on_st_walk(G) and not nx.is_directed_acyclic_graph(G):
            out.append(G)
    x, y, z, w = names[:4]
    cand = [(x, y), (x, z), (x, w), (y, y), (y, z), (z, y), (z, z), (y, w), (z, w)]
    n = 0
    for mask in range(1, 1 << len(cand)):
        G = nx.DiGraph([e for b, e in enumerate(cand) if mask >> b & 1])
        if G.number_of_edges() > 6 or len(scc_edges(G)) > 3 or not _on_st_walk(G) or nx.is_directed_acyclic_graph(G):
            continue
        n += 1
        if not quick or n % 3 == 0:
            out.append(G)
    return out


def _dag_graphs(names, quick):
    out = []
    for n in (3, 4):
        for gi, G in enumerate(graphs.dags(n, names)):
            if quick and n == 4 and G.number_of_edges() < 3:
                continue
            out.append(G)
    return out


def _lcg(seed):
    x = (seed * 2654435761 + 12345) & 0xFFFFFFFF
    while True:
        x = (x * 1103515245 + 12345) & 0x7FFFFFFF
        yield x >> 8


def _routes(G, cyc, caps=None, starts=(), ends=()):
    if not cyc:
        return [O.route_mult(p) for p in O.routes_dag(G, starts, ends)]
    return O.routes_walks(G, caps, starts, ends)


def _caps(G, C):
    se = scc_edges(G)
    return {e: (C if e in se else 1) for e in G.edges()}


def _superposed(G, cyc, rng, starts=(), ends=(), n=2):
    """a positive integer flow that is a superposition of <= 3 admissible routes covering all edges (None if none found)"""
    R = [r for r in _routes(G, cyc, _caps(G, 2) if cyc else None, starts, ends) if r]
    R = sorted(R, key=lambda m: sorted(m.items()))
    if not R:
        return None
    for attempt in range(30):
        cnt = 1 + next(rng) % 3
        f = {e: 0 for e in G.edges()}
        for _ in range(cnt):
            r = R[next(rng) % len(R)]
            w = 1 + next(rng) % 3
            for e, c in r.items():
                f[e] += w * c
        if all(v > 0 for v in f.values()) and max(f.values()) <= 6:
            return f
    return None


def _superposed_new(G, cyc, rng, starts, ends):
    """like _superposed, but one of the superposed routes exists only because of the additional starts/ends (so that they matter)"""
    key = lambda m: sorted(m.items())
    R = sorted((r for r in _routes(G, cyc, _caps(G, 2) if cyc else None, starts, ends) if r), key=key)
    R0 = [r for r in _routes(G, cyc, _caps(G, 2) if cyc else None) if r]
    Rn = [r for r in R if r not in R0]
    if not Rn:
        return None
    for attempt in range(40):
        f = {e: 0 for e in G.edges()}
        picks = [(Rn[next(rng) % len(Rn)], 2 + next(rng) % 2)] + [(R[next(rng) % len(R)], 1 + next(rng) % 3) for _ in range(next(rng) % 3)]
        for r, w in picks:
            for e, c in r.items():
                f[e] += w * c
        if all(v > 0 for v in f.values()) and max(f.values()) <= 6:
            return f
    return None


def _noisy(G, f, rng):
    """non-negative, not all zero edge values: a superposition with one or two entries changed"""
    g = dict(f) if f else {e: 1 + next(rng) % 3 for e in G.edges()}
    E = sorted(G.edges())
    for _ in range(1 + next(rng) % 2):
        e = E[next(rng) % len(E)]
        g[e] = max(0, g[e] + (next(rng) % 5) - 2)
    if not any(g.values()):
        g[E[0]] = 1
    return g


def _constraint_variants(G, cyc, rng):
    """list of (constraints, coverage, coverage_length or None)"""
    E = sorted(G.edges())
    out = []
    if not cyc:
        P = sorted((p for p in graphs.st_paths(G) if len(p) >= 3), key=lambda p: (-len(p), p))
        if P:
            p = P[0]
            pe = graphs.pedges(p)
            out.append(([pe[:2]], 1.0, None))                       # contiguous
            out.append(([pe[:2], pe[:2]], 1.0, None))               # duplicated
            out.append(([pe], 0.5, None))                           # whole path, half coverage
            out.append(([pe], 1.0, 0.6))                            # length coverage
            if len(pe) >= 3:
                out.append(([[pe[0], pe[-1]]], 1.0, None))          # gapped
                out.append(([pe[:2], pe[1:]], 1.0, None))           # overlapping
            if len(P) > 1:
                q = graphs.pedges(P[-1])
                out.append(([pe[:2], q[-2:]], 1.0, None))           # two constraints from two paths
        # edges out of the same node never lie on one path: no admissible solution at coverage 1
        for v in G:
            s = sorted(G.successors(v))
            if len(s) >= 2:
                out.append(([[(v, s[0]), (v, s[1])]], 1.0, None))
                out.append(([[(v, s[0]), (v, s[1])]], 0.5, None))
                break
    else:
        se = sorted(scc_edges(G))
        nse = [e for e in E if e not in se]
        out.append(([[se[0]] + nse[-1:]], 1.0, None))
        out.append(([[se[0]] + nse[:1], [se[-1]]], 1.0, None))
        out.append(([[se[0]] + nse[:1] + nse[-1:]], 0.5, None))
        out.append(([[se[-1]], [se[-1]]], 1.0, None))
        if len(nse) >= 2:
            out.append(([[nse[0], nse[-1]]], 1.0, None))
    return out


def _ignore_variants(G, f, rng):
    """list of (ignore list, perturbation {edge: new value or None})"""
    E = sorted(G.edges())
    a = E[next(rng) % len(E)]
    b = E[next(rng) % len(E)]
    out = [([a], {}), ([a], {a: 9}), ([a], {a: 0})]
    if b != a:
        out.append(([a, b], {}))
        out.append(([a, b], {a: 7, b: 0}))
    return out


def _startend_variants(G, rng):
    # prefer truly inner nodes (a start at a sink or an end at a source only adds the empty route)
    both = sorted(v for v in G if G.in_degree(v) > 0 and G.out_degree(v) > 0)
    inner_s = both or sorted(v for v in G if G.in_degree(v) > 0)
    inner_t = both or sorted(v for v in G if G.out_degree(v) > 0)
    out = []
    if inner_s:
        out.append(([inner_s[next(rng) % len(inner_s)]], []))
    if inner_t:
        out.append(([], [inner_t[next(rng) % len(inner_t)]]))
    if inner_s and inner_t:
        out.append(([inner_s[next(rng) % len(inner_s)]], [inner_t[next(rng) % len(inner_t)]]))
    return out


def _lengths(G):
    return {e: 1 + (i * 2) % 3 for i, e in enumerate(sorted(G.edges()))}


def _mk(model, G, f, wt, k, feature, **kw):
    d = dict(model=model, feature=feature, wt=wt, k=k, edges=[[u, v, (None if f is None else f[(u, v)])] for u, v in sorted(G.edges())],
             cons=[], cov=1.0, covlen=None, ignore=[], via="ignore", perturb=[], starts=[], ends=[])
    d.update(kw)
    return d


def cases(tier):
    quick = tier == "quick"
    for names in (graphs.NAMES1, graphs.NAMES2):
        for cyc in (False, True):
            Gs = _cyc_graphs(names, quick) if cyc else _dag_graphs(names, quick)
            models = CYCM if cyc else DAGM
            for gi, G in enumerate(Gs):
                if names is graphs.NAMES2 and gi % (11 if quick else 4) != 1:
                    continue
                rng = _lcg(gi * 7 + (1000 if cyc else 0))
                f = _superposed(G, cyc, rng)
                if f is None:
                    continue
                g = _noisy(G, f, rng)
                if cyc:
                    g = {e: min(v, 4) for e, v in g.items()}       # keeps the walk oracle's caps (<= 4) generous for every value
                cvs = _constraint_variants(G, cyc, rng)
                ivs = _ignore_variants(G, f, rng)
                svs = _startend_variants(G, rng)
                nvar = 3 if quick else 4
                for mi, model in enumerate(models):
                    vals = f if model in FD else (None if model in COV else g)
                    wts = ("int",) if model in FD or model in COV else (("int", "float")[(gi + mi) % 2],)
                    if not quick and model in ERR:
                        wts = ("int", "float")
                    if model in ERR and cyc and (quick or len(scc_edges(G)) > 1):
                        wts = ("int",)          # the real-weighted walk oracle (z3) costs seconds per instance: thorough tier, one cycle edge only
                    for wt in wts:
                        ks = (None,)
                        if model in HAS_K:
                            ks = (1 + (gi + mi) % 2,) if quick else (1, 2, 3)
                            if model in ERR and cyc and not quick:
                                ks = (1, 2)         # k <= 2: exhaustive integer oracle
                            if model in ("kFlowDecomp", "kFlowDecompCycles", "kPathCover", "kPathCoverCycles"):
                                ks = (1 + (gi + mi) % 3,) if quick else (1, 2, 3)
                        for k in ks:
                            # constraints
                            for j in range(min(nvar, len(cvs))):
                                cons, cov, covlen = cvs[(gi + mi + j * 3) % len(cvs)]
                                if covlen is not None and cyc:
                                    continue
                                yield _mk(model, G, vals, wt, k, "constraint", cons=[[list(e) for e in c] for c in cons], cov=cov, covlen=covlen)
                            # ignoring / scale 0  (docs: every model except MinFlowDecomp offers elements_to_ignore; MinFlowDecomp has the parameter too)
                            for j in range(min(nvar, len(ivs))):
                                ign, pert = ivs[(gi + mi + j * 2) % len(ivs)]
                                if len(ign) >= G.number_of_edges():
                                    continue            # domain: at least one element stays non-ignored
                                if model in COV and pert:
                                    pert = {}
                                via = "scale0" if (model in HAS_SCALE and (gi + j) % 2) else "ignore"
                                yield _mk(model, G, vals, wt, k, "ignore", ignore=[list(e) for e in ign], via=via,
                                          perturb=[[e[0], e[1], v] for e, v in sorted(pert.items())])
                                if model in TRUSTABLE and (gi + mi + j) % 3 == 0:
                                    # the ignored elements are ALSO named as trusted for the safety optimisation (a caller trusting "all edges", or the percentile rule
                                    # picking a heavy ignored edge): ignoring removes the element's influence, so trusting it must not matter either
                                    yield _mk(model, G, vals, wt, k, "ignore", ignore=[list(e) for e in ign], via=via,
                                              perturb=[[e[0], e[1], v] for e, v in sorted(pert.items())], trust="all")
                            # additional starts / ends
                            if model in HAS_STARTS:
                                for j in range(min(nvar if not quick else 1, len(svs))):
                                    st, en = svs[(gi + mi + j) % len(svs)]
                                    vv = vals
                                    if model in FD or model in ERR:
                                        # values that are a superposition over the ENLARGED route set, so that the new routes matter
                                        vv = _superposed_new(G, cyc, _lcg(gi * 13 + j), st, en) or _superposed(G, cyc, _lcg(gi * 13 + j), st, en)
                                        if vv is None:
                                            if model in FD:
                                                continue
                                            vv = vals
                                        elif cyc and model in ERR:
                                            vv = {e: min(v, 4) for e, v in vv.items()}
                                    yield _mk(model, G, vv, wt, k, "startend", starts=list(st), ends=list(en))
    # curated: documentation examples (docs/subpath-constraints.md, docs/ignoring-edges.md, docs/additional-start-end-nodes.md)
    doc = [["s", "a", 6], ["s", "b", 7], ["a", "b", 2], ["a", "c", 4], ["b", "c", 9], ["c", "d", 6], ["c", "t", 7], ["d", "t", 6]]
    yield dict(model="MinFlowDecomp", feature="constraint", wt="int", k=None, edges=doc, cons=[[["a", "c"], ["c", "t"]]], cov=1.0, covlen=None,
               ignore=[], via="ignore", perturb=[], starts=[], ends=[])
    yield dict(model="kMinPathError", feature="ignore", wt="int", k=3, edges=[[u, v, 10 * f] for u, v, f in doc] + [["a", "d", 1]], cons=[], cov=1.0, covlen=None,
               ignore=[["a", "d"]], via="ignore", perturb=[], starts=[], ends=[])
    # D10 witness (DESIGN section 4): ignored edges carrying many distinct values
    yield dict(model="MinFlowDecomp", feature="ignore", wt="int", k=None,
               edges=[["x", "y", 4], ["y", "z", 4], ["x", "z", 1], ["y", "w", 2], ["z", "w", 3], ["x", "w", 5]], cons=[], cov=1.0, covlen=None,
               ignore=[["x", "z"], ["y", "w"], ["z", "w"], ["x", "w"]], via="ignore", perturb=[], starts=[], ends=[])


# ------------------------------------------------------------------------------------------------ oracles of this module

def fd_min_pos(R, flow, ignore=(), constraints=(), coverage=1.0, lengths=None, kmax=6):
    """exact minimum number of (route, integer weight >= 1) pairs from R explaining `flow` on the non-ignored edges, each constraint
    inside one chosen route.  Exhaustive (iterative deepening; branch on the routes through the non-ignored edge with the smallest
    positive remainder; failures memoised).  None = no such decomposition with <= kmax routes."""
    E = sorted(e for e in flow if e not in ignore)
    constraints = [list(c) for c in constraints]
    Rl = [r for r in R if all(r.get(e, 0) <= flow[e] for e in E)]
    vec = [tuple(r.get(e, 0) for e in E) for r in Rl]
    sat = [sum(1 << j for j, c in enumerate(constraints) if O.constraint_ok(r, c, coverage, lengths)) for r in Rl]
    full = (1 << len(constraints)) - 1
    acc = 0
    for s_ in sat:
        acc |= s_
    if acc != full:
        return None
    byvec = {}
    for v, s_ in zip(vec, sat):
        byvec.setdefault(v, set()).add(s_)
    through = [[i for i, v in enumerate(vec) if v[j]] for j in range(len(E))]
    zero = [i for i, v in enumerate(vec) if not any(v)]       # routes running over ignored edges only: weight is free, count as one route
    fail = set()
    nE = len(E)

    def rec(rem, left, got):
        if not any(rem):
            if got == full:
                return True
            if left == 0:
                return False
            key = (rem, left, got)
            if key in fail:
                return False
            for i in zero:
                if sat[i] & ~got and rec(rem, left - 1, got | sat[i]):
                    return True
            fail.add(key)
            return False
        if left == 0:
            return False
        key = (rem, left, got)
        if key in fail:
            return False
        if left == 1:
            g = min(x for x in rem if x)
            for w in range(1, g + 1):
                if all(x % w == 0 for x in rem):
                    for s_ in byvec.get(tuple(x // w for x in rem), ()):
                        if (got | s_) == full:
                            return True
            fail.add(key)
            return False
        j0 = min((j for j in range(nE) if rem[j] > 0), key=lambda j: (rem[j], len(through[j])))
        for i in through[j0]:
            v = vec[i]
            wmax = min(rem[j] // v[j] for j in range(nE) if v[j])
            for w in range(1, wmax + 1):
                if rec(tuple(rem[j] - w * v[j] for j in range(nE)), left - 1, got | sat[i]):
                    return True
        for i in zero:
            if sat[i] & ~got and rec(rem, left - 1, got | sat[i]):
                return True
        fail.add(key)
        return False

    start = tuple(int(flow[e]) for e in E)
    if not any(start):
        # nothing to explain: the constraints alone decide
        return O.min_cover(Rl, [], constraints, coverage, lengths, kmax=kmax) or None
    for k in range(1, kmax + 1):
        if rec(start, k, 0):
            return k
    return None


def _minimise_sel(s, obj, sel, wt):
    """certified minimum of obj over the assertions of s.  Descent `obj < best` until unsat.  For real weights the value taken from a
    model is first improved to the exact LP optimum of that model's route selection (pure linear real arithmetic), so every round
    eliminates at least one of the finitely many selections - the plain descent of rc.oracles._minimise can converge forever
    towards an optimum it never reaches.  Integer instances have integer-valued objectives here (scales 0/1), so they terminate too."""
    import z3
    best = None
    for _ in range(400):
        r = s.check()
        if r == z3.unsat:
            return ("opt", best) if best is not None else ("infeasible", None)
        if r != z3.sat:
            return ("unknown", None)
        m = s.model()
        v = O._val(m.eval(obj, model_completion=True))
        if wt is not int:
            o = z3.Optimize()
            o.add(*s.assertions())
            for row in sel:
                for x in row:
                    o.add(x if z3.is_true(m.eval(x, model_completion=True)) else z3.Not(x))
            o.minimize(obj)
            if o.check() == z3.sat:
                v2 = O._val(o.model().eval(obj, model_completion=True))
                if v2 < v:
                    v = v2
        best = v
        s.add(obj < z3.RealVal(str(v)))
    return ("unknown", None)


def _z3_wmax(s, sel, R, k, ignore, wmax, vars_):
    """library-cap classification only: multiplicity x value <= w_max on every counted (non-ignored) edge"""
    import z3
    if wmax is None:
        return
    b = z3.RealVal(str(Fraction(wmax)))
    for i in range(k):
        for x in vars_:
            s.add(x[i] <= b)
        for j, r in enumerate(R):
            mm = max([c for e, c in r.items() if e not in ignore] + [0])
            if mm > 1:
                for x in vars_:
                    s.add(z3.Implies(sel[i][j], x[i] * mm <= b))


def lae_val(R, flow, k, wt, ignore=(), constraints=None, coverage=1.0, lengths=None, wmax=None):
    """min over k routes (with repetition) from R and weights >= 0 of the sum over non-ignored edges of |flow - explained| (rc.oracles formulation)"""
    import z3
    s = z3.Solver()
    sel, w = O._select(s, k, R, wt)
    errs = []
    for e, fe in flow.items():
        if e in ignore:
            continue
        d = O._rv(fe) - O._through(sel, w, R, e, k)
        errs.append(z3.If(d >= 0, d, -d))
    O._constraints(s, sel, R, k, constraints, coverage, lengths)
    _z3_wmax(s, sel, R, k, ignore, wmax, [w])
    return _minimise_sel(s, z3.Sum(errs + [z3.RealVal(0)]), sel, wt)


def lae_int_enum(R, flow, k, ignore=(), constraints=None, coverage=1.0, lengths=None, wmax=None):
    """k <= 2, integer weights: plain enumeration of all route tuples and all weights 0..max flow (a larger weight only adds error on
    every edge of its route).  Returns ("opt", value) or ("infeasible", None)."""
    import numpy as np
    E = [e for e in flow if e not in ignore]
    f = np.array([int(flow[e]) for e in E], dtype=np.int64)
    M = np.array([[r.get(e, 0) for e in E] for r in R], dtype=np.int64).reshape(len(R), len(E))
    cons = [list(c) for c in (constraints or ())]
    sat = np.array([[O.constraint_ok(r, c, coverage, lengths) for c in cons] for r in R], dtype=bool).reshape(len(R), len(cons))
    W = int(f.max()) if len(E) else 0
    if not len(R):
        return ("infeasible", None)
    mm = M.max(axis=1) if len(E) else np.zeros(len(R), dtype=np.int64)
    lim = (lambda w: np.ones(len(R), dtype=bool)) if wmax is None else (lambda w: (w * np.maximum(mm, 1)) <= int(wmax))   # wmax: library-cap classification only
    best = None
    if k == 1:
        okr = sat.all(axis=1) if cons else np.ones(len(R), dtype=bool)
        if not okr.any():
            return ("infeasible", None)
        for w in range(W + 1):
            err = np.abs(f[None, :] - w * M).sum(axis=1)
            ok = okr & lim(w)
            if not ok.any():
                continue
            v = int(err[ok].min())
            best = v if best is None or v < best else best
        return ("opt", Fraction(best)) if best is not None else ("infeasible", None)
    okp = np.ones((len(R), len(R)), dtype=bool)
    for j in range(len(cons)):
        okp &= (sat[:, j][:, None] | sat[:, j][None, :])
    if not okp.any():
        return ("infeasible", None)
    big = np.iinfo(np.int64).max // 4
    for w1 in range(W + 1):
        A = f[None, :] - w1 * M
        for w2 in range(w1 + 1):
            err = np.abs(A[:, None, :] - (w2 * M)[None, :, :]).sum(axis=2)
            ok = okp & lim(w1)[:, None] & lim(w2)[None, :]
            if not ok.any():
                continue
            v = int(np.where(ok, err, big).min())
            best = v if best is None or v < best else best
    return ("opt", Fraction(best)) if best is not None else ("infeasible", None)


def mpe_int_enum(R, flow, k, ignore=(), constraints=None, coverage=1.0, lengths=None, wmax=None):
    """k <= 2, integer weights and slacks: plain enumeration of all route tuples, weights 0..max flow (a larger weight only increases
    the deviation on every edge of its route) and slacks.  Returns ("opt", value) or ("infeasible", None)."""
    import numpy as np
    E = [e for e in flow if e not in ignore]
    f = np.array([int(flow[e]) for e in E], dtype=np.int64)
    M = np.array([[r.get(e, 0) for e in E] for r in R], dtype=np.int64).reshape(len(R), len(E))
    cons = [list(c) for c in (constraints or ())]
    sat = np.array([[O.constraint_ok(r, c, coverage, lengths) for c in cons] for r in R], dtype=bool).reshape(len(R), len(cons))
    W = int(f.max()) if len(E) else 0
    big = 10 ** 9
    best = big
    if not len(R):
        return ("infeasible", None)
    mm = np.maximum(M.max(axis=1), 1) if len(E) else np.ones(len(R), dtype=np.int64)
    cap = None if wmax is None else (int(wmax) // mm)          # wmax: library-cap classification only (weight and slack x multiplicity <= w_max)
    if k == 1:
        okr = sat.all(axis=1) if cons else np.ones(len(R), dtype=bool)
        for w in range(W + 1):
            d = np.abs(f[None, :] - w * M)
            need = np.where(M > 0, -(-d // np.maximum(M, 1)), np.where(d > 0, big, 0)).max(axis=1) if len(E) else np.zeros(len(R), dtype=np.int64)
            ok = okr if cap is None else (okr & (w <= cap) & (need <= cap))
            v = int(np.where(ok, need, big).min())
            best = min(best, v)
        return ("opt", Fraction(best)) if best < big else ("infeasible", None)
    okp = np.ones((len(R), len(R)), dtype=bool)
    for j in range(len(cons)):
        okp &= (sat[:, j][:, None] | sat[:, j][None, :])
    M1 = M[:, None, :]
    M2 = M[None, :, :]
    for w1 in range(W + 1):
        for w2 in range(w1 + 1):
            d = np.abs(f[None, None, :] - w1 * M1 - w2 * M2)
            dmax = int(d.max()) if d.size else 0
            for r1 in range(min(dmax, best) + 1):
                rest = np.maximum(d - r1 * M1, 0)
                need2 = np.where(M2 > 0, -(-rest // np.maximum(M2, 1)), np.where(rest > 0, big, 0)).max(axis=2) if len(E) else np.zeros((len(R), len(R)), dtype=np.int64)
                ok = okp if cap is None else (okp & (w1 <= cap)[:, None] & (r1 <= cap)[:, None] & (w2 <= cap)[None, :] & (need2 <= cap[None, :]))
                tot = np.where(ok, need2 + r1, big)
                v = int(tot.min())
                best = min(best, v)
    return ("opt", Fraction(best)) if best < big else ("infeasible", None)


def mpe_val(R, flow, k, wt, ignore=(), constraints=None, coverage=1.0, lengths=None, wmax=None):
    """min sum of route slacks >= 0 such that on every non-ignored edge |flow - explained| <= sum of the slacks of the routes through it
    (counted with multiplicity, as the weights are)"""
    import z3
    s = z3.Solver()
    sel, w = O._select(s, k, R, wt)
    T = z3.Int if wt is int else z3.Real
    sl = [T("sl%d" % i) for i in range(k)]
    for i in range(k):
        s.add(sl[i] >= 0)
    for e, fe in flow.items():
        if e in ignore:
            continue
        d = O._rv(fe) - O._through(sel, w, R, e, k)
        st = O._through(sel, sl, R, e, k)
        s.add(d <= st, -d <= st)
    O._constraints(s, sel, R, k, constraints, coverage, lengths)
    _z3_wmax(s, sel, R, k, ignore, wmax, [w, sl])
    return _minimise_sel(s, z3.Sum([z3.ToReal(x) if wt is int else x for x in sl] + [z3.RealVal(0)]), sel, wt)


def _cover_min(R, need, constraints, coverage, lengths, kmax=6):
    return O.min_cover([r for r in R], need, constraints, coverage, lengths, kmax=kmax)


# ------------------------------------------------------------------------------------------------ running the library

def _silence():
    import logging
    logging.getLogger("flowpaths").setLevel(logging.CRITICAL + 1)
    try:
        import flowpaths.utils as U
        U.logger.setLevel(logging.CRITICAL + 1)
        U.logger.disabled = True
    except Exception:
        pass


def _graph(case, feature):
    vals = {(u, v): f for u, v, f in case["edges"]}
    if feature:
        for u, v, nv in case["perturb"]:
            vals[(u, v)] = nv
    G = mkgraph([(u, v, vals[(u, v)]) for u, v, _ in case["edges"]])
    if case["covlen"] is not None:
        for e, l in _lengths(G).items():
            G.edges[e]["length"] = l
    return G


def lib_run(case, feature=True):
    import flowpaths as fp
    model = case["model"]
    cyc = cyclic(model)
    wt = int if case["wt"] == "int" else float
    G = _graph(case, feature)
    kw = {}
    if model not in COV:
        kw.update(flow_attr="flow", weight_type=wt)
    if model in HAS_K:
        kw["k"] = case["k"]
    if feature:
        cons = [[tuple(e) for e in c] for c in case["cons"]]
        if cons:
            if cyc:
                kw.update(subset_constraints=cons, subset_constraints_coverage=case["cov"])
            else:
                kw.update(subpath_constraints=cons, subpath_constraints_coverage=case["cov"])
                if case["covlen"] is not None:
                    kw.update(subpath_constraints_coverage_length=case["covlen"], length_attr="length")
        ign = [tuple(e) for e in case["ignore"]]
        if case.get("trust") == "all" and ign:
            kw["trusted_edges_for_safety"] = list(ign)          # exactly the ignored elements: nothing is asserted about the elements that count
        if ign:
            if case["via"] == "scale0":
                kw["error_scaling"] = {e: 0 for e in ign}
            else:
                kw["elements_to_ignore"] = ign
        if case["starts"]:
            kw["additional_starts"] = list(case["starts"])
        if case["ends"]:
            kw["additional_ends"] = list(case["ends"])
    try:
        m = getattr(fp, model)(G, **kw)
        ok = m.solve()
        if not (ok and m.is_solved()):
            return dict(solved=False, _m=m, _G=G, _kw=kw)
        sol = m.get_solution()
        routes = [list(r) for r in sol["walks" if cyc else "paths"]]
        out = dict(solved=True, routes=routes, weights=list(sol.get("weights", [])), obj=m.get_objective_value(), _m=m, _G=G, _kw=kw)
        if "slacks" in sol:
            out["slacks"] = list(sol["slacks"])
        return out
    except Exception as ex:
        return dict(solved=False, error="%s: %s" % (type(ex).__name__, str(ex)[:160]), exc=type(ex).__name__)


# ------------------------------------------------------------------------------------------------ the spec side

def spec(case, feature=True, rfilter=None, wmax=None):
    """oracle answer for the case: dict(kind='count'|'feas'|'value', value=..., complete=bool route list).
    rfilter / wmax are used ONLY to name the class of a failure (see cap_explained): the same problem restricted to the routes and
    multiplicity x value products that the library's own caps admit."""
    model = case["model"]
    cyc = cyclic(model)
    wt = int if case["wt"] == "int" else float
    G = mkgraph([(u, v, f) for u, v, f in case["edges"]])
    flow = {(u, v): f for u, v, f in case["edges"]}
    cons = [[tuple(e) for e in c] for c in case["cons"]] if feature else []
    if cyc:
        cons = [sorted(set(c)) for c in cons]
    ign = set(tuple(e) for e in case["ignore"]) if feature else set()
    starts, ends = (case["starts"], case["ends"]) if feature else ((), ())
    cov = case["covlen"] if case["covlen"] is not None else case["cov"]
    lengths = _lengths(G) if case["covlen"] is not None else None
    if cyc:
        mx = max([v for e, v in flow.items() if v is not None and e not in ign] + [1])
        caps = _caps(G, min(4, max(2, int(mx))))
        if model in FD:
            se = scc_edges(G)
            caps = {e: (1 if e not in se else (int(flow[e]) if e not in ign else min(4, max(2, int(mx))))) for e in G.edges()}
        R = _routes(G, True, caps, starts, ends)
    else:
        R = _routes(G, False, None, starts, ends)
    if rfilter is not None:
        R = [r_ for r_ in R if rfilter(r_)]
    k = case["k"]
    if model in FD:
        kpos = fd_min_pos(R, flow, ign, cons, cov, lengths)
        return dict(kind="count" if model.startswith("Min") else "feas", value=kpos, R=R, complete=not cyc or not ign)
    if model in COV:
        need = [e for e in flow if e not in ign]
        kc = _cover_min(R, need, cons, cov, lengths)
        return dict(kind="count" if model.startswith("Min") else "feas", value=kc, R=R, complete=True)
    # error models
    nz = {e: (0 if v is None else v) for e, v in flow.items()}
    if "LeastAbs" in model:
        if wt is int and k <= 2 and cyc:
            st, val = lae_int_enum(R, nz, k, ign, cons, cov, lengths, wmax=wmax)
        elif not R:
            st, val = "infeasible", None
        else:
            st, val = lae_val(R, nz, k, wt, ign, cons, cov, lengths, wmax=wmax)
    elif wt is int and k <= 2 and cyc:
        st, val = mpe_int_enum(R, nz, k, ign, cons, cov, lengths, wmax=wmax)
    elif not R:
        st, val = "infeasible", None
    else:
        st, val = mpe_val(R, nz, k, wt, ign, cons, cov, lengths, wmax=wmax)
    return dict(kind="value", value=val, feasible=(st != "infeasible"), R=R, complete=not cyc, caps=(caps if cyc else None))


# ------------------------------------------------------------------------------------------------ check

CAP_SUFFIX = " [explained by the library's own repetition cap]"


def cap_explained(case, r, s):
    """Classification only (no clause depends on it).  A cyclic-model clause has failed: read the library's OWN caps off the model it
    constructed - the per-edge repetition bound (floor of edge_upper_bounds: the edge's flow value in the decomposition models, the
    largest reachable value in the error models), w_max bounding multiplicity x weight (and x slack), and the multiplicity bound
    2^ceil(log2(w_max+1))-1 implied by the bit width of its integer x continuous product encoding - and recompute the oracle over
    exactly the routes / products those caps admit.  True iff that restricted problem reproduces the library's outcome."""
    import math
    model = case["model"]
    if not cyclic(model) or model in COV:
        return False
    try:
        import flowpaths as fp
        m = r.get("_m")
        inner = m
        nE = len(case["edges"])
        if model.startswith("Min"):
            inner = getattr(m, "fd_model", None) if r["solved"] else None
            if inner is None:
                kw = dict(r["_kw"])
                kw.pop("optimization_options", None)
                inner = fp.kFlowDecompCycles(r["_G"], k=max(1, nE), **kw)
        ubs = inner.edge_upper_bounds
        wmax = Fraction(inner.w_max).limit_denominator(10 ** 6)
        ign = set(tuple(e) for e in case["ignore"])
        bitcap = 2 ** int(math.ceil(math.log2(float(wmax) + 1))) - 1 if wmax > 0 else 0
        f1 = lambda rt: all(c <= math.floor(float(ubs[e]) + 1e-9) for e, c in rt.items())
        f3 = lambda rt: f1(rt) and all(c <= bitcap for e, c in rt.items() if e not in ign)
        wt = int if case["wt"] == "int" else float

        def same(t):
            if t["kind"] == "feas":
                return (not r["solved"]) and (t["value"] is None or t["value"] > case["k"])
            if t["kind"] == "count":
                if not r["solved"]:
                    return t["value"] is None or t["value"] > nE
                return t["value"] is not None and t["value"] == len(r["routes"])
            if not r["solved"]:
                return not t["feasible"]
            return t["feasible"] and t["value"] is not None and close(r["obj"], t["value"], wt)

        levels = [(f1, None), (f3, None)] if model in FD else [(f1, None), (f1, wmax), (f3, wmax)]
        for flt, wm in levels:
            if same(spec(case, True, rfilter=flt, wmax=wm)):
                return True
    except Exception:
        return False
    return False


def _pub(d):
    if isinstance(d, dict):
        return {k: _pub(v) for k, v in d.items() if not str(k).startswith("_")}
    return d


def _fail(fp_, what, detail=None):
    detail = _pub(detail)
    return dict(ok=False, nontrivial=True, fingerprint=fp_, what=what, detail=detail)


def _contained(case, routes):
    """clause K on the returned routes"""
    G = mkgraph([(u, v, f) for u, v, f in case["edges"]])
    lengths = _lengths(G) if case["covlen"] is not None else None
    cov = case["covlen"] if case["covlen"] is not None else case["cov"]
    tr = traversals(routes)
    for c in case["cons"]:
        c = [tuple(e) for e in c]
        if cyclic(case["model"]):
            c = sorted(set(c))
        if not any(O.constraint_ok({e: tr.get(e, {}).get(i, 0) for e in c}, c, cov, lengths) for i in range(len(routes))):
            return c
    return None


def _compare(case, r, s):
    """clauses O / I / A: library result r against spec answer s.  Returns None (agree), ('fail', fingerprint-core, text) or ('undecided', text)"""
    model, feat = case["model"], case["feature"]
    wt = int if case["wt"] == "int" else float
    if s["kind"] in ("count", "feas"):
        v = s["value"]
        if s["kind"] == "feas":
            k = case["k"]
            if v is not None and v <= k and not r["solved"]:
                return ("fail", "reported unsolved although an admissible solution with at most k routes exists", "oracle minimum %s <= k=%s" % (v, k))
            if (v is None or v > k) and r["solved"]:
                return ("recheck", "solved with k=%s although the oracle minimum is %s" % (k, v))
            return None
        if v is None:
            if r["solved"]:
                return ("recheck", "solved with %d routes although the oracle found nothing admissible" % len(r["routes"]))
            return None
        if not r["solved"]:
            return ("fail", "reported unsolved although an admissible solution exists", "oracle minimum %s" % v)
        n = len(r["routes"])
        if n > v:
            return ("fail", "number of routes above the minimum over the admissible solutions", "returned %d, achievable %d" % (n, v))
        if n < v:
            return ("recheck", "returned %d routes, oracle minimum %d" % (n, v))
        return None
    # value
    v = s["value"]
    if not s["feasible"]:
        if r["solved"]:
            return ("fail", "reported solved although no k routes satisfy the requirements", "objective %s" % r.get("obj"))
        return None
    if v is None:
        return ("undecided", "oracle gave no certified optimum")
    if not r["solved"]:
        return ("fail", "reported unsolved although an admissible solution exists", "oracle optimum %s" % v)
    if close(r["obj"], v, wt):
        return None
    if float(r["obj"]) > float(v):
        return ("fail", "objective above the optimum over the admissible solutions", "library %s, achievable %s" % (r["obj"], v))
    if s["complete"]:
        return ("fail", "objective below the optimum over the admissible solutions", "library %s, optimum %s" % (r["obj"], v))
    caps = s["caps"]
    tr = traversals(r["routes"])
    if all(max(t.values()) <= caps.get(e, 0) for e, t in tr.items()):
        return ("fail", "objective below the optimum over the admissible solutions", "library %s, optimum %s (returned walks are inside the oracle's caps)" % (r["obj"], v))
    return ("undecided", "library objective %s below the capped oracle value %s with walks outside the oracle caps" % (r["obj"], v))


def _recheck_fd_cov(case, r):
    """the library returned fewer routes than the positive-weight oracle minimum: verify its answer directly"""
    model = case["model"]
    flow = {(u, v): f for u, v, f in case["edges"]}
    ign = set(tuple(e) for e in case["ignore"])
    if model in COV:
        tr = traversals(r["routes"])
        miss = [e for e in flow if e not in ign and e not in tr]
        if miss:
            return "returned routes do not cover the non-ignored edge(s)", str(miss)
        return None
    for e, fe in flow.items():
        if e in ign:
            continue
        got = explained(r["routes"], r["weights"], e)
        if Fraction(got) != Fraction(fe):
            return "returned weighted routes do not explain the flow of a non-ignored edge", "edge %s: explained %s, flow %s" % (e, got, fe)
    return None


def check(case):
    _silence()
    model, feat = case["model"], case["feature"]
    cyc = cyclic(model)
    inst = ("[ignored elements also passed as trusted_edges_for_safety] " if case.get("trust") else "") + "%s(%s) k=%s wt=%s edges=%s cons=%s cov=%s covlen=%s ignore=%s via=%s perturb=%s starts=%s ends=%s" % (
        model, feat, case["k"], case["wt"], case["edges"], case["cons"], case["cov"], case["covlen"], case["ignore"], case["via"], case["perturb"], case["starts"], case["ends"])
    tag = {"constraint": "with constraints", "ignore": "with an ignored element" if case["via"] == "ignore" else "with error scale 0", "startend": "with additional starts/ends"}[feat]
    r = lib_run(case, True)
    if "error" in r:
        return _fail("%s raised %s on valid input %s" % (model, r["exc"], tag), r["error"] + " | " + inst)
    G0 = mkgraph([(u, v, f) for u, v, f in case["edges"]])
    if r["solved"]:
        for route in r["routes"]:
            good, why = is_route(G0, route, case["starts"], case["ends"], simple=not cyc)
            if not good:
                return _fail("%s: returned route is not admissible (not a route of the caller's graph from a source/additional start to a sink/additional end) %s" % (model, tag),
                             "%s: %s | %s" % (route, why, inst), r)
        bad = _contained(case, r["routes"])
        if bad is not None:
            return _fail("%s: constraint not contained to the requested coverage in a single returned route" % model, "constraint %s; routes %s | %s" % (bad, r["routes"], inst), r)
        if model in FD or model in COV:
            inv = _recheck_fd_cov(case, r)
            if inv:
                return _fail("%s: %s %s" % (model, inv[0], tag), inv[1] + " routes=%s weights=%s | %s" % (r["routes"], r.get("weights"), inst), r)
    s = spec(case, True)
    c = _compare(case, r, s)
    if c is None:
        return dict(ok=True, nontrivial=bool(r["solved"]) or s.get("value") is None, detail=dict(solved=r["solved"], obj=r.get("obj"), oracle=str(s.get("value"))))
    if c[0] == "undecided":
        return dict(ok=None, nontrivial=False, what=c[1] + " | " + inst)
    if c[0] == "recheck":
        # the library's answer was verified above (admissible routes, flow explained / edges covered, constraints contained)
        if model in FD and any(w == 0 for w in r["weights"]):
            return dict(ok=True, nontrivial=True, detail=dict(note="valid answer using a zero-weight route; " + c[1]))
        if not s["complete"]:
            return dict(ok=True, nontrivial=True, detail=dict(note="valid answer outside the oracle's caps; " + c[1]))
        return dict(ok=None, nontrivial=False, what="oracle inconsistency: " + c[1] + " | " + inst)
    # a failure.  Name its class (only): is the library's outcome exactly what its own repetition caps admit?
    suffix = CAP_SUFFIX if cap_explained(case, r, s) else ""
    return _fail("%s %s: %s%s" % (model, tag, c[1], suffix), "%s; library: %s | %s" % (c[2], {k_: r.get(k_) for k_ in ("solved", "routes", "weights", "obj", "slacks")}, inst),
                 dict(lib=r, oracle=str(s.get("value"))))


def run(tier="quick", seed=0, chunk=0, nchunks=1):
    from vf.bounded import run_cases
    return run_cases(cases(tier), check, chunk, nchunks, engine="rc",
                     rule="all DAGs on 3-4 named nodes and cyclic digraphs (3 nodes; one source, one sink, two inner nodes with <=6 edges, <=3 cycle edges%s) x 12 model classes x "
                          "{constraint lists (contiguous, gapped, overlapping, duplicated, unsatisfiable; coverage 1 / 0.5 / length 0.6), ignore sets of size 1-2 via elements_to_ignore or "
                          "error scale 0 (also with the ignored value changed), one additional start and/or end}; %d variants per feature, k in 1..3, int and float weights for the error models; "
                          "a sample under the second naming scheme; 3 curated instances; non-trivial = library solved (or the oracle proves there is nothing admissible)"
                          % (", every 3rd" if tier == "quick" else "", 3 if tier == "quick" else 4),
                     bounds="<=4 nodes, <=6 edges, values <=6 (superpositions of <=3 routes with weights <=3, +-2 noise for the error models); walk multiplicity caps 2..4 in the oracle")
