"""C10 bounded stand-in: constraints, ignored elements / error scale 0, additional start/end nodes - on every model class that accepts them.

Clauses (from the property statement):
  K   every subpath constraint (DAG) / subset constraint (cyclic) lies, to the requested edge- or length-coverage fraction,
      inside a single returned route
  O   the objective (number of routes / solved-ness for a given k / error value) is the optimum over exactly the solutions that
      satisfy the constraints                                   [oracle run with the same constraints / coverage / lengths]
  I   ignoring an element, or giving it error scale 0, removes its influence on feasibility and objective and nothing else
      [oracle with the element removed from the requirement set only; also after the ignored element's own value is changed]
  A   additional starts/ends enlarge the admissible route set by exactly the routes starting/ending there
      [returned routes admissible w.r.t. the enlarged set; objective = oracle optimum over the enlarged explicit route set]

Oracles: explicit route lists (all s-t paths of a DAG; all s-t walks as connected balanced multiplicity vectors under generous
caps), exact integer enumeration for decompositions and covers, certified z3 optimisation (rc.oracles) for the error models.
Soundness of a failure: on DAGs the route list is complete, so comparisons are two-sided.  On cyclic graphs the capped list makes the
oracle value *achievable* but not necessarily optimal; a failure is raised only when the library is worse than that value, claims
solved where nothing is admissible, or returns something that direct recomputation refutes."""
import itertools
from fractions import Fraction
import networkx as nx
from rc import graphs, oracles as O
from rc.common import mkgraph, is_route, explained, close, traversals

DAGM = ("kFlowDecomp", "MinFlowDecomp", "kLeastAbsErrors", "kMinPathError", "kPathCover", "MinPathCover")
CYCM = ("kFlowDecompCycles", "MinFlowDecompCycles", "kLeastAbsErrorsCycles", "kMinPathErrorCycles", "kPathCoverCycles", "MinPathCoverCycles")
FD = ("kFlowDecomp", "MinFlowDecomp", "kFlowDecompCycles", "MinFlowDecompCycles")
ERR = ("kLeastAbsErrors", "kMinPathError", "kLeastAbsErrorsCycles", "kMinPathErrorCycles")
COV = ("kPathCover", "MinPathCover", "kPathCoverCycles", "MinPathCoverCycles")
HAS_K = ("kFlowDecomp", "kLeastAbsErrors", "kMinPathError", "kPathCover", "kFlowDecompCycles", "kLeastAbsErrorsCycles", "kMinPathErrorCycles", "kPathCoverCycles")
HAS_SCALE = ERR
# classes that accept additional_starts / additional_ends with edge-level input
HAS_STARTS = ("kLeastAbsErrors", "kMinPathError", "kPathCover", "MinPathCover",
              "kFlowDecompCycles", "kLeastAbsErrorsCycles", "kMinPathErrorCycles", "kPathCoverCycles", "MinPathCoverCycles")


def cyclic(model):
    return model.endswith("Cycles")


# ------------------------------------------------------------------------------------------------ universe

def _on_st_walk(G, starts=(), ends=()):
    S = [v for v in G if G.in_degree(v) == 0 or v in starts]
    T = [v for v in G if G.out_degree(v) == 0 or v in ends]
    if not S or not T:
        return False
    fw, bw = set(S), set(T)
    for s in S:
        fw |= nx.descendants(G, s)
    for t in T:
        bw |= nx.ancestors(G, t)
    return all(u in fw and v in bw for u, v in G.edges())


def scc_edges(G):
    comp = {}
    for i, c in enumerate(nx.strongly_connected_components(G)):
        for v in c:
            comp[v] = i
    return {(u, v) for u, v in G.edges() if comp[u] == comp[v]}


def _cyc_graphs(names, quick):
    out = []
    for G in graphs.digraphs(3, names):
        if _on_st_walk(G) and not nx.is_directed_acyclic_graph(G):
            out.append(G)
    x, y, z, w = names[:4]
    cand = [(x, y), (x, z), (x, w), (y, y), (y, z), (z, y), (z, z), (y, w), (z, w)]
    n = 0
    for mask in range(1, 1 << len(cand)):
        G = nx.DiGraph([e for b, e in enumerate(cand) if mask >> b & 1])
        if G.number_of_edges() > 6 or len(scc_edges(G)) > 3 or not _on_st_walk(G) or nx.is_directed_acyclic_graph(G):
            continue
        n += 1
        if not quick or n % 3 == 0:
            out.append(G)
    return out


def _dag_graphs(names, quick):
    out = []
    for n in (3, 4):
        for gi, G in enumerate(graphs.dags(n, names)):
            if quick and n == 4 and G.number_of_edges() < 3:
                continue
            out.append(G)
    return out


def _lcg(seed):
    x = (seed * 2654435761 + 12345) & 0xFFFFFFFF
    while True:
        x = (x * 1103515245 + 12345) & 0x7FFFFFFF
        yield x >> 8


def _routes(G, cyc, caps=None, starts=(), ends=()):
    if not cyc:
        return [O.route_mult(p) for p in O.routes_dag(G, starts, ends)]
    return O.routes_walks(G, caps, starts, ends)


def _caps(G, C):
    se = scc_edges(G)
    return {e: (C if e in se else 1) for e in G.edges()}


def _superposed(G, cyc, rng, starts=(), ends=(), n=2):
    """a positive integer flow that is a superposition of <= 3 admissible routes covering all edges (None if none found)"""
    R = [r for r in _routes(G, cyc, _caps(G, 2) if cyc else None, starts, ends) if r]
    R = sorted(R, key=lambda m: sorted(m.items()))
    if not R:
        return None
    for attempt in range(30):
        cnt = 1 + next(rng) % 3
        f = {e: 0 for e in G.edges()}
        for _ in range(cnt):
            r = R[next(rng) % len(R)]
            w = 1 + next(rng) % 3
            for e, c in r.items():
                f[e] += w * c
        if all(v > 0 for v in f.values()) and max(f.values()) <= 6:
            return f
    return None


def _noisy(G, f, rng):
    """non-negative, not all zero edge values: a superposition with one or two entries changed"""
    g = dict(f) if f else {e: 1 + next(rng) % 3 for e in G.edges()}
    E = sorted(G.edges())
    for _ in range(1 + next(rng) % 2):
        e = E[next(rng) % len(E)]
        g[e] = max(0, g[e] + (next(rng) % 5) - 2)
    if not any(g.values()):
        g[E[0]] = 1
    return g


def _constraint_variants(G, cyc, rng):
    """list of (constraints, coverage, coverage_length or None)"""
    E = sorted(G.edges())
    out = []
    if not cyc:
        P = sorted((p for p in graphs.st_paths(G) if len(p) >= 3), key=lambda p: (-len(p), p))
        if P:
            p = P[0]
            pe = graphs.pedges(p)
            out.append(([pe[:2]], 1.0, None))                       # contiguous
            out.append(([pe[:2], pe[:2]], 1.0, None))               # duplicated
            out.append(([pe], 0.5, None))                           # whole path, half coverage
            out.append(([pe], 1.0, 0.6))                            # length coverage
            if len(pe) >= 3:
                out.append(([[pe[0], pe[-1]]], 1.0, None))          # gapped
                out.append(([pe[:2], pe[1:]], 1.0, None))           # overlapping
            if len(P) > 1:
                q = graphs.pedges(P[-1])
                out.append(([pe[:2], q[-2:]], 1.0, None))           # two constraints from two paths
        # edges out of the same node never lie on one path: no admissible solution at coverage 1
        for v in G:
            s = sorted(G.successors(v))
            if len(s) >= 2:
                out.append(([[(v, s[0]), (v, s[1])]], 1.0, None))
                out.append(([[(v, s[0]), (v, s[1])]], 0.5, None))
                break
    else:
        se = sorted(scc_edges(G))
        nse = [e for e in E if e not in se]
        out.append(([[se[0]] + nse[-1:]], 1.0, None))
        out.append(([[se[0]] + nse[:1], [se[-1]]], 1.0, None))
        out.append(([[se[0]] + nse[:1] + nse[-1:]], 0.5, None))
        out.append(([[se[-1]], [se[-1]]], 1.0, None))
        if len(nse) >= 2:
            out.append(([[nse[0], nse[-1]]], 1.0, None))
    return out


def _ignore_variants(G, f, rng):
    """list of (ignore list, perturbation {edge: new value or None})"""
    E = sorted(G.edges())
    a = E[next(rng) % len(E)]
    b = E[next(rng) % len(E)]
    out = [([a], {}), ([a], {a: 9}), ([a], {a: 0})]
    if b != a:
        out.append(([a, b], {}))
        out.append(([a, b], {a: 7, b: 0}))
    return out


def _startend_variants(G, rng):
    inner_s = sorted(v for v in G if G.in_degree(v) > 0)
    inner_t = sorted(v for v in G if G.out_degree(v) > 0)
    out = []
    if inner_s:
        out.append(([inner_s[next(rng) % len(inner_s)]], []))
    if inner_t:
        out.append(([], [inner_t[next(rng) % len(inner_t)]]))
    if inner_s and inner_t:
        out.append(([inner_s[next(rng) % len(inner_s)]], [inner_t[next(rng) % len(inner_t)]]))
    return out


def _lengths(G):
    return {e: 1 + (i * 2) % 3 for i, e in enumerate(sorted(G.edges()))}


def _mk(model, G, f, wt, k, feature, **kw):
    d = dict(model=model, feature=feature, wt=wt, k=k, edges=[[u, v, (None if f is None else f[(u, v)])] for u, v in sorted(G.edges())],
             cons=[], cov=1.0, covlen=None, ignore=[], via="ignore", perturb=[], starts=[], ends=[])
    d.update(kw)
    return d


def cases(tier):
    quick = tier == "quick"
    for names in (graphs.NAMES1, graphs.NAMES2):
        for cyc in (False, True):
            Gs = _cyc_graphs(names, quick) if cyc else _dag_graphs(names, quick)
            models = CYCM if cyc else DAGM
            for gi, G in enumerate(Gs):
                if names is graphs.NAMES2 and gi % (11 if quick else 4) != 1:
                    continue
                rng = _lcg(gi * 7 + (1000 if cyc else 0))
                f = _superposed(G, cyc, rng)
                if f is None:
                    continue
                g = _noisy(G, f, rng)
                cvs = _constraint_variants(G, cyc, rng)
                ivs = _ignore_variants(G, f, rng)
                svs = _startend_variants(G, rng)
                nvar = 2 if quick else 4
                for mi, model in enumerate(models):
                    vals = f if model in FD else (None if model in COV else g)
                    wts = ("int",) if model in FD or model in COV else (("int", "float")[(gi + mi) % 2],)
                    if not quick and model in ERR:
                        wts = ("int", "float")
                    for wt in wts:
                        ks = (None,)
                        if model in HAS_K:
                            ks = (1 + (gi + mi) % 2,) if quick else (1, 2, 3)
                            if model in ("kFlowDecomp", "kFlowDecompCycles", "kPathCover", "kPathCoverCycles"):
                                ks = (1 + (gi + mi) % 3,) if quick else (1, 2, 3)
                        for k in ks:
                            # constraints
                            for j in range(min(nvar, len(cvs))):
                                cons, cov, covlen = cvs[(gi + mi + j * 3) % len(cvs)]
                                if covlen is not None and cyc:
                                    continue
                                yield _mk(model, G, vals, wt, k, "constraint", cons=[[list(e) for e in c] for c in cons], cov=cov, covlen=covlen)
                            # ignoring / scale 0  (docs: every model except MinFlowDecomp offers elements_to_ignore; MinFlowDecomp has the parameter too)
                            for j in range(min(nvar, len(ivs))):
                                ign, pert = ivs[(gi + mi + j * 2) % len(ivs)]
                                if model in COV and pert:
                                    pert = {}
                                via = "scale0" if (model in HAS_SCALE and (gi + j) % 2) else "ignore"
                                yield _mk(model, G, vals, wt, k, "ignore", ignore=[list(e) for e in ign], via=via,
                                          perturb=[[e[0], e[1], v] for e, v in sorted(pert.items())])
                            # additional starts / ends
                            if model in HAS_STARTS:
                                for j in range(min(nvar if not quick else 1, len(svs))):
                                    st, en = svs[(gi + mi + j) % len(svs)]
                                    vv = vals
                                    if model in FD:
                                        vv = _superposed(G, cyc, _lcg(gi * 13 + j), st, en)
                                        if vv is None:
                                            continue
                                    yield _mk(model, G, vv, wt, k, "startend", starts=list(st), ends=list(en))
    # curated: documentation examples (docs/subpath-constraints.md, docs/ignoring-edges.md, docs/additional-start-end-nodes.md)
    doc = [["s", "a", 6], ["s", "b", 7], ["a", "b", 2], ["a", "c", 4], ["b", "c", 9], ["c", "d", 6], ["c", "t", 7], ["d", "t", 6]]
    yield dict(model="MinFlowDecomp", feature="constraint", wt="int", k=None, edges=doc, cons=[[["a", "c"], ["c", "t"]]], cov=1.0, covlen=None,
               ignore=[], via="ignore", perturb=[], starts=[], ends=[])
    yield dict(model="kMinPathError", feature="ignore", wt="int", k=3, edges=[[u, v, 10 * f] for u, v, f in doc] + [["a", "d", 1]], cons=[], cov=1.0, covlen=None,
               ignore=[["a", "d"]], via="ignore", perturb=[], starts=[], ends=[])
    # D10 witness (DESIGN section 4): ignored edges carrying many distinct values
    yield dict(model="MinFlowDecomp", feature="ignore", wt="int", k=None,
               edges=[["x", "y", 4], ["y", "z", 4], ["x", "z", 1], ["y", "w", 2], ["z", "w", 3], ["x", "w", 5]], cons=[], cov=1.0, covlen=None,
               ignore=[["x", "z"], ["y", "w"], ["z", "w"], ["x", "w"]], via="ignore", perturb=[], starts=[], ends=[])


# ------------------------------------------------------------------------------------------------ oracles of this module

def fd_min_pos(R, flow, ignore=(), constraints=(), coverage=1.0, lengths=None, kmax=6):
    """exact minimum number of (route, integer weight >= 1) pairs from R explaining `flow` on the non-ignored edges, each constraint
    inside one chosen route.  Exhaustive (iterative deepening; branch on the routes through the non-ignored edge with the smallest
    positive remainder; failures memoised).  None = no such decomposition with <= kmax routes."""
    E = sorted(e for e in flow if e not in ignore)
    constraints = [list(c) for c in constraints]
    Rl = [r for r in R if all(r.get(e, 0) <= flow[e] for e in E)]
    vec = [tuple(r.get(e, 0) for e in E) for r in Rl]
    sat = [sum(1 << j for j, c in enumerate(constraints) if O.constraint_ok(r, c, coverage, lengths)) for r in Rl]
    full = (1 << len(constraints)) - 1
    acc = 0
    for s_ in sat:
        acc |= s_
    if acc != full:
        return None
    byvec = {}
    for v, s_ in zip(vec, sat):
        byvec.setdefault(v, set()).add(s_)
    through = [[i for i, v in enumerate(vec) if v[j]] for j in range(len(E))]
    zero = [i for i, v in enumerate(vec) if not any(v)]       # routes running over ignored edges only: weight is free, count as one route
    fail = set()
    nE = len(E)

    def rec(rem, left, got):
        if not any(rem):
            if got == full:
                return True
            if left == 0:
                return False
            key = (rem, left, got)
            if key in fail:
                return False
            for i in zero:
                if sat[i] & ~got and rec(rem, left - 1, got | sat[i]):
                    return True
            fail.add(key)
            return False
        if left == 0:
            return False
        key = (rem, left, got)
        if key in fail:
            return False
        if left == 1:
            g = min(x for x in rem if x)
            for w in range(1, g + 1):
                if all(x % w == 0 for x in rem):
                    for s_ in byvec.get(tuple(x // w for x in rem), ()):
                        if (got | s_) == full:
                            return True
            fail.add(key)
            return False
        j0 = min((j for j in range(nE) if rem[j] > 0), key=lambda j: (rem[j], len(through[j])))
        for i in through[j0]:
            v = vec[i]
            wmax = min(rem[j] // v[j] for j in range(nE) if v[j])
            for w in range(1, wmax + 1):
                if rec(tuple(rem[j] - w * v[j] for j in range(nE)), left - 1, got | sat[i]):
                    return True
        for i in zero:
            if sat[i] & ~got and rec(rem, left - 1, got | sat[i]):
                return True
        fail.add(key)
        return False

    start = tuple(int(flow[e]) for e in E)
    if not any(start):
        # nothing to explain: the constraints alone decide
        return O.min_cover(Rl, [], constraints, coverage, lengths, kmax=kmax) or None
    for k in range(1, kmax + 1):
        if rec(start, k, 0):
            return k
    return None


def _cover_min(R, need, constraints, coverage, lengths, kmax=6):
    return O.min_cover([r for r in R], need, constraints, coverage, lengths, kmax=kmax)


# ------------------------------------------------------------------------------------------------ running the library

def _silence():
    import logging
    logging.getLogger("flowpaths").setLevel(logging.CRITICAL + 1)
    try:
        import flowpaths.utils as U
        U.logger.setLevel(logging.CRITICAL + 1)
        U.logger.disabled = True
    except Exception:
        pass


def _graph(case, feature):
    vals = {(u, v): f for u, v, f in case["edges"]}
    if feature:
        for u, v, nv in case["perturb"]:
            vals[(u, v)] = nv
    G = mkgraph([(u, v, vals[(u, v)]) for u, v, _ in case["edges"]])
    if case["covlen"] is not None:
        for e, l in _lengths(G).items():
            G.edges[e]["length"] = l
    return G


def lib_run(case, feature=True):
    import flowpaths as fp
    model = case["model"]
    cyc = cyclic(model)
    wt = int if case["wt"] == "int" else float
    G = _graph(case, feature)
    kw = {}
    if model not in COV:
        kw.update(flow_attr="flow", weight_type=wt)
    if model in HAS_K:
        kw["k"] = case["k"]
    if feature:
        cons = [[tuple(e) for e in c] for c in case["cons"]]
        if cons:
            if cyc:
                kw.update(subset_constraints=cons, subset_constraints_coverage=case["cov"])
            else:
                kw.update(subpath_constraints=cons, subpath_constraints_coverage=case["cov"])
                if case["covlen"] is not None:
                    kw.update(subpath_constraints_coverage_length=case["covlen"], length_attr="length")
        ign = [tuple(e) for e in case["ignore"]]
        if ign:
            if case["via"] == "scale0":
                kw["error_scaling"] = {e: 0 for e in ign}
            else:
                kw["elements_to_ignore"] = ign
        if case["starts"]:
            kw["additional_starts"] = list(case["starts"])
        if case["ends"]:
            kw["additional_ends"] = list(case["ends"])
    try:
        m = getattr(fp, model)(G, **kw)
        ok = m.solve()
        if not (ok and m.is_solved()):
            return dict(solved=False)
        sol = m.get_solution()
        routes = [list(r) for r in sol["walks" if cyc else "paths"]]
        out = dict(solved=True, routes=routes, weights=list(sol.get("weights", [])), obj=m.get_objective_value())
        if "slacks" in sol:
            out["slacks"] = list(sol["slacks"])
        return out
    except Exception as ex:
        return dict(solved=False, error="%s: %s" % (type(ex).__name__, str(ex)[:160]), exc=type(ex).__name__)


# ------------------------------------------------------------------------------------------------ the spec side

def spec(case, feature=True):
    """oracle answer for the case: dict(kind='count'|'feas'|'value', value=..., complete=bool route list)"""
    model = case["model"]
    cyc = cyclic(model)
    wt = int if case["wt"] == "int" else float
    G = mkgraph([(u, v, f) for u, v, f in case["edges"]])
    flow = {(u, v): f for u, v, f in case["edges"]}
    cons = [[tuple(e) for e in c] for c in case["cons"]] if feature else []
    if cyc:
        cons = [sorted(set(c)) for c in cons]
    ign = set(tuple(e) for e in case["ignore"]) if feature else set()
    starts, ends = (case["starts"], case["ends"]) if feature else ((), ())
    cov = case["covlen"] if case["covlen"] is not None else case["cov"]
    lengths = _lengths(G) if case["covlen"] is not None else None
    if cyc:
        mx = max([v for e, v in flow.items() if v is not None and e not in ign] + [1])
        caps = _caps(G, min(4, max(2, int(mx))))
        if model in FD:
            se = scc_edges(G)
            caps = {e: (1 if e not in se else (int(flow[e]) if e not in ign else min(4, max(2, int(mx))))) for e in G.edges()}
        R = _routes(G, True, caps, starts, ends)
    else:
        R = _routes(G, False, None, starts, ends)
    k = case["k"]
    if model in FD:
        kpos = fd_min_pos(R, flow, ign, cons, cov, lengths)
        return dict(kind="count" if model.startswith("Min") else "feas", value=kpos, R=R, complete=not cyc or not ign)
    if model in COV:
        need = [e for e in flow if e not in ign]
        kc = _cover_min(R, need, cons, cov, lengths)
        return dict(kind="count" if model.startswith("Min") else "feas", value=kc, R=R, complete=True)
    # error models
    nz = {e: (0 if v is None else v) for e, v in flow.items()}
    if "LeastAbs" in model:
        feas = _cover_min(R, [], cons, cov, lengths, kmax=k)
        val = O.lae_opt(R, nz, k, wt, ignore=ign, constraints=cons, coverage=cov, lengths=lengths) if feas is not None else None
    else:
        need = [e for e, v in nz.items() if e not in ign and v > 0]
        feas = _cover_min(R, need, cons, cov, lengths, kmax=k)
        val = O.mpe_opt(R, nz, k, wt, ignore=ign, constraints=cons, coverage=cov, lengths=lengths) if feas is not None else None
    return dict(kind="value", value=val, feasible=feas is not None, R=R, complete=not cyc, caps=(caps if cyc else None))


# ------------------------------------------------------------------------------------------------ check

def _fail(fp_, what, detail=None):
    return dict(ok=False, nontrivial=True, fingerprint=fp_, what=what, detail=detail)


def _contained(case, routes):
    """clause K on the returned routes"""
    G = mkgraph([(u, v, f) for u, v, f in case["edges"]])
    lengths = _lengths(G) if case["covlen"] is not None else None
    cov = case["covlen"] if case["covlen"] is not None else case["cov"]
    tr = traversals(routes)
    for c in case["cons"]:
        c = [tuple(e) for e in c]
        if cyclic(case["model"]):
            c = sorted(set(c))
        if not any(O.constraint_ok({e: tr.get(e, {}).get(i, 0) for e in c}, c, cov, lengths) for i in range(len(routes))):
            return c
    return None


def _compare(case, r, s):
    """clauses O / I / A: library result r against spec answer s.  Returns None (agree), ('fail', fingerprint-core, text) or ('undecided', text)"""
    model, feat = case["model"], case["feature"]
    wt = int if case["wt"] == "int" else float
    if s["kind"] in ("count", "feas"):
        v = s["value"]
        if s["kind"] == "feas":
            k = case["k"]
            if v is not None and v <= k and not r["solved"]:
                return ("fail", "reported unsolved although an admissible solution with at most k routes exists", "oracle minimum %s <= k=%s" % (v, k))
            if (v is None or v > k) and r["solved"]:
                return ("recheck", "solved with k=%s although the oracle minimum is %s" % (k, v))
            return None
        if v is None:
            if r["solved"]:
                return ("recheck", "solved with %d routes although the oracle found nothing admissible" % len(r["routes"]))
            return None
        if not r["solved"]:
            return ("fail", "reported unsolved although an admissible solution exists", "oracle minimum %s" % v)
        n = len(r["routes"])
        if n > v:
            return ("fail", "number of routes above the minimum over the admissible solutions", "returned %d, achievable %d" % (n, v))
        if n < v:
            return ("recheck", "returned %d routes, oracle minimum %d" % (n, v))
        return None
    # value
    v = s["value"]
    if not s["feasible"]:
        if r["solved"]:
            return ("fail", "reported solved although no k routes satisfy the requirements", "objective %s" % r.get("obj"))
        return None
    if v is None:
        return ("undecided", "oracle gave no certified optimum")
    if not r["solved"]:
        return ("fail", "reported unsolved although an admissible solution exists", "oracle optimum %s" % v)
    if close(r["obj"], v, wt):
        return None
    if float(r["obj"]) > float(v):
        return ("fail", "objective above the optimum over the admissible solutions", "library %s, achievable %s" % (r["obj"], v))
    if s["complete"]:
        return ("fail", "objective below the optimum over the admissible solutions", "library %s, optimum %s" % (r["obj"], v))
    caps = s["caps"]
    tr = traversals(r["routes"])
    if all(max(t.values()) <= caps.get(e, 0) for e, t in tr.items()):
        return ("fail", "objective below the optimum over the admissible solutions", "library %s, optimum %s (returned walks are inside the oracle's caps)" % (r["obj"], v))
    return ("undecided", "library objective %s below the capped oracle value %s with walks outside the oracle caps" % (r["obj"], v))


def _recheck_fd_cov(case, r):
    """the library returned fewer routes than the positive-weight oracle minimum: verify its answer directly"""
    model = case["model"]
    flow = {(u, v): f for u, v, f in case["edges"]}
    ign = set(tuple(e) for e in case["ignore"])
    if model in COV:
        tr = traversals(r["routes"])
        miss = [e for e in flow if e not in ign and e not in tr]
        if miss:
            return "returned routes do not cover the non-ignored edge(s)", str(miss)
        return None
    for e, fe in flow.items():
        if e in ign:
            continue
        got = explained(r["routes"], r["weights"], e)
        if Fraction(got) != Fraction(fe):
            return "returned weighted routes do not explain the flow of a non-ignored edge", "edge %s: explained %s, flow %s" % (e, got, fe)
    return None


def check(case):
    _silence()
    model, feat = case["model"], case["feature"]
    cyc = cyclic(model)
    inst = "%s(%s) k=%s wt=%s edges=%s cons=%s cov=%s covlen=%s ignore=%s via=%s perturb=%s starts=%s ends=%s" % (
        model, feat, case["k"], case["wt"], case["edges"], case["cons"], case["cov"], case["covlen"], case["ignore"], case["via"], case["perturb"], case["starts"], case["ends"])
    tag = {"constraint": "with constraints", "ignore": "with an ignored element" if case["via"] == "ignore" else "with error scale 0", "startend": "with additional starts/ends"}[feat]
    r = lib_run(case, True)
    if "error" in r:
        return _fail("%s raised %s on valid input %s" % (model, r["exc"], tag), r["error"] + " | " + inst)
    G0 = mkgraph([(u, v, f) for u, v, f in case["edges"]])
    if r["solved"]:
        for route in r["routes"]:
            good, why = is_route(G0, route, case["starts"], case["ends"], simple=not cyc)
            if not good:
                return _fail("%s: returned route is not admissible (not a route of the caller's graph from a source/additional start to a sink/additional end) %s" % (model, tag),
                             "%s: %s | %s" % (route, why, inst), r)
        bad = _contained(case, r["routes"])
        if bad is not None:
            return _fail("%s: constraint not contained to the requested coverage in a single returned route" % model, "constraint %s; routes %s | %s" % (bad, r["routes"], inst), r)
        if model in FD or model in COV:
            inv = _recheck_fd_cov(case, r)
            if inv:
                return _fail("%s: %s %s" % (model, inv[0], tag), inv[1] + " routes=%s weights=%s | %s" % (r["routes"], r.get("weights"), inst), r)
    s = spec(case, True)
    c = _compare(case, r, s)
    if c is None:
        return dict(ok=True, nontrivial=bool(r["solved"]) or s.get("value") is None, detail=dict(solved=r["solved"], obj=r.get("obj"), oracle=str(s.get("value"))))
    if c[0] == "undecided":
        return dict(ok=None, nontrivial=False, what=c[1] + " | " + inst)
    if c[0] == "recheck":
        # the library's answer was verified above (admissible routes, flow explained / edges covered, constraints contained)
        if model in FD and any(w == 0 for w in r["weights"]):
            return dict(ok=True, nontrivial=True, detail=dict(note="valid answer using a zero-weight route; " + c[1]))
        if not s["complete"]:
            return dict(ok=True, nontrivial=True, detail=dict(note="valid answer outside the oracle's caps; " + c[1]))
        return dict(ok=None, nontrivial=False, what="oracle inconsistency: " + c[1] + " | " + inst)
    # a failure: does the same model already disagree with its oracle without the feature?
    suffix = ""
    if not (model in FD and feat == "startend"):
        try:
            rb = lib_run(case, False)
            if "error" not in rb:
                cb = _compare(dict(case, cons=[], ignore=[], starts=[], ends=[], perturb=[]), rb, spec(case, False))
                if cb is not None and cb[0] == "fail":
                    suffix = " [the same model without the feature already disagrees with its oracle]"
        except Exception:
            pass
    return _fail("%s %s: %s%s" % (model, tag, c[1], suffix), "%s; library: %s | %s" % (c[2], {k_: r.get(k_) for k_ in ("solved", "routes", "weights", "obj", "slacks")}, inst),
                 dict(lib=r, oracle=str(s.get("value"))))


def run(tier="quick", seed=0, chunk=0, nchunks=1):
    from vf.bounded import run_cases
    return run_cases(cases(tier), check, chunk, nchunks, engine="rc",
                     rule="all DAGs on 3-4 named nodes and cyclic digraphs (3 nodes; one source, one sink, two inner nodes with <=6 edges, <=3 cycle edges%s) x 12 model classes x "
                          "{constraint lists (contiguous, gapped, overlapping, duplicated, unsatisfiable; coverage 1 / 0.5 / length 0.6), ignore sets of size 1-2 via elements_to_ignore or "
                          "error scale 0 (also with the ignored value changed), one additional start and/or end}; %d variants per feature, k in 1..3, int and float weights for the error models; "
                          "a sample under the second naming scheme; 3 curated instances; non-trivial = library solved (or the oracle proves there is nothing admissible)"
                          % (", every 3rd" if tier == "quick" else "", 2 if tier == "quick" else 4),
                     bounds="<=4 nodes, <=6 edges, values <=6 (superpositions of <=3 routes with weights <=3, +-2 noise for the error models); walk multiplicity caps 2..4 in the oracle")
