"""C05 bounded stand-in: optimisation options never change solvability or the optimal objective.

Relational contract, taken from the property statement:   verdict(instance, options) == verdict(instance, {})
with  verdict = (solved?, objective)  and
    objective = number of returned paths/walks   for MinFlowDecomp(/Cycles), MinPathCover(/Cycles)
              = get_objective_value()             for kLeastAbsErrors(/Cycles) (total absolute error), kMinPathError(/Cycles) (total slack)
              = k                                 for kFlowDecomp(/Cycles), kPathCover(/Cycles)  (pure feasibility: only `solved?` carries information)
No oracle is needed: the reference is the library's own default-options run on the same input (the optimum itself is
C03/C04/C07/C08/C09's business); the input domain is kept inside those properties' domains (positive conserving integer-valued
flows for the decomposition models, non-negative not-all-zero weights for the error models, >= 1 non-ignored edge for covers).

Option set = keys listed in docs/solver-options-optimizations.md  +  those named in the property statement (DESIGN 3.0):
  DAG models     optimize_with_safe_paths, optimize_with_safe_sequences, optimize_with_safe_zero_edges,
                 optimize_with_safety_as_subpath_constraints; decomposition models also optimize_with_flow_safe_paths,
                 optimize_with_greedy; MinFlowDecomp also use_min_gen_set_lowerbound, use_subgraph_scanning_lowerbound,
                 optimize_with_guessed_weights
  cyclic models  optimize_with_safe_sequences, optimize_with_safe_sequences_allow_geq_constraints,
                 optimize_with_safe_sequences_fix_via_bounds, optimize_with_safe_sequences_fix_zero_edges,
                 optimize_with_safety_as_subset_constraints, optimize_with_max_safe_antichain_as_subset_constraints;
                 MinFlowDecompCycles also use_min_gen_set_lowerbound, optimize_with_guessed_weights
Validity predicate (documented-invalid combinations are NOT in the domain, they belong to C19):
  * safe paths together with safe sequences ("you cannot set both"); the documented way to switch safe sequences on is
    {"optimize_with_safe_paths": False, "optimize_with_safe_sequences": True} - that is what "switching safe sequences on" means here;
  * decomposition models: flow-safe paths (default on) together with an explicit optimize_with_safe_paths=True or with safe
    sequences (flow-safe paths are safe paths; the class raises ValueError by documentation) - "switching safe paths /
    sequences on" therefore includes optimize_with_flow_safe_paths=False;
  * an explicit optimize_with_safe_zero_edges=True with none of safe paths / safe sequences / flow-safe paths in effect
    ("You cannot set this without setting one of the above").
A combination the predicate accepts must be accepted by the class: a ValueError for it is reported (it is neither solved
nor unsolved - the option changed solvability).

One case = one instance x up to GROUP option sets (the default-options reference run is shared, and cached per process).  A
failure is attributed to the smallest part of the combination that already differs on that instance, so fingerprints stay
class-level ("<Class>: <kind of difference> under {<flag>=<value>}").  Instances use only documented inputs: sub-path /
subset constraints, `elements_to_ignore` (documented in every class docstring, MinFlowDecomp included), additional start/end
nodes.  The witnesses of the defects found so far are part of every tier (curated block in _instances).  All runs use
solver_options={"threads": 1} (a documented solver option) to halve the CPU cost."""
import itertools
import networkx as nx
from rc import graphs, oracles as O
from rc.common import mkgraph, TOL

SP, SS, ZE, FS = "optimize_with_safe_paths", "optimize_with_safe_sequences", "optimize_with_safe_zero_edges", "optimize_with_flow_safe_paths"
SASC, GREEDY = "optimize_with_safety_as_subpath_constraints", "optimize_with_greedy"
MGS, SCAN, GUESS = "use_min_gen_set_lowerbound", "use_subgraph_scanning_lowerbound", "optimize_with_guessed_weights"
GEQ, BOUNDS, ZEC = "optimize_with_safe_sequences_allow_geq_constraints", "optimize_with_safe_sequences_fix_via_bounds", "optimize_with_safe_sequences_fix_zero_edges"
SASS, ANTI = "optimize_with_safety_as_subset_constraints", "optimize_with_max_safe_antichain_as_subset_constraints"

# flag -> value in effect when the key is absent (the code's default; for optimize_with_safe_zero_edges the docs say False, the code True)
DAG_BASE = {SP: True, SS: False, ZE: True, SASC: False}
CYC_BASE = {SS: True, GEQ: True, BOUNDS: False, ZEC: True, SASS: False, ANTI: False}
FLAGS = {
    "kFlowDecomp": dict(DAG_BASE, **{FS: True, GREEDY: True}),
    "MinFlowDecomp": dict(DAG_BASE, **{FS: True, GREEDY: True, MGS: False, SCAN: False, GUESS: False}),
    "kMinPathError": DAG_BASE, "kLeastAbsErrors": DAG_BASE, "kPathCover": DAG_BASE, "MinPathCover": DAG_BASE,
    "kFlowDecompCycles": CYC_BASE, "kMinPathErrorCycles": CYC_BASE, "kLeastAbsErrorsCycles": CYC_BASE,
    "kPathCoverCycles": CYC_BASE, "MinPathCoverCycles": CYC_BASE,
    "MinFlowDecompCycles": dict(CYC_BASE, **{MGS: False, GUESS: False}),
}
FD_DAG = ("kFlowDecomp", "MinFlowDecomp")
MIN_MODELS = ("MinFlowDecomp", "MinPathCover", "MinFlowDecompCycles", "MinPathCoverCycles")
K_FEAS = ("kFlowDecomp", "kPathCover", "kFlowDecompCycles", "kPathCoverCycles")
SHORT = {SP: "safe_paths", SS: "safe_sequences", ZE: "safe_zero_edges", FS: "flow_safe_paths", SASC: "safety_as_subpath_constraints",
         GREEDY: "greedy", MGS: "min_gen_set_lowerbound", SCAN: "subgraph_scanning_lowerbound", GUESS: "guessed_weights",
         GEQ: "allow_geq_constraints", BOUNDS: "fix_via_bounds", ZEC: "fix_zero_edges", SASS: "safety_as_subset_constraints",
         ANTI: "max_safe_antichain_as_subset_constraints"}


def cyclic(model):
    return model.endswith("Cycles")


# ------------------------------------------------------------------------------------------------ option domain

def valid(model, opts):
    """the documented validity predicate (see module docstring)"""
    if cyclic(model):
        return True
    fd = model in FD_DAG
    eff_fs = fd and opts.get(FS, True)
    eff_sp = opts.get(SP, True)
    eff_ss = opts.get(SS, False)
    if eff_ss and (eff_sp or eff_fs):
        return False
    if eff_fs and opts.get(SP, False):
        return False
    if opts.get(ZE, False) and not (eff_sp or eff_ss or eff_fs):
        return False
    return True


def complete(model, opts):
    """'switching X on' includes the documented prerequisites of X (only keys that the combination leaves open are added)"""
    o = dict(opts)
    if cyclic(model):
        return o
    if o.get(SS) is True and SP not in o:
        o[SP] = False
    if model in FD_DAG and (o.get(SS) is True or o.get(SP) is True) and FS not in o:
        o[FS] = False
    return o


def option_sets(model, mode):
    """mode 'quick': every flag alone (both values), every pair of flags both switched away from the value in effect by default;
    'pairs4': every pair with all four value combinations; 'full': the full cross product (each flag absent-or-switched)"""
    base = FLAGS[model]
    names = list(base)
    raw = []
    for f in names:
        raw.append({f: not base[f]})
        raw.append({f: base[f]})
    for a, b in itertools.combinations(names, 2):
        if mode == "pairs4":
            for va in (True, False):
                for vb in (True, False):
                    raw.append({a: va, b: vb})
        else:
            raw.append({a: not base[a], b: not base[b]})
    if mode == "full":
        for bits in itertools.product((0, 1), repeat=len(names)):
            raw.append({f: not base[f] for f, b in zip(names, bits) if b})
    seen, out = set(), []
    for o in raw:
        o = complete(model, o)
        key = tuple(sorted(o.items()))
        if not o or key in seen or not valid(model, o):
            continue
        seen.add(key)
        out.append(o)
    return out


# ------------------------------------------------------------------------------------------------ universe

def _lcg(seed):
    x = (seed * 2654435761 + 12345) & 0xFFFFFFFF
    while True:
        x = (x * 1103515245 + 12345) & 0x7FFFFFFF
        yield x >> 8


def _on_st_walk(G, starts=(), ends=()):
    S = [v for v in G if G.in_degree(v) == 0 or v in starts]
    T = [v for v in G if G.out_degree(v) == 0 or v in ends]
    if not S or not T:
        return False
    fw, bw = set(S), set(T)
    for s in S:
        fw |= nx.descendants(G, s)
    for t in T:
        bw |= nx.ancestors(G, t)
    return all(u in fw and v in bw for u, v in G.edges())


def _scc_edges(G):
    comp = {}
    for i, c in enumerate(nx.strongly_connected_components(G)):
        for v in c:
            comp[v] = i
    return {(u, v) for u, v in G.edges() if comp[u] == comp[v]}


def _inner4(names):
    """one source, one sink, two inner nodes; every subset of the 9 possible edges that has a cycle and every edge on an s-t walk"""
    x, y, z, w = names[:4]
    cand = [(x, y), (x, z), (x, w), (y, y), (y, z), (z, y), (z, z), (y, w), (z, w)]
    for mask in range(1, 1 << len(cand)):
        G = nx.DiGraph()
        for b, e in enumerate(cand):
            if mask >> b & 1:
                G.add_edge(*e)
        yield G


def _multi(names):
    """several sources / sinks, two SCCs in series or in parallel, parallel inter-SCC edges"""
    x, y, z, w, v = names[:5]
    for E in ([(x, y), (v, y), (y, y), (y, w)], [(x, y), (y, z), (z, y), (y, w), (z, v)], [(x, y), (v, z), (y, z), (z, y), (z, w)],
              [(x, y), (y, y), (y, z), (z, z), (z, w)], [(x, y), (y, y), (y, w), (x, z), (z, z), (z, w)],
              [(x, y), (y, z), (z, y), (y, w), (z, w)], [(x, y), (x, z), (y, z), (z, y), (y, w), (z, w)],
              [(x, y), (y, z), (z, y), (y, v), (z, v), (v, v), (v, w)]):
        yield nx.DiGraph(E)


def cyclic_topologies(tier, names):
    out = [G for G in graphs.digraphs(3, names) if not nx.is_directed_acyclic_graph(G) and _on_st_walk(G)]
    out = out[::4] if tier == "quick" else out
    inner = [G for G in _inner4(names) if not nx.is_directed_acyclic_graph(G) and _on_st_walk(G)]
    out += inner[:: (16 if tier == "quick" else 4)]
    out += list(_multi(names))
    return out


def dag_topologies(tier, names):
    out = []
    for n in ((2, 3, 4) if tier == "quick" else (2, 3, 4, 5)):
        L = list(graphs.dags(n, names))
        if n == 4 and tier == "quick":
            L = L[1::3]
        if n == 5:
            L = L[3::48]
        out += L
    return out


def _edges(G):
    return sorted(G.edges())


def dag_flows(G, n):
    """positive conserving integer flows (superpositions of <= 3 paths, weights 1..3)"""
    return [[[u, v, f[(u, v)]] for u, v in _edges(G)] for _, f in list(graphs.flows_from_paths(G))[:n]]


def walk_flows(G, n, seed):
    """positive integer flows that are superpositions of <= 3 s-t walks (repetition <= 2 inside SCCs), weights 1..2"""
    scc = _scc_edges(G)
    caps = {e: (2 if e in scc else 1) for e in G.edges()}
    R = O.routes_walks(G, caps)
    R.sort(key=lambda m: sorted(m.items()))
    rng = _lcg(seed)
    out, seen = [], set()
    for size in (1, 2, 3):
        for combo in itertools.combinations(range(len(R)), size):
            if len(out) >= n:
                return out
            if not all(any(e in R[j] for j in combo) for e in G.edges()):
                continue
            ws = [1 + next(rng) % 2 for _ in combo]
            f = {e: sum(w * R[j].get(e, 0) for w, j in zip(ws, combo)) for e in G.edges()}
            key = tuple(sorted(f.items()))
            if key in seen:
                continue
            seen.add(key)
            out.append([[u, v, f[(u, v)]] for u, v in _edges(G)])
    return out


def noisy(flow, seed):
    """non-negative, not all zero, not (necessarily) conserving"""
    rng = _lcg(seed)
    out = [[u, v, max(0, f + (next(rng) % 3) - 1)] for u, v, f in flow]
    if all(f == 0 for _, _, f in out):
        out[0][2] = 1
    return out


def _constraint(G, cyc, seed):
    """two consecutive edges of the graph (a contiguous sub-path), or None"""
    cands = [[[u, v], [v, w]] for u, v in _edges(G) for w in sorted(G.successors(v)) if (u, v) != (v, w)]
    if not cands:
        return None
    return cands[seed % len(cands)]


def _mk(model, edges, wt="int", k=None, cons=None, ign=None, starts=None, ends=None, opts=None, cov=None, covlen=None):
    """covlen = [fraction, [[u, v, length], ...]]: length coverage of the subpath constraints (DAG models)"""
    d = dict(model=model, edges=edges, wt=wt, k=k, cons=cons, ign=ign, starts=starts, ends=ends, opts=opts or {}, cov=cov)
    if covlen is not None:
        d["covlen"] = covlen
    return d


def _instances(tier):
    """instance descriptions without options, deterministic"""
    quick = tier == "quick"
    # ---- DAG models
    for ni, names in enumerate((graphs.NAMES1, graphs.NAMES2)):
        tops = dag_topologies(tier, names)
        if ni == 1:
            tops = tops[2::7]
        for gi, G in enumerate(tops):
            nE = G.number_of_edges()
            fl = dag_flows(G, 1 if quick else 2)
            cons = _constraint(G, False, gi)
            ks = (1, 2) if nE <= 3 else (2, 3)
            for fi, f in enumerate(fl):
                wt = "int" if (gi + fi) % 3 else "float"
                for k in ks:
                    yield _mk("kFlowDecomp", f, wt, k)
                yield _mk("MinFlowDecomp", f, wt)
                if gi % 3 == 0 and cons:
                    yield _mk("MinFlowDecomp", f, "int", cons=[cons])
                    yield _mk("kFlowDecomp", f, "int", ks[-1], cons=[cons])
                if gi % 2 == 1 and nE > 1:
                    yield _mk("MinFlowDecomp", f, "int", ign=[f[gi % nE][:2]])
                    if gi % 4 == 1:
                        yield _mk("kFlowDecomp", f, "int", ks[-1], ign=[f[(gi + 1) % nE][:2]])
                g = noisy(f, gi * 7 + fi)
                for k in ks[:1] if quick else ks:
                    yield _mk("kMinPathError", g, wt, k)
                    yield _mk("kLeastAbsErrors", g, wt, k)
                if cons:
                    yield _mk("kLeastAbsErrors", g, "int", ks[0], cons=[cons])
                    if gi % 2:
                        yield _mk("kMinPathError", g, "int", ks[-1], cons=[cons])
                if gi % 4 == 3 and nE > 1:
                    yield _mk("kMinPathError", g, "int", ks[0], ign=[g[gi % nE][:2]])
            e0 = [[u, v, None] for u, v in _edges(G)]
            for k in ks:
                yield _mk("kPathCover", e0, k=k)
            yield _mk("MinPathCover", e0)
            if gi % 3 == 1 and cons:
                yield _mk("MinPathCover", e0, cons=[cons])
            if gi % 4 == 2 and nE > 1:
                yield _mk("MinPathCover", e0, ign=[e0[gi % nE][:2]])
    # curated witnesses (every tier): flow-safe paths / min-gen-set lower bound computed over ignored edges
    yield _mk("kFlowDecomp", [["x", "w", 1], ["x", "y", 2], ["x", "z", 3]], "int", 2, ign=[["x", "w"]])
    yield _mk("MinFlowDecomp", [["x", "w", 1], ["y", "w", 2], ["y", "z", 3], ["z", "w", 3]], "int", ign=[["y", "w"]])
    yield _mk("MinFlowDecomp", [["x", "w", 1], ["x", "y", 2], ["x", "z", 4]], "float", ign=[["x", "y"]])
    yield _mk("MinFlowDecompCycles", [["y", "w", 1], ["y", "y", 1], ["z", "w", 2], ["z", "y", 1]], "int", ign=[["z", "w"]])
    # two diamonds in a row with a NON-contiguous constraint across the merge node (raises the optimum from 2 to 3 at full coverage), at
    # coverage 1 / 0.75 / 0.5 (2 edges x 0.75 = 1.5: a non-integer required amount): greedy, guessed weights, lower bounds must all agree
    for a, b in ((2, 1), (3, 1), (1, 1)) if not quick else ((2, 1),):
        E = [["s", "x", a], ["x", "m", a], ["s", "y", b], ["y", "m", b], ["m", "p", a], ["p", "t", a], ["m", "q", b], ["q", "t", b]]
        for cov in (None, 0.75, 0.5):
            con = [[["s", "x"], ["m", "q"]]]
            yield _mk("MinFlowDecomp", E, "int", cons=con, cov=cov)
            yield _mk("kFlowDecomp", E, "int", 2, cons=con, cov=cov)
            if not quick:
                yield _mk("kFlowDecomp", E, "int", 3, cons=con, cov=cov)
                yield _mk("kMinPathError", E, "int", 2, cons=con, cov=cov)
    # a 3-edge constraint with LENGTH coverage 0.4 on a path whose middle edge is long: one path through b->c alone satisfies it; the options
    # that turn constraints / safe paths into fixed variables must not demand more than that
    EL = [["x", "a", 1, 2], ["a", "b", 1, 5], ["e", "b", 2, 1], ["b", "g", 1, 1], ["b", "c", 2, 8], ["h", "c", 4, 1], ["c", "f", 2, 1], ["c", "d", 4, 5], ["d", "y", 4, 2]]
    conL = [[["a", "b"], ["b", "c"], ["c", "d"]]]
    lens = [[u, v, l] for u, v, f, l in EL]
    for model, k in (("MinFlowDecomp", None), ("kFlowDecomp", 3), ("kMinPathError", 3)) if not quick else (("MinFlowDecomp", None), ("kFlowDecomp", 3)):
        yield _mk(model, [[u, v, f] for u, v, f, l in EL], "int", k, cons=conL, covlen=[0.4, lens])
    # a subset constraint across a merge node behind a cycle: it costs a third walk; the guessed-weights shortcut must respect it
    EC = [["s", "a", 2], ["s", "b", 5], ["a", "x", 2], ["x", "a", 2], ["a", "m", 2], ["b", "m", 5], ["m", "c", 2], ["m", "d", 5], ["c", "t", 2], ["d", "t", 5]]
    yield _mk("MinFlowDecompCycles", EC, "int", cons=[[["a", "m"], ["m", "d"]]])
    if not quick:
        yield _mk("kFlowDecompCycles", EC, "int", 3, cons=[[["a", "m"], ["m", "d"]]])
    # a walk goes around two cycles a different number of times: {1, 5} generate the flow values only WITH repetition (min-gen-set lower bound of the cyclic model)
    yield _mk("MinFlowDecompCycles", [["s", "a", 6], ["a", "c1", 2], ["c1", "a", 2], ["a", "b", 6], ["b", "c2", 3], ["c2", "b", 3], ["b", "t", 6]], "int")
    # figure-eight: the walk s a b c a b t re-enters the SCC edge a->b, so a safe sequence holds one edge twice; every rotation of the
    # insertion order of the edges (the column order of the edge variables differs from the order along the walk)
    F8 = [["c", "a", 2], ["a", "b", 4], ["b", "c", 2], ["s", "a", 2], ["b", "t", 2]]
    for r in range(len(F8)) if not quick else (0, 2, 3):
        E = F8[r:] + F8[:r]
        yield _mk("kFlowDecompCycles", E, "int", 1)
        yield _mk("MinFlowDecompCycles", E, "int")
        if not quick:
            yield _mk("kFlowDecompCycles", list(reversed(E)), "int", 1)
            yield _mk("kMinPathErrorCycles", E, "int", 1)
    # the minimum decomposition re-uses a weight (4 paths 1,2,2,10) while the guessed-weights model may use each distinct flow value once (5 paths):
    # the shortcut's answer must not be taken for the minimum
    yield _mk("MinFlowDecomp", [["s", "p", 5], ["s", "q", 10], ["p", "a", 1], ["p", "b", 4], ["q", "b", 10], ["a", "c", 1], ["b", "c", 2], ["b", "d", 12], ["c", "t", 3], ["d", "t", 12]], "int")
    # a chain long enough for the scanning window (20 nodes) whose last window boundary cuts through an IGNORED diamond
    CH = [["v%d" % i, "v%d" % (i + 1), 5] for i in range(19)] + [["v19", "v20", 3], ["v19", "x", 2], ["x", "v20", 2], ["v20", "v21", 5]]
    yield _mk("MinFlowDecomp", CH, "int", ign=[["v19", "v20"], ["v19", "x"], ["x", "v20"]])
    # a long, narrow DAG so that the subgraph-scanning lower bound (window of 20 nodes) actually runs
    for reps, tail in ((8, 2), (9, 3)):
        E, prev = [], "a0"
        for i in range(reps):
            a, b, c, nxt = "p%d" % i, "q%d" % i, "r%d" % i, "a%d" % (i + 1)
            lo = 1 + (i + tail) % 2
            E += [[prev, a, lo], [prev, b, 5 - lo], [a, c, lo], [b, c, 5 - lo], [c, nxt, 5]]
            prev = nxt
        yield _mk("MinFlowDecomp", E, "int")
    # ---- cyclic models
    for ni, names in enumerate((graphs.NAMES1, graphs.NAMES2)):
        tops = cyclic_topologies(tier, names)
        if ni == 1:
            tops = tops[1::6]
        for gi, G in enumerate(tops):
            nE = G.number_of_edges()
            fl = walk_flows(G, 1 if quick else 2, gi)
            cons = _constraint(G, True, gi + 1)
            ks = (1, 2)
            for fi, f in enumerate(fl):
                wt = "int" if (gi + fi) % 3 else "float"
                for k in ks:
                    yield _mk("kFlowDecompCycles", f, wt, k)
                yield _mk("MinFlowDecompCycles", f, wt)
                if gi % 3 == 0 and cons:
                    yield _mk("MinFlowDecompCycles", f, "int", cons=[cons])
                if gi % 3 == 1 and nE > 1:
                    yield _mk("MinFlowDecompCycles", f, "int", ign=[f[gi % nE][:2]])
                    if gi % 2:
                        yield _mk("kFlowDecompCycles", f, "int", 2, ign=[f[(gi + 1) % nE][:2]])
                g = noisy(f, gi * 5 + fi)
                for k in ks[:1] if quick else ks:
                    if gi % 3 != 0 or not quick:
                        yield _mk("kMinPathErrorCycles", g, wt, k)
                    if (gi % 3 != 1 or not quick) and (k == ks[0] or gi % 2):
                        yield _mk("kLeastAbsErrorsCycles", g, wt, k)
                if cons and gi % 3 == 2:
                    yield _mk("kLeastAbsErrorsCycles", g, "int", ks[-1], cons=[cons])
                if gi % 2 == 0:
                    yield _mk("kMinPathErrorCycles", g, wt, None)
            e0 = [[u, v, None] for u, v in _edges(G)]
            for k in ks:
                yield _mk("kPathCoverCycles", e0, k=k)
            yield _mk("MinPathCoverCycles", e0)
            if gi % 3 == 1 and cons:
                yield _mk("MinPathCoverCycles", e0, cons=[cons])
            if gi % 4 == 2 and nE > 1:
                yield _mk("MinPathCoverCycles", e0, ign=[e0[gi % nE][:2]])
    # digraphs on 3 nodes without a natural source/sink: additional start / end nodes (models that accept them)
    allg = []
    pairs = [(i, j) for i in range(3) for j in range(3)]
    for mask in range(1, 1 << 9):
        E = [(graphs.NAMES1[i], graphs.NAMES1[j]) for b, (i, j) in enumerate(pairs) if mask >> b & 1]
        G = nx.DiGraph(E)
        if G.number_of_nodes() == 3 and nx.is_weakly_connected(G) and not any(G.in_degree(v) == 0 for v in G) and _on_st_walk(G, ("x",), ("z",)):
            allg.append(G)
    for gi, G in enumerate(allg[:: (32 if quick else 5)]):
        e0 = [[u, v, None] for u, v in _edges(G)]
        f = [[u, v, 1 + (gi + i) % 3] for i, (u, v) in enumerate(_edges(G))]
        yield _mk("MinPathCoverCycles", e0, starts=["x"], ends=["z"])
        yield _mk("kPathCoverCycles", e0, k=1, starts=["x"], ends=["z"])
        yield _mk("kMinPathErrorCycles", f, "int", 1, starts=["x"], ends=["z"])
        yield _mk("kLeastAbsErrorsCycles", f, "int", 2, starts=["x"], ends=["z"])


GROUP = 8      # option sets per case: the default-options reference run is shared inside a case (and cached per process)


def cases(tier):
    quick = tier == "quick"
    tiny_seen = {}
    for ii, inst in enumerate(_instances(tier)):
        model = inst["model"]
        # thorough: all four value combinations of every pair on every third instance, the quick option sets on the larger universe otherwise
        mode = "quick" if quick or ii % 3 else "pairs4"
        # thorough: full cross product on the tiniest universe (<= 3 edges; two instances per class)
        if not quick and len(inst["edges"]) <= 3 and tiny_seen.get(model, 0) < 2 and not inst["cons"] and not inst["ign"]:
            tiny_seen[model] = tiny_seen.get(model, 0) + 1
            mode = "full"
        sets = option_sets(model, mode)
        for i in range(0, len(sets), GROUP):
            c = dict(inst)
            del c["opts"]
            c["optsets"] = sets[i:i + GROUP]
            yield c


# ------------------------------------------------------------------------------------------------ running the library

_quiet = []


def _silence():
    if _quiet:
        return
    _quiet.append(1)
    import logging
    logging.getLogger("flowpaths").setLevel(logging.CRITICAL + 1)
    try:
        import flowpaths.utils as U
        U.logger.setLevel(logging.CRITICAL + 1)
        U.logger.disabled = True
    except Exception:
        pass


def _tup(x):
    return tuple(_tup(y) for y in x) if isinstance(x, (list, tuple)) else x


def lib_verdict(inst, opts):
    """-> dict(solved=bool, obj=number|None, status=str, err=str|None)"""
    import flowpaths as fp
    _silence()
    model = inst["model"]
    wt = int if inst["wt"] == "int" else float
    G = mkgraph([(u, v, (None if f is None else wt(f))) for u, v, f in inst["edges"]])
    kw = dict(optimization_options=dict(opts), solver_options={"threads": 1})   # one solver thread: halves the CPU cost of tiny models
    cyc = cyclic(model)
    if "Cover" not in model:
        kw.update(flow_attr="flow", weight_type=wt)
    if not model.startswith("Min"):
        kw["k"] = inst["k"]
    if inst["cons"]:
        kw["subset_constraints" if cyc else "subpath_constraints"] = [[tuple(e) for e in c] for c in inst["cons"]]
    if inst["cons"] and inst.get("cov") is not None:
        kw["subset_constraints_coverage" if cyc else "subpath_constraints_coverage"] = inst["cov"]
    if inst["cons"] and inst.get("covlen") is not None:
        for u, v, l in inst["covlen"][1]:
            G[u][v]["length"] = l
        kw.update(subpath_constraints_coverage_length=inst["covlen"][0], length_attr="length")
    if inst["ign"]:
        kw["elements_to_ignore"] = [tuple(e) for e in inst["ign"]]
    if inst["starts"]:
        kw["additional_starts"] = list(inst["starts"])
    if inst["ends"]:
        kw["additional_ends"] = list(inst["ends"])
    try:
        m = getattr(fp, model)(G, **kw)
    except ValueError as e:
        return dict(solved=False, obj=None, status="ValueError", err=str(e)[:160])
    ret = m.solve()
    solved = bool(m.is_solved())
    status = None
    try:
        status = m.solver.get_model_status() if getattr(m, "solver", None) is not None else None
    except Exception:
        pass
    r = dict(solved=solved, ret=bool(ret), obj=None, status=str(status), err=None)
    if solved:
        if model in MIN_MODELS:
            sol = m.get_solution()
            r["obj"] = len(sol["walks" if cyc else "paths"])
        elif model in K_FEAS:
            r["obj"] = inst["k"]
        else:
            r["obj"] = m.get_objective_value()
    return r


_cache = {}


def _verdict(inst, opts):
    key = repr((inst["model"], inst["edges"], inst["wt"], inst["k"], inst["cons"], inst.get("cov"), inst.get("covlen"), inst["ign"], inst["starts"], inst["ends"], sorted(opts.items())))
    if key not in _cache:
        if len(_cache) > 4000:
            _cache.clear()
        _cache[key] = lib_verdict(inst, opts)
    return _cache[key]


def _same_obj(a, b, wt):
    if a is None or b is None:
        return a is b
    if wt == "int":
        return abs(a - b) <= TOL          # objective of an integer model (sums of integers, reported as float by the solver)
    return abs(float(a) - float(b)) <= TOL * (1 + abs(float(b)))


def differs(inst, ref, got):
    """None if the verdicts agree, else a class-level description of the difference"""
    if got["status"] == "ValueError":
        return "valid option combination rejected with ValueError"
    if ref["solved"] and not got["solved"]:
        return "solved by default, unsolved"
    if got["solved"] and not ref["solved"]:
        return "unsolved by default, solved"
    if got["ret"] != got["solved"]:
        return "solve() return value disagrees with is_solved()"
    if ref["solved"] and not _same_obj(ref["obj"], got["obj"], inst["wt"]):
        return "objective differs from the default-options objective"
    return None


def _fmt(opts):
    return ", ".join("%s=%s" % (SHORT[k], v) for k, v in sorted(opts.items()))


def check(case):
    inst = {k: case.get(k) for k in ("model", "edges", "wt", "k", "cons", "ign", "starts", "ends", "cov", "covlen")}
    ref = _verdict(inst, {})
    if ref["status"] == "ValueError":
        return dict(ok=None, nontrivial=False, what="instance rejected under default options (outside C05's domain): %s on %s" % (ref["err"], inst))
    if ref["ret"] != ref["solved"]:
        return dict(ok=None, nontrivial=False, what="default run: solve() return value disagrees with is_solved() (C13's business)")
    bad = []
    for opts in case["optsets"]:
        opts = dict(opts)
        got = _verdict(inst, opts)
        d = differs(inst, ref, got)
        if d is None:
            continue
        # blame the smallest part of the combination that already shows a difference (keeps fingerprints class-level)
        blame = opts
        if len(opts) > 1:
            for f in sorted(opts):
                sub = complete(inst["model"], {f: opts[f]})
                if sub != opts and valid(inst["model"], sub) and differs(inst, ref, _verdict(inst, sub)) is not None:
                    blame = sub
                    break
        bad.append((d, blame, opts, got))
    if not bad:
        return dict(ok=True, nontrivial=len(inst["edges"]) > 1, detail=dict(solved=ref["solved"], obj=ref["obj"], option_sets=len(case["optsets"])))
    d, blame, opts, got = bad[0]
    return dict(ok=False, nontrivial=True,
                fingerprint="%s: %s under {%s}" % (inst["model"], d, _fmt(blame)),
                what="%s k=%s wt=%s edges=%s cons=%s cov=%s ign=%s starts=%s ends=%s opts=%s: default -> solved=%s obj=%s status=%s; with options -> solved=%s obj=%s status=%s %s"
                     % (inst["model"], inst["k"], inst["wt"], inst["edges"], inst["cons"], inst.get("covlen") or inst.get("cov"), inst["ign"], inst["starts"], inst["ends"], opts,
                        ref["solved"], ref["obj"], ref["status"], got["solved"], got["obj"], got["status"], got["err"] or "")
                     + ("" if len(bad) == 1 else " | %d more option sets of this case differ: %s" % (len(bad) - 1, "; ".join("%s under {%s}" % (b[0], _fmt(b[2])) for b in bad[1:]))),
                detail=dict(default=ref, options=got, blamed=blame, all_differing=[b[2] for b in bad]))


def run(tier="quick", seed=0, chunk=0, nchunks=1):
    from vf.bounded import run_cases
    return run_cases(cases(tier), check, chunk, nchunks, engine="rc",
                     rule=("one case = one instance x up to %d option sets; 12 classes accepting optimization_options x small instances (DAGs / digraphs with cycles, conserving integer-valued flows for decompositions, "
                          "perturbed weights for error models, plain graphs for covers; int and float weight types; some with one sub-path/subset constraint, one ignored edge, "
                          "additional start/end; solver_options threads=1) x {each documented flag alone with both values, every pair of flags switched away from their defaults"
                          + ("" if tier == "quick" else " (every third instance: all four value combinations), full cross product on two instances with <= 3 edges per class")
                          + "}, documented-invalid combinations excluded by the validity predicate; verdict (solved?, objective) compared with the default-options run; "
                          "non-trivial = more than one edge") % GROUP,
                     bounds="DAGs n<=%s (sampled), cyclic digraphs on 3-5 nodes (sampled), flows from <=3 routes, k<=3" % (4 if tier == "quick" else 5),
                     exhaustive=False)
