"""C01 bounded stand-in: every route returned by every exported decomposition / cover model is a real start-to-end route of the
caller's graph (nodes and edges of the caller's graph, correct end points, simple on DAG models), one non-negative weight (and slack)
per route, never more than k routes and exactly k where the property says so.

No oracle is needed: every clause is a direct recomputation on the caller's graph.  The module also hosts the instance universe
(graphs x conserving / arbitrary values x configuration variants) and the model builder shared with p_C02."""
import itertools
import logging
import networkx as nx
from rc import graphs
from rc.common import is_route

logging.getLogger("flowpaths").setLevel(logging.CRITICAL + 1)

DAG_K = ("kFlowDecomp", "kLeastAbsErrors", "kMinPathError", "kPathCover")
DAG_MIN = ("MinFlowDecomp", "MinPathCover")
CYC_K = ("kFlowDecompCycles", "kLeastAbsErrorsCycles", "kMinPathErrorCycles", "kPathCoverCycles")
CYC_MIN = ("MinFlowDecompCycles", "MinPathCoverCycles")
COVERS = ("kPathCover", "MinPathCover", "kPathCoverCycles", "MinPathCoverCycles")
NO_STARTS = ("kFlowDecomp",)                       # no additional_starts/ends parameter at all
ERRMODELS = ("kLeastAbsErrors", "kMinPathError", "kLeastAbsErrorsCycles", "kMinPathErrorCycles")
FD = ("kFlowDecomp", "MinFlowDecomp", "kFlowDecompCycles", "MinFlowDecompCycles")
NPO_MAX = 4


def is_cyclic_model(name):
    return name.endswith("Cycles")


# ---------------------------------------------------------------------------------------------------------------------
# universe: topologies

def all_digraphs(n, names, selfloops=True):
    """every digraph on exactly the n first names (self-loops allowed), weakly connected; no source/sink requirement"""
    pairs = [(i, j) for i in range(n) for j in range(n) if (i != j or selfloops)]
    for mask in range(1, 1 << len(pairs)):
        G = nx.DiGraph()
        for b, (i, j) in enumerate(pairs):
            if mask >> b & 1:
                G.add_edge(names[i], names[j])
        if G.number_of_nodes() < n or not nx.is_weakly_connected(G):
            continue
        yield G


def on_routes(G):
    """every edge lies on some route from a natural source to a natural sink"""
    S = [v for v in G if G.in_degree(v) == 0]
    T = [v for v in G if G.out_degree(v) == 0]
    if not S or not T:
        return False
    fw = set(S).union(*[nx.descendants(G, v) for v in S])
    bw = set(T).union(*[nx.ancestors(G, v) for v in T])
    return all(u in fw and v in bw for u, v in G.edges())


def routed_cyclic_digraphs(n, names, stride=1, offset=0):
    """digraphs with a cycle whose every edge lies on a natural source-to-sink walk (mask-strided for n=4)"""
    pairs = [(i, j) for i in range(n) for j in range(n)]
    for mask in range(1 + offset, 1 << len(pairs), stride):
        G = nx.DiGraph()
        for b, (i, j) in enumerate(pairs):
            if mask >> b & 1:
                G.add_edge(names[i], names[j])
        if G.number_of_nodes() < n or not nx.is_weakly_connected(G) or nx.is_directed_acyclic_graph(G) or not on_routes(G):
            continue
        yield G


def pick_extra(G, names, want_start=True, want_end=True):
    """deterministic choice of one additional start (preferably a node WITH incoming edges) and/or one additional end such that as many
    edges as possible lie on some start-to-end route (ties: first in name order)"""
    order = [v for v in names if v in G]
    cs = ([v for v in order if G.in_degree(v) > 0] or order) if want_start else [None]
    ct = ([v for v in reversed(order) if G.out_degree(v) > 0] or order[::-1]) if want_end else [None]
    best = None
    for s in cs:
        for t in ct:
            S = [v for v in G if G.in_degree(v) == 0 or v == s]
            T = [v for v in G if G.out_degree(v) == 0 or v == t]
            fw = set(S).union(*[nx.descendants(G, v) for v in S]) if S else set()
            bw = set(T).union(*[nx.ancestors(G, v) for v in T]) if T else set()
            score = sum(1 for u, v in G.edges() if u in fw and v in bw)
            if best is None or score > best[0]:
                best = (score, s, t)
    return ([best[1]] if best[1] is not None else []), ([best[2]] if best[2] is not None else [])


_CACHE = {}


def _memo(fn):
    def wrapped(G, starts=(), ends=(), cyclic=False, *a):
        key = (fn.__name__, tuple(sorted(G.edges())), tuple(starts), tuple(ends), cyclic) + a
        if key not in _CACHE:
            if len(_CACHE) > 20000:
                _CACHE.clear()
            _CACHE[key] = fn(G, starts, ends, cyclic, *a)
        return _CACHE[key]
    return wrapped


def routes_of(G, starts=(), ends=(), cyclic=False, cap=2, maxlen=7, limit=10):
    """explicit start-to-end node sequences: simple paths (DAG) or walks using each edge at most `cap` times (cyclic)"""
    S = [v for v in G if G.in_degree(v) == 0 or v in starts]
    T = set(v for v in G if G.out_degree(v) == 0 or v in ends)
    out = []

    def rec(seq, used):
        if len(out) >= 400:
            return
        if seq[-1] in T:
            out.append(tuple(seq))
        if len(seq) >= maxlen:
            return
        for w in G.successors(seq[-1]):
            e = (seq[-1], w)
            if used.get(e, 0) >= (cap if cyclic else 1):
                continue
            if not cyclic and w in seq:
                continue
            used[e] = used.get(e, 0) + 1
            seq.append(w)
            rec(seq, used)
            seq.pop()
            used[e] -= 1
    for s in S:
        rec([s], {})
    out = sorted(set(out), key=lambda r: (len(r), r))
    # keep short ones and, for cyclic graphs, a few long ones (they repeat edges)
    if len(out) > limit:
        out = out[: limit - 3] + out[-3:]
    return out


def superpose(G, routes, weights):
    ef = {e: 0 for e in G.edges()}
    nf = {v: 0 for v in G.nodes()}
    for r, w in zip(routes, weights):
        for v in r:
            nf[v] += w
        for e in zip(r, r[1:]):
            ef[e] += w
    return ef, nf


WSETS = ((1,), (2, 1), (3, 2), (1, 2, 3), (2, 2, 1))


@_memo
def conserving_values(G, starts=(), ends=(), cyclic=False, count=2):
    """up to `count` value assignments (edge values, node values) that are superpositions of <=3 routes; all-positive ones first"""
    R = routes_of(G, starts, ends, cyclic)
    full, part, seen = [], [], set()
    for ws in WSETS:
        if len(ws) > len(R):
            continue
        for combo in itertools.combinations(range(len(R)), len(ws)):
            ef, nf = superpose(G, [R[i] for i in combo], ws)
            key = tuple(sorted(ef.items())) + tuple(sorted(nf.items()))
            if key in seen:
                continue
            seen.add(key)
            (full if all(v > 0 for v in ef.values()) and all(v > 0 for v in nf.values()) else part).append((ef, nf))
            if len(full) >= count * 3:
                break
    # spread the choice over the weight sets
    pool = full[:: max(1, len(full) // count)][:count] if full else []
    pool += part[: count - len(pool)]
    return pool


def arbitrary_values(G, salt):
    E = sorted(G.edges())
    V = sorted(G.nodes())
    ef = {e: (3 * i + 2 * salt + 1) % 4 for i, e in enumerate(E)}
    nf = {v: (2 * i + 3 * salt + 2) % 4 for i, v in enumerate(V)}
    if not any(ef.values()):
        ef[E[0]] = 2
    if not any(nf.values()):
        nf[V[0]] = 2
    return ef, nf


# ---------------------------------------------------------------------------------------------------------------------
# universe: configuration variants

def variants(model, tier):
    """configuration variants applicable to `model` (each a dict of abstract choices, made concrete by make_case)"""
    cyc = is_cyclic_model(model)
    cover = model in COVERS
    empty = {"allow_empty_walks": True} if cyc else {"allow_empty_paths": True}
    V = [dict(tag="default")]
    if model not in NO_STARTS:
        if model in ("MinFlowDecomp", "MinFlowDecompCycles"):       # documented: only for node-weighted input
            V += [dict(tag="node+starts+ends", origin="node", starts=1, ends=1)] + ([dict(tag="node+starts", origin="node", starts=1)] if not cyc else [])
        else:
            V += [dict(tag="starts", starts=1), dict(tag="ends", ends=1), dict(tag="starts+ends", starts=1, ends=1),
                  dict(tag="node+starts+ends", origin="node", starts=1, ends=1)]
    V += [dict(tag="ignore1", nign=1), dict(tag="ignore2", nign=2), dict(tag="node", origin="node"), dict(tag="node+ignore1", origin="node", nign=1)]
    if not cover:
        V += [dict(tag="ignore1+missing", nign=1, missing=True), dict(tag="node+missing", origin="node", missing=True), dict(tag="values=arbitrary", arbitrary=True)]
    if model in FD:
        V += [dict(tag="ignore1+perturbed", nign=1, perturb=True), dict(tag="node+ignore1+perturbed", origin="node", nign=1, perturb=True)]
    if model not in DAG_MIN + CYC_MIN:
        V += [dict(tag="allow_empty", opts=empty)]
        if model not in NO_STARTS and model not in ("MinFlowDecomp", "MinFlowDecompCycles"):
            V += [dict(tag="allow_empty+starts+ends", opts=empty, starts=1, ends=1)]
    if model in ("kFlowDecomp", "MinFlowDecomp"):
        V += [dict(tag="greedy off", opts={"optimize_with_greedy": False}),
              dict(tag="greedy off+node", opts={"optimize_with_greedy": False}, origin="node"),
              dict(tag="greedy off, no safety", opts={"optimize_with_greedy": False, "optimize_with_flow_safe_paths": False, "optimize_with_safe_paths": False})]
    if model == "MinFlowDecomp":
        V += [dict(tag="guessed weights", opts={"optimize_with_greedy": False, "optimize_with_guessed_weights": True, "use_min_gen_set_lowerbound": True}),
              dict(tag="guessed weights+node", opts={"optimize_with_greedy": False, "optimize_with_guessed_weights": True, "use_min_gen_set_lowerbound": True}, origin="node")]
    if model in ("kFlowDecomp", "kLeastAbsErrors", "kMinPathError"):
        V += [dict(tag="weights superset", superset=True, opts=({"optimize_with_greedy": False} if model == "kFlowDecomp" else {}))]
    if not cyc and model not in FD:
        V += [dict(tag="no safety", opts={"optimize_with_safe_paths": False}),
              dict(tag="safe sequences", opts={"optimize_with_safe_paths": False, "optimize_with_safe_sequences": True}),
              dict(tag="safe zero edges", opts={"optimize_with_safe_paths": True, "optimize_with_safe_zero_edges": True})]
    if cyc:
        V += [dict(tag="no safety", opts={"optimize_with_safe_sequences": False})]
    V += [dict(tag="constraint", cons=1), dict(tag="constraint cov .5+node", cons=1, cov=0.5, origin="node")]
    if model in ERRMODELS:
        V += [dict(tag="error_scaling", scaling=True)]
    return V


def make_case(model, G, names, var, k, wt, salt, npo=None, fscale=None, count=2):
    """concrete JSON-able case from a topology and an abstract variant; None if the variant makes no sense on this topology"""
    cyc = is_cyclic_model(model)
    starts, ends = pick_extra(G, names, bool(var.get("starts")), bool(var.get("ends")))
    S = [v for v in G if G.in_degree(v) == 0 or v in starts]
    T = [v for v in G if G.out_degree(v) == 0 or v in ends]
    if not S or not T:
        # source-less / sink-less input is only kept for tiny graphs under the colliding names (D20 territory)
        if names is not graphs.NAMES2 or G.number_of_nodes() > 2:
            return None
    origin = var.get("origin", "edge")
    if var.get("arbitrary") or model in COVERS:
        ef, nf = arbitrary_values(G, salt)
    else:
        pool = conserving_values(G, starts, ends, cyc, count)
        if not pool:
            ef, nf = arbitrary_values(G, salt)
        else:
            ef, nf = pool[salt % len(pool)]
            ef, nf = dict(ef), dict(nf)      # the pool is memoised: never mutate it
    if fscale is None:
        fscale = 0.5 if salt % 2 else 1
    if wt == "float" and fscale != 1:
        ef = {e: v * fscale for e, v in ef.items()}
        nf = {v: x * fscale for v, x in nf.items()}
    E = sorted(G.edges())
    Vn = sorted(G.nodes())
    nign = var.get("nign", 0)
    if origin == "edge":
        ignore = [list(E[(salt + 2 * j) % len(E)]) for j in range(nign)]
        ignore = [list(x) for x in sorted(set(map(tuple, ignore)))]
        if len(ignore) >= len(E) and nign:
            return None                     # everything ignored: outside every model's domain
        if var.get("perturb") and ignore:
            ef[tuple(ignore[0])] += 1       # the ignored value is wrong on purpose (breaks conservation)
        if var.get("missing") and ignore:
            ef[tuple(ignore[0])] = None
        cons = [[list(e) for e in _constraint_edges(G, salt, cyc)]] if var.get("cons") else []
    else:
        ignore = sorted(set(Vn[(salt + 2 * j) % len(Vn)] for j in range(nign)))
        if len(ignore) >= len(Vn) and nign:
            return None
        if var.get("perturb") and ignore:
            nf[ignore[0]] += 1
        if var.get("missing"):
            nf[Vn[(salt + 1) % len(Vn)]] = None
        cons = [_constraint_nodes(G, salt)] if var.get("cons") else []
    if cons and not cons[0]:
        return None
    case = dict(model=model, names="N2" if names is graphs.NAMES2 else "N1", tag=var["tag"], origin=origin, wt=wt, k=k,
                edges=[[u, v, (None if model in COVERS or origin == "node" else ef[(u, v)])] for u, v in E],
                nodes=({v: nf[v] for v in Vn} if origin == "node" and model not in COVERS else None),
                starts=starts, ends=ends, ignore=ignore, opts=dict(var.get("opts", {})), cons=cons, cov=var.get("cov", 1.0))
    if var.get("superset"):
        vals = sorted(set(x for x in (ef if origin == "edge" else nf).values() if x))
        case["superset"] = (vals + [1 if wt == "int" else 0.5, 2])[: max(k, 1) + 1]
        if wt == "int":
            case["superset"] = [int(x) for x in case["superset"]]
    if var.get("scaling"):
        if origin == "edge":
            case["scaling"] = [[list(E[salt % len(E)]), 0.5], [list(E[(salt + 1) % len(E)]), 0]]
        else:
            case["scaling"] = [[Vn[salt % len(Vn)], 0.5]]
    if npo:
        case["npo"] = npo
    return case


@_memo
def cover_number(G, starts=(), ends=(), cyclic=False):
    """fewest explicit routes (from the capped list) covering every edge; only used to pick interesting values of k"""
    R = [set(zip(r, r[1:])) for r in routes_of(G, starts, ends, cyclic, limit=40)]
    E = set(G.edges())
    for n in (1, 2, 3):
        for combo in itertools.combinations(R, n):
            if set().union(*combo) >= E:
                return n
    return 4


def wk_combos(model, G, var, names, cyclic, mix, tier):
    """(weight type, k) pairs tried for one (model, topology, variant)"""
    if model in DAG_MIN + CYC_MIN:
        return [("int", None)] if model in COVERS else ([(("int", "float")[mix % 2], None)] if tier == "quick" else [("int", None), ("float", None)])
    starts, ends = pick_extra(G, names, bool(var.get("starts")), bool(var.get("ends")))
    w = cover_number(G, starts, ends, cyclic)
    if tier == "quick":
        k = min(4, (w, w + 1, w, max(1, w - 1), w + 2)[(mix >> 3) % 5])
        return [("int" if model in COVERS else ("int", "float")[mix % 2], k)]
    out = [("int", w), ("float", w), ("int", min(4, w + 1)), ("float", max(1, w - 1))] + ([("int", 1)] if w > 2 else [])
    if model in COVERS:
        out = [("int", k) for k in sorted(set(k for _, k in out))]
    return sorted(set(out), key=lambda x: (x[1], x[0]))


def _constraint_edges(G, salt, cyc):
    E = sorted(G.edges())
    if cyc:
        return [E[salt % len(E)], E[(salt + 1) % len(E)]] if len(E) > 1 else [E[0]]
    two = sorted((a, b) for a in E for b in E if a[1] == b[0] and a != b)
    if two:
        return list(two[salt % len(two)])
    return [E[salt % len(E)]]


def _constraint_nodes(G, salt):
    E = sorted(e for e in G.edges() if e[0] != e[1])
    return list(E[salt % len(E)]) if E else []


# ---------------------------------------------------------------------------------------------------------------------
# building the model from a case (public API only)

def user_graph(case):
    G = nx.DiGraph()
    G.graph["id"] = "g"
    for u, v, f in case["edges"]:
        if f is None:
            G.add_edge(u, v)
        else:
            G.add_edge(u, v, flow=f)
    for v, f in (case.get("nodes") or {}).items():
        if v not in G:
            G.add_node(v)
        if f is not None:
            G.nodes[v]["flow"] = f
    for v in case.get("isolated", []):
        G.add_node(v)
    return G


def build(case, G):
    """-> model object (constructor exceptions propagate)"""
    import flowpaths as fp
    name = case["model"]
    wt = int if case["wt"] == "int" else float
    node = case["origin"] == "node"
    cyc = is_cyclic_model(name)
    kw = {}
    ignore = list(case["ignore"]) if node else [tuple(e) for e in case["ignore"]]
    if ignore:
        kw["elements_to_ignore"] = ignore
    if case["starts"]:
        kw["additional_starts"] = list(case["starts"])
    if case["ends"]:
        kw["additional_ends"] = list(case["ends"])
    if case["cons"]:
        cons = [list(c) if node else [tuple(e) for e in c] for c in case["cons"]]
        kw["subset_constraints" if cyc else "subpath_constraints"] = cons
        kw["subset_constraints_coverage" if cyc else "subpath_constraints_coverage"] = case["cov"]
    if (len(case["edges"]) + (case["k"] or 0) + len(case["tag"])) % 5:
        kw["solver_options"] = {"threads": 1}         # tiny models: extra solver threads only burn CPU; every fifth case keeps the default
    kw["optimization_options"] = dict(case["opts"])      # always a fresh dict (the library keeps shared mutable defaults)
    if name in COVERS:
        kw["cover_type"] = "node" if node else "edge"
    else:
        kw["flow_attr"] = "flow"
        kw["flow_attr_origin"] = "node" if node else "edge"
        kw["weight_type"] = wt
    if case.get("superset") is not None:
        kw["solution_weights_superset"] = list(case["superset"])
    if case.get("scaling"):
        kw["error_scaling"] = {(x if node else tuple(x)): s for x, s in case["scaling"]}
    if case.get("npo"):
        inner = getattr(fp, name)
        crit = {case["npo"]: (True if case["npo"] == "stop_on_first_feasible" else 100 if case["npo"] == "stop_on_delta_abs" else 1.0)}
        return fp.NumPathsOptimization(model_type=inner, min_num_paths=1, max_num_paths=NPO_MAX, G=G, **crit, **kw)
    if name in DAG_K or (name in CYC_K and case["k"] is not None):
        kw["k"] = case["k"]
    return getattr(fp, name)(G, **kw)


def solve(case):
    """-> (G_user, model|None, solved, solution|None, note).  Nothing here is a verdict."""
    G = user_graph(case)
    try:
        m = build(case, G)
    except ValueError as e:
        return G, None, False, None, "constructor rejected the input: %s" % (str(e)[:120],)
    except (Exception, SystemExit) as e:               # crashes on construction are C19/C09 business; the model does not report solved
        return G, None, False, None, "constructor crashed: %s: %s" % (type(e).__name__, str(e)[:120])
    try:
        ok = m.solve()
    except (Exception, SystemExit) as e:
        return G, m, False, None, "solve() raised %s: %s" % (type(e).__name__, str(e)[:120])
    try:
        solved = bool(ok) and bool(m.is_solved())
    except Exception:
        solved = False
    if not solved:
        return G, m, False, None, "not solved"
    try:
        sol = m.get_solution()
    except Exception as e:
        return G, m, True, None, "get_solution() raised %s: %s" % (type(e).__name__, str(e)[:160])
    return G, m, True, sol, ""


def empty_allowed(case):
    o = case["opts"]
    return bool(o.get("allow_empty_paths") or o.get("allow_empty_walks") or case.get("superset") is not None)


# ---------------------------------------------------------------------------------------------------------------------
# cases

def _topologies(tier):
    """(kind, names, G) ; kind in dag / cyc"""
    q = tier == "quick"
    for names in (graphs.NAMES1, graphs.NAMES2):
        for n in (2, 3, 4) if q else (2, 3, 4, 5):
            for gi, G in enumerate(graphs.dags(n, names)):
                if names is graphs.NAMES2 and gi % (9 if q else 5) != 1 and n > 2:
                    continue
                if n == 5 and gi % 24 != 3:
                    continue
                yield "dag", names, G
        for n in (1, 2, 3) if q else (1, 2, 3, 4):
            for gi, G in enumerate(all_digraphs(n, names)):
                if nx.is_directed_acyclic_graph(G) and gi % 3:
                    continue
                if n == 3 and gi % ((6 if q else 2) * (4 if names is graphs.NAMES2 else 1)) != 2:
                    continue
                if n == 4 and gi % (1499 if names is graphs.NAMES1 else 5003) != 7:
                    continue
                yield "cyc", names, G
        if names is graphs.NAMES1:
            for G in routed_cyclic_digraphs(3, names):
                yield "cyc", names, G
            for gi, G in enumerate(routed_cyclic_digraphs(4, names, stride=(257 if q else 37), offset=5)):
                yield "cyc", names, G


def cases(tier):
    q = tier == "quick"
    ti = 0
    for kind, names, G in _topologies(tier):
        ti += 1
        models = (DAG_K + DAG_MIN) if kind == "dag" else (CYC_K + CYC_MIN)
        for mi, model in enumerate(models):
            V = variants(model, tier)
            # quick: a rotating window over the variants so that every (model, variant) pair is met on many topologies
            width = 8 if q else len(V)
            chosen = [V[(ti * 3 + mi + j * 5) % len(V)] for j in range(width)] if q else V
            seen = set()
            for vi, var in enumerate(chosen):
                if var["tag"] in seen:
                    continue
                seen.add(var["tag"])
                salt = ti + vi
                mix = (ti * 2654435761 + vi * 40503 + mi * 977) >> 7
                for wt, k in wk_combos(model, G, var, names, kind == "cyc", mix, tier):
                    c = make_case(model, G, names, var, k, wt, salt)
                    if c is not None:
                        yield c
            if model in CYC_K and model != "kFlowDecompCycles" and ti % 4 == 0:      # k=None is documented for these
                c = make_case(model, G, names, V[ti % 3], None, "int", ti)
                if c is not None:
                    yield c
        if kind == "dag" and (ti % 2 == 0 or not q):
            for ni, (inner, crit) in enumerate((("kMinPathError", "stop_on_first_feasible"), ("kLeastAbsErrors", "stop_on_delta_abs"),
                                                ("kFlowDecomp", "stop_on_first_feasible"), ("kMinPathError", "stop_on_delta_rel"),
                                                ("kPathCover", "stop_on_first_feasible"))):
                V = variants(inner, tier)
                for j in range(2 if q else 5):
                    var = V[(ti + 7 * j + ni) % len(V)]
                    if var.get("superset"):
                        continue
                    c = make_case(inner, G, names, var, None, ("int", "float")[(ti + j) % 2], ti + j, npo=crit)
                    if c is not None:
                        yield c
    # single-node / isolated-node inputs in node mode (routes of one node)
    for names in (graphs.NAMES1, graphs.NAMES2):
        a, b, c3 = names[0], names[1], names[2]
        for model in DAG_K + DAG_MIN + CYC_K + CYC_MIN:
            for wt in ("int", "float"):
                if model in COVERS and wt == "float":
                    continue
                base = dict(model=model, names="N2" if names is graphs.NAMES2 else "N1", origin="node", wt=wt, starts=[], ends=[], ignore=[],
                            opts={}, cons=[], cov=1.0)
                cov = model in COVERS
                yield dict(base, tag="single node", k=1, edges=[], nodes={a: 2}, isolated=[a] if cov else [])
                yield dict(base, tag="edge + isolated node", k=2, edges=[[a, b, None]], nodes={a: 2, b: 2, c3: 1}, isolated=[c3] if cov else [])
    # node names that look like expanded names or numbers ('10', '1', '1.0', '0'): the expansion v -> v.0 / v.1 and its inverse must not confuse them
    for model in DAG_K + DAG_MIN + CYC_K + CYC_MIN:
        base = dict(model=model, names="N3", origin="node", wt="int", starts=[], ends=[], ignore=[], opts={}, cons=[], cov=1.0)
        nm = ("1", "10", "1.0", "0", "100")
        yield dict(base, tag="number-like names, path", k=1, edges=[[nm[0], nm[1], None], [nm[1], nm[2], None], [nm[2], nm[3], None]], nodes={v: 2 for v in nm[:4]}, isolated=[])
        yield dict(base, tag="number-like names, diamond", k=2, edges=[[nm[1], nm[0], None], [nm[1], nm[4], None], [nm[0], nm[3], None], [nm[4], nm[3], None]],
                   nodes={nm[1]: 2, nm[0]: 1, nm[4]: 1, nm[3]: 2}, isolated=[])
    # node-weighted min-models whose optimal weights all occur among the node values: the guessed-weights shortcut answers with ITS OWN inner model's
    # solution, which must be translated back to the caller's node names like any other
    for model, edges in (("MinFlowDecompCycles", [["s", "a", None], ["a", "b", None], ["b", "a", None], ["a", "t", None], ["a", "c", None], ["c", "t", None]]),
                         ("MinFlowDecomp", [["s", "a", None], ["a", "t", None], ["a", "c", None], ["c", "t", None]])):
        nodes = {"s": 5, "a": 7, "b": 2, "c": 3, "t": 5} if model.endswith("Cycles") else {"s": 5, "a": 5, "c": 3, "t": 5}
        for opts in ({"optimize_with_guessed_weights": True}, {"optimize_with_greedy": False, "optimize_with_guessed_weights": True}):
            yield dict(model=model, names="N1", origin="node", wt="int", starts=[], ends=[], ignore=[], opts=opts, cons=[], cov=1.0, tag="guessed weights reused, node mode", k=None,
                       edges=edges, nodes=nodes, isolated=[])


# ---------------------------------------------------------------------------------------------------------------------
# the contract

def _num(x):
    return isinstance(x, (int, float)) and not isinstance(x, bool) and x == x


def check_routes(case, G, sol):
    """all C01 clauses on a returned solution; -> None or (fingerprint, what)"""
    name = case["model"]
    label = "NumPathsOptimization(%s)" % name if case.get("npo") else name
    cyc = is_cyclic_model(name)
    key = "walks" if cyc else "paths"
    if not isinstance(sol, dict) or key not in sol:
        return ("%s: get_solution() of a solved model has no '%s' list" % (label, key), "got %r" % (sol,))
    routes = sol[key]
    allow_empty = empty_allowed(case)
    for r in routes:
        if len(r) == 0:
            if allow_empty:
                continue
            return ("%s returned an empty route although empty routes are not allowed" % label, "routes %r" % (routes,))
        ok, why = is_route(G, list(r), case["starts"], case["ends"], simple=not cyc)
        if not ok:
            if "not a node" in why:
                fpr = "a returned route contains a node that is not in the caller's graph"
            elif "not an edge" in why:
                fpr = "a returned route uses a pair of consecutive nodes that is not an edge of the caller's graph"
            elif "starts at" in why:
                fpr = "a returned route starts at a node that has incoming edges and is not a declared start"
            elif "ends at" in why:
                fpr = "a returned route ends at a node that has outgoing edges and is not a declared end"
            else:
                fpr = "a DAG model returned a non-simple path"
            return ("%s: %s" % (label, fpr), "%s; route %r" % (why, r))
    nonempty = [r for r in routes if len(r) > 0]
    if name not in COVERS:
        for lab in ("weights",) + (("slacks",) if "MinPathError" in name else ()):
            w = sol.get(lab)
            if not isinstance(w, (list, tuple)) or len(w) != len(routes):
                return ("%s: not exactly one entry of '%s' per returned route" % (label, lab), "%s=%r for %d routes %r" % (lab, w, len(routes), routes))
            for x in w:
                if not _num(x) or x < (0 if case["wt"] == "int" else -1e-6):
                    return ("%s: an entry of '%s' is not a non-negative number" % (label, lab), "%s=%r" % (lab, w))
    elif "weights" in sol and len(sol["weights"]) != len(routes):
        return ("%s: not exactly one entry of 'weights' per returned route" % label, "weights=%r routes=%r" % (sol["weights"], routes))
    k = case["k"]
    if case.get("npo"):
        if len(nonempty) > NPO_MAX:
            return ("%s returned more routes than max_num_paths" % label, "%d routes, max_num_paths=%d" % (len(nonempty), NPO_MAX))
    elif k is not None:
        if len(nonempty) > k:
            return ("%s returned more than k routes" % label, "k=%d, %d non-empty routes %r" % (k, len(nonempty), routes))
        if not allow_empty and not case["starts"] and not case["ends"] and len(routes) != k:
            return ("%s returned fewer than k routes (empty routes not allowed, no additional starts/ends)" % label,
                    "k=%d, routes %r" % (k, routes))
    return None


def check(case):
    G, m, solved, sol, note = solve(case)
    if not solved:
        return dict(ok=True, nontrivial=False, detail=dict(vacuous=note))
    what0 = "%s tag=%s origin=%s k=%s wt=%s edges=%s nodes=%s starts=%s ends=%s ignore=%s opts=%s" % (
        case["model"] + ("/NPO:" + case["npo"] if case.get("npo") else ""), case["tag"], case["origin"], case["k"], case["wt"], case["edges"], case.get("nodes"),
        case["starts"], case["ends"], case["ignore"], case["opts"])
    if sol is None:
        return dict(ok=False, nontrivial=True, fingerprint="%s reports solved but get_solution() raises" % case["model"], what=note + " | " + what0)
    bad = check_routes(case, G, sol)
    if bad:
        return dict(ok=False, nontrivial=True, fingerprint=bad[0], what=bad[1] + " | " + what0, detail=dict(solution=_jsonable(sol)))
    key = "walks" if is_cyclic_model(case["model"]) else "paths"
    return dict(ok=True, nontrivial=any(len(r) > 0 for r in sol[key]), detail=dict(routes=len(sol[key])))


def _jsonable(sol):
    out = {}
    for a, b in sol.items():
        if isinstance(b, dict):
            b = {str(x): y for x, y in b.items()}
        out[str(a)] = b
    return out


def run(tier="quick", seed=0, chunk=0, nchunks=1):
    from vf.bounded import run_cases
    return run_cases(cases(tier), check, chunk, nchunks, engine="rc", exhaustive=False,
                     rule="topologies: DAGs on <=4 (thorough: sampled 5) named nodes and weakly connected digraphs with self-loops on <=3 (thorough: sampled 4) nodes, "
                          "strided deterministically, two naming schemes; values: superpositions of <=3 explicit routes (weights 1..3, halved for some float cases) or arbitrary "
                          "values in 0..3; every exported route-returning class (k-/Min- flow decomposition, least-abs-errors, min-path-error, path cover, their *Cycles "
                          "variants, NumPathsOptimization over four k-models) x a rotating window (thorough: all) of configuration variants: additional starts/ends, 1-2 ignored "
                          "edges/nodes, missing attributes, node-weighted input, allow-empty, greedy on/off, guessed weights, weights superset, safety options, one constraint, "
                          "error scaling, single-node inputs; non-trivial = the model reported solved and returned at least one non-empty route",
                     bounds="DAGs n<=%d, digraphs n<=%d, k<=3, values<=6" % ((4, 3) if tier == "quick" else (5, 4)))
