"""C16 via SymMILP, MinErrorFlow (first-stage MILP; DAG and cyclic, edge-weighted, and node-weighted through the class's own expansion), per instance:
  soundness   : for EVERY assignment admitted by the MILP: every corrected value is >= 0; at every node with both incoming and outgoing edges that is
                not a declared additional start/end, the corrected in-flow equals the corrected out-flow; on every non-ignored edge (ignored = listed,
                or error scale 0) error_e >= |f_e - x_e|; and (sparsity_lambda = 0) objective >= sum_e scale_e * |f_e - x_e|;
  completeness: an exact optimum y of the spec problem (z3 over one variable per edge, certified by a final `objective < v` unsat query), imposed on
                the corrected-value variables, leaves the MILP satisfiable with objective <= v; if not, the MILP is asked for ANY assignment with
                objective <= v and only if there is none the case fails (a bound cuts off every closest flow).
Additional starts/ends are generated for acyclic inputs only (the docstring restricts them to acyclic graphs); the oracle reads them as the docstring
does (out-flow may exceed in-flow at a start, in-flow may exceed out-flow at an end); the soundness clause demands nothing at those nodes."""
from fractions import Fraction

import networkx as nx
import z3
from rc import graphs
from rc.common import mkgraph
from symmilp.capture import MILP
from symmilp.s_C01 import CYCLIC, F, rv, feasible, dag_flow_instances, cyc_graphs3
from symmilp.s_C07 import _argmin, _val, _perturb


def cases(tier):
    quick = tier == "quick"
    n = 0
    for ei, base in enumerate(dag_flow_instances(tier, per_graph=1 if quick else 2, n4_step=1, n5_step=5)):
        nodes = sorted({u for u, v, f in base} | {v for u, v, f in base})
        for variant in (0, 1, 2):
            n += 1
            wt = "int" if (ei + variant) % 2 else "float"
            edges = _perturb(base, variant, wt)
            E = [(u, v) for u, v, f in edges]
            c = dict(edges=edges, wt=wt)
            yield c
            if len(E) >= 2 and n % 3 == 0:
                yield dict(c, ignore=[list(E[1])])
            if len(E) >= 2 and n % 3 == 1:
                yield dict(c, scale=[[E[0][0], E[0][1], 0.5], [E[-1][0], E[-1][1], 0]])
            inner = [x for x in nodes if any(e[1] == x for e in E) and any(e[0] == x for e in E)]
            if inner and n % 3 == 2:
                yield dict(c, starts=[inner[0]], ends=[inner[-1]])
            if inner and n % 4 == 0:
                yield dict(c, starts=[inner[-1]])
            if n % 5 == 0:
                yield dict(c, lam=0.5)
            if n % 4 == 1:
                # node-weighted reading of the same DAG: node values from the (perturbed) in/out flows
                nv = {}
                for x in nodes:
                    nv[x] = sum(f for u, v, f in edges if v == x) or sum(f for u, v, f in edges if u == x)
                yield dict(edges=[[u, v, None] for u, v, f in edges], nodeflow=[[x, nv[x]] for x in nodes], wt=wt)
                if len(nodes) >= 3:
                    yield dict(edges=[[u, v, None] for u, v, f in edges], nodeflow=[[x, nv[x]] for x in nodes], wt=wt, ignore_nodes=[nodes[1]])
    cyc = [[list(e) for e in edges] for edges in CYCLIC]
    for gi, G in enumerate(cyc_graphs3(2 if quick else 1)):
        cyc.append([[u, v, 1 + (i * 2 + gi) % 3] for i, (u, v) in enumerate(G.edges())])
    for ei, base in enumerate(cyc):
        for variant in (0, 1):
            n += 1
            wt = "int" if (ei + variant) % 2 else "float"
            edges = _perturb(base, variant, wt)
            E = [(u, v) for u, v, f in edges]
            c = dict(edges=edges, wt=wt)
            yield c
            if n % 3 == 0 and len(E) >= 2:
                yield dict(c, ignore=[list(E[1])])
            if n % 3 == 1 and len(E) >= 2:
                yield dict(c, scale=[[E[0][0], E[0][1], 0.5], [E[-1][0], E[-1][1], 0]])
            if n % 6 == 2:
                nodes = sorted({u for u, v, f in edges} | {v for u, v, f in edges})
                nv = {x: sum(f for u, v, f in edges if v == x) or sum(f for u, v, f in edges if u == x) for x in nodes}
                yield dict(edges=[[u, v, None] for u, v, f in edges], nodeflow=[[x, nv[x]] for x in nodes], wt=wt)


def describe(case):
    return " ".join("%s=%s" % (k, case[k]) for k in ("edges", "nodeflow", "wt", "ignore", "ignore_nodes", "scale", "starts", "ends", "lam") if case.get(k) not in (None, []))


def build(case):
    import flowpaths as fp
    wt = int if case["wt"] == "int" else float
    node = case.get("nodeflow") is not None
    G = mkgraph([tuple(e) for e in case["edges"]], node_attr=dict((x, f) for x, f in case["nodeflow"]) if node else None)
    kw = dict(flow_attr="flow", weight_type=wt, sparsity_lambda=case.get("lam", 0),
              additional_starts=list(case.get("starts", [])), additional_ends=list(case.get("ends", [])))
    if node:
        kw.update(flow_attr_origin="node", elements_to_ignore=list(case.get("ignore_nodes", [])))
    else:
        kw.update(elements_to_ignore=[tuple(e) for e in case.get("ignore", [])])
        if case.get("scale"):
            kw.update(error_scaling={(u, v): s for u, v, s in case["scale"]})
    return fp.MinErrorFlow(G, **kw), G


def spec_view(m, G, case):
    """(graph H whose edges carry the corrected values, flow dict of the non-ignored edges, scale dict, exempt nodes)"""
    if case.get("nodeflow") is None:
        H = G
        scale = {(u, v): F(s) for u, v, s in case.get("scale", [])}
        ignore = {tuple(e) for e in case.get("ignore", [])} | {e for e, s in scale.items() if s == 0}
        flow = {(u, v): F(d["flow"]) for u, v, d in G.edges(data=True) if (u, v) not in ignore}
        exempt = set(case.get("starts", [])) | set(case.get("ends", []))
    else:
        # the class's own expansion: node v becomes the edge (v.0, v.1) carrying the node's value; original edges carry no value (ignored)
        H = m.G_internal
        ign = {m.G_internal.get_expanded_edge(x) for x in case.get("ignore_nodes", [])}
        flow = {(u, v): F(d["flow"]) for u, v, d in H.edges(data=True) if "flow" in d and (u, v) not in ign}
        scale, exempt = {}, set()
    return H, flow, scale, exempt


def inner_nodes(H, exempt):
    return [v for v in H.nodes() if H.in_degree(v) > 0 and H.out_degree(v) > 0 and v not in exempt]


def flow_claim(M, m, G, case, X):
    H, flow, scale, exempt = spec_view(m, G, case)
    x = {e: X[m.edge_vars[e].index] for e in H.edges()}
    cs = [x[e] >= 0 for e in H.edges()]
    for v in inner_nodes(H, exempt):
        cs.append(z3.Sum([x[e] for e in H.in_edges(v)]) == z3.Sum([x[e] for e in H.out_edges(v)]))
    tot = []
    for e, fe in flow.items():
        d = rv(fe) - x[e]
        a = z3.If(d >= 0, d, -d)
        cs.append(X[m.edge_error_vars[e].index] >= a)
        tot.append(a * rv(scale.get(e, 1)))
    if not case.get("lam"):
        cs.append(M.objective(X) >= z3.Sum(tot + [z3.RealVal(0)]))
    return z3.And(*cs)


def oracle(m, G, case):
    H, flow, scale, exempt = spec_view(m, G, case)
    T = z3.Int if case["wt"] == "int" else z3.Real
    E = list(H.edges())
    y = {e: T("y%d" % i) for i, e in enumerate(E)}
    s = z3.Solver()
    for e in E:
        s.add(y[e] >= 0)
    for v in inner_nodes(H, exempt):
        s.add(z3.Sum([y[e] for e in H.in_edges(v)]) == z3.Sum([y[e] for e in H.out_edges(v)]))
    # the docstring's reading of "exempt": flow may START at an additional start (out >= in) and END at an additional end (in >= out)
    st, en = set(case.get("starts", [])), set(case.get("ends", []))
    for v in inner_nodes(H, set()):
        i_, o_ = z3.Sum([y[e] for e in H.in_edges(v)]), z3.Sum([y[e] for e in H.out_edges(v)])
        if v in st and v not in en:
            s.add(o_ >= i_)
        if v in en and v not in st:
            s.add(i_ >= o_)
    errs = []
    for e, fe in flow.items():
        d = rv(fe) - y[e]
        errs.append(z3.If(d >= 0, d, -d) * rv(scale.get(e, 1)))
    got = _argmin(s, z3.Sum(errs + [z3.RealVal(0)]), use_optimize=case["wt"] != "int")
    if got is None or got == "unknown":
        return got
    v, mod = got
    return dict(value=v, y={e: _val(mod.eval(y[e], model_completion=True)) for e in E})


def check(case):
    try:
        m, G = build(case)
    except ValueError as e:
        return dict(ok=None, nontrivial=False, what="instance rejected: %s" % e)
    except Exception as e:
        return dict(ok=None, nontrivial=False, what="constructor raised %s: %s (no MILP to examine)" % (type(e).__name__, e))
    M = MILP(m.solver)
    det = dict(cols=M.n, rows=M.m, acyclic=bool(m.is_acyclic))
    kind = "DAG" if m.is_acyclic else "cyclic"
    res, cex = M.forall(lambda X: flow_claim(M, m, G, case, X), timeout_ms=30000)
    if res == "fails":
        return dict(ok=False, nontrivial=True, detail=det,
                    fingerprint="MinErrorFlow (%s) MILP admits an assignment that is negative, not conserved at an inner node, or whose error is below |f - x|" % kind,
                    what="%s; corrected %s errors %s" % (describe(case), {e: cex[v.index] for e, v in m.edge_vars.items()}, {e: cex[v.index] for e, v in m.edge_error_vars.items()}))
    und = ["z3 unknown on the soundness clause (%d cols / %d rows)" % (M.n, M.m)] if res == "unknown" else []
    if not case.get("lam"):
        sol = oracle(m, G, case)
        if sol == "unknown" or sol is None:
            und.append("oracle undecided" if sol else "spec problem infeasible (cannot happen: the zero flow is feasible)")
        else:
            det["oracle"] = str(sol["value"])
            bound = lambda X: M.objective(X) <= rv(sol["value"])
            a = feasible(M, lambda X: z3.And(bound(X), *[X[m.edge_vars[e].index] == rv(val) for e, val in sol["y"].items()]), timeout_ms=30000)
            b = True if a else feasible(M, bound, timeout_ms=30000)
            if a is None or b is None:
                und.append("z3 unknown on the completeness query")
            elif not b:
                return dict(ok=False, nontrivial=True, detail=det,
                            fingerprint="MinErrorFlow (%s) MILP admits no assignment as close as the closest flow (a bound cuts off every optimum)" % kind,
                            what="%s; closest flow %s with total scaled change %s; bound of the variables %s" % (describe(case), {e: str(v) for e, v in sol["y"].items()}, sol["value"], m.ub))
            else:
                det["completeness"] = "oracle flow admitted" if a else "oracle's flow is cut off but another assignment reaches its value"
    if und:
        return dict(ok=None, nontrivial=False, what="; ".join(und), detail=det)
    return dict(ok=True, nontrivial=True, detail=det)


def run(tier="quick", seed=0, chunk=0, nchunks=1):
    from vf.bounded import run_cases
    return run_cases(cases(tier), check, chunk, nchunks, engine="symmilp(z3 over the MILP read back from the real HiGHS object) + exact L1 flow-correction oracle",
                     rule="small DAGs and cyclic digraphs with exact / perturbed (non-conserving) int and half-integral weights x {ignore, error scaling incl. 0, "
                          "additional start/end (DAG), sparsity lambda (soundness only), node-weighted through the class's own expansion}; per instance one "
                          "soundness query over ALL admitted assignments and one completeness query",
                     bounds="DAGs n<=4 (5 sampled in thorough); cyclic: 10 hand-picked + sampled 3-node digraphs with self-loops", exhaustive=False,
                     assumptions=["Highs.getLp() returns the model HiGHS will solve (columns, bounds, integrality, rows)",
                                  "node-weighted cases read the property on the class's own node expansion (v -> edge (v.0, v.1)); the expansion itself is C11's subject"])
