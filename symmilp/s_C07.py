"""C07 via SymMILP, k-Least-Absolute-Errors (DAG and cyclic class), per instance:
  soundness   : for EVERY assignment admitted by the MILP and every non-ignored edge e (ignored = listed, or error scale 0):
                  edge_error_e >= | f_e - sum_i w_i * x_(e,i) |      (x = 0/1 selection for paths, multiplicity for walks)
                and objective >= sum_e scale_e * |f_e - sum_i w_i x_(e,i)|  (the solver's objective is an upper bound of the true scaled error);
  completeness: an independent oracle (explicit route enumeration + z3 over route selection and weights, certified by a final `objective < v`
                unsat query) produces an optimal solution (k routes, weights, value v).  The MILP, with the edge variables and weight variables
                of its layers fixed to that solution (in some order of the layers), must be satisfiable with objective <= v.  If it is not, the MILP
                is asked for ANY assignment with objective <= v; only if that fails too is the case a failure (the MILP's optimum is worse than
                the true optimum: a cap / big-M cuts off every optimal solution).
Known open defect of the cyclic class (DESIGN D16/D17/D21): repetitions, bits and products are capped by values derived from the flow weights;
those failures carry a fingerprint containing 'repetition cap'."""
import itertools
from fractions import Fraction
from math import ceil, log2

import networkx as nx
import z3
from rc.common import mkgraph
from symmilp.capture import MILP
from symmilp.s_C01 import (CYCLIC, F, rv, build, try_build, describe, feasible, is_cyc, dag_flow_instances, cyc_graphs3, dag_routes, walk_routes, scc_edges)


# ---------------------------------------------------------------------------------------------------------------------------------
# instances

def _perturb(edges, variant, wt):
    out = []
    for i, (u, v, f) in enumerate(edges):
        if variant == 1 and i == 0:
            f = f + 1
        if variant == 1 and i == len(edges) - 1 and i > 0:
            f = f + 2
        if variant == 2 and i % 2 == 1:
            f = max(0, f - 1)
        if wt == "float" and i == 0:
            f = f + 0.5
        out.append([u, v, f])
    if all(f == 0 for _, _, f in out):
        out[0][2] = 1
    return out


def error_cases(tier, dag_cls, cyc_cls, dense=False):
    """instance universe shared by C07 (LAE) and C08 (MPE); dense: a larger thorough universe (LAE queries are cheap)"""
    quick = tier == "quick"
    n = 0
    for ei, base in enumerate(dag_flow_instances(tier, n4_step=7 if quick else (1 if dense else 2), n5_step=41 if dense else 151)):
        nodes = sorted({u for u, v, f in base} | {v for u, v, f in base})
        for variant in (0, 1, 2):
            for k in (1, 2, 3):
                n += 1
                if quick and (ei + variant + 2 * k) % 3 == 0:
                    continue
                wt = "int" if (ei + variant + k) % 2 else "float"
                edges = _perturb(base, variant, wt)
                E = [(u, v) for u, v, f in edges]
                c = dict(cls=dag_cls, edges=edges, wt=wt, k=k, opts="off" if n % 4 else "default")
                yield c
                if len(E) >= 3 and n % 3 == 0:
                    yield dict(c, ignore=[list(E[1])])
                if len(E) >= 2 and n % 3 == 1:
                    yield dict(c, scale=[[E[0][0], E[0][1], 0.5], [E[-1][0], E[-1][1], 0]])
                if n % 3 == 2:
                    inner = [x for x in nodes if any(e[1] == x for e in E) and any(e[0] == x for e in E)]
                    if inner:
                        yield dict(c, starts=[inner[0]], ends=[inner[-1]])
                if n % 9 == 0:
                    fl = sorted({f for u, v, f in edges if f > 0})
                    yield dict(c, wt="int" if all(float(x).is_integer() for x in fl) else "float", k=2, opts="off", superset=[fl[0], fl[-1], fl[-1] + 1])
    cyc = [[list(e) for e in edges] for edges in CYCLIC]
    for gi, G in enumerate(cyc_graphs3(11 if quick else (2 if dense else 4))):
        cyc.append([[u, v, 1 + (i * 2 + gi) % 3] for i, (u, v) in enumerate(G.edges())])
    for ei, base in enumerate(cyc):
        nodes = sorted({u for u, v, f in base} | {v for u, v, f in base})
        for k in (1, 2):
            n += 1
            if quick and ei >= len(CYCLIC) and n % 2:
                continue
            wt = "int" if (ei + k // 2) % 2 == 0 else "float"
            edges = [[u, v, (f / 2 if wt == "float" and (ei // 2) % 2 else f)] for u, v, f in base]        # halves: weights below 1 (D17)
            E = [(u, v) for u, v, f in edges]
            c = dict(cls=cyc_cls, edges=edges, wt=wt, k=k, opts="off" if n % 3 else "default")
            yield c
            if n % 3 == 0 and len(E) >= 3:
                yield dict(c, ignore=[list(E[1])])
            if n % 3 == 1:
                yield dict(c, scale=[[E[0][0], E[0][1], 0.5], [E[-1][0], E[-1][1], 0]])
            if n % 3 == 2:
                yield dict(c, starts=[nodes[1]], ends=[nodes[0]])


def cases(tier):
    return error_cases(tier, "kLeastAbsErrors", "kLeastAbsErrorsCycles", dense=True)


# ---------------------------------------------------------------------------------------------------------------------------------
# spec side

def spec_sets(G, case):
    """(flow dict, ignored edges incl. scale 0, scale dict) at spec level"""
    flow = {(u, v): F(d["flow"]) for u, v, d in G.edges(data=True)}
    scale = {(u, v): F(s) for u, v, s in case.get("scale", [])}
    ignore = {tuple(e) for e in case.get("ignore", [])} | {e for e, s in scale.items() if s == 0}
    return flow, ignore, scale


def spec_routes(G, case, cap=3):
    if not is_cyc(case["cls"]):
        return dag_routes(G, case.get("starts", []), case.get("ends", []))
    scc = scc_edges(G)
    c = cap if len(scc) <= 4 else 2
    return walk_routes(G, {e: (c if e in scc else 1) for e in G.edges()}, case.get("starts", []), case.get("ends", []))


def _val(v):
    s = str(v)
    if "/" in s:
        a, b = s.split("/")
        return Fraction(int(a), int(b))
    return Fraction(s)


def _argmin(s, obj, use_optimize=True, timeout_ms=20000, max_steps=60):
    """certified minimum of obj over s; returns (value, model) | None (infeasible) | 'unknown'.
    z3.Optimize proposes, a strict-descent loop on a plain Solver certifies (final `obj < v` must be unsat).  The loop is capped: over the reals a
    plain descent may converge without ever arriving (interior points), which is reported as 'unknown', never as an optimum."""
    s.set("timeout", timeout_ms)
    r = s.check()
    if r == z3.unsat:
        return None
    if r != z3.sat:
        return "unknown"
    best = s.model()
    v = _val(best.eval(obj, model_completion=True))
    if use_optimize:       # real weights only; with integer weights the objective is discrete and the plain descent terminates quickly
        o = z3.Optimize()
        o.set("timeout", 5000)
        o.add(*s.assertions())
        o.minimize(obj)
        if o.check() == z3.sat:
            v2 = _val(o.model().eval(obj, model_completion=True))
            if v2 < v:
                v, best = v2, o.model()
    lo = Fraction(0)                 # every objective here is a sum of non-negative terms
    for _ in range(max_steps):
        s.push()
        s.add(obj < z3.RealVal(str(v)))
        r = s.check()
        if r == z3.sat:
            best = s.model()
            v = _val(best.eval(obj, model_completion=True))
        s.pop()
        if r == z3.unsat:
            return v, best              # certified: nothing strictly below v
        if r != z3.sat:
            return "unknown"
        mid = (lo + v) / 2              # bisection step, so that a lazy solver (value decreasing by 1 per query) cannot stall the descent
        s.push()
        s.add(obj <= z3.RealVal(str(mid)))
        r = s.check()
        if r == z3.sat:
            best = s.model()
            v = _val(best.eval(obj, model_completion=True))
        elif r == z3.unsat:
            lo = mid
        s.pop()
        if r not in (z3.sat, z3.unsat):
            return "unknown"
    return "unknown"


def oracle(G, case, kind):
    """kind 'lae' | 'mpe'.  Returns dict(value, routes=[route dict per layer], weights, slacks) | None (no solution) | 'unknown'"""
    R = spec_routes(G, case)
    fac = [F(1)] * len(R)
    if case.get("factors") is not None:        # C08 only: slack of a path is scaled by the factor of its length (edges + the two synthetic end edges)
        keep = []
        for r in R:
            ln = sum(r["mult"].values()) + 2
            f_ = [F(c) for (lo, hi), c in zip(case["factors"]["ranges"], case["factors"]["consts"]) if lo <= ln <= hi]
            if f_:
                keep.append((r, f_[0]))
        R, fac = [r for r, _ in keep], [f_ for _, f_ in keep]
    if not R:
        return None
    flow, ignore, scale = spec_sets(G, case)
    k = case["k"]
    wt_int = case["wt"] == "int"
    T = z3.Int if wt_int else z3.Real
    s = z3.Solver()
    sel = [[z3.Bool("s%d_%d" % (i, j)) for j in range(len(R))] for i in range(k)]
    w = [T("w%d" % i) for i in range(k)]
    sl = [T("sl%d" % i) for i in range(k)]
    for i in range(k):
        s.add(z3.PbEq([(x, 1) for x in sel[i]], 1), w[i] >= 0, sl[i] >= 0)
        if i:      # symmetry: layers ordered by route index
            s.add(z3.Sum([z3.If(sel[i - 1][j], j, 0) for j in range(len(R))]) <= z3.Sum([z3.If(sel[i][j], j, 0) for j in range(len(R))]))

    def through(vals, e, scaled=False):
        return z3.Sum([z3.If(sel[i][j], vals[i] * (rv(R[j]["mult"][e] * fac[j]) if scaled else R[j]["mult"][e]), 0)
                       for i in range(k) for j in range(len(R)) if R[j]["mult"].get(e, 0) > 0] + [z3.IntVal(0)])
    errs = []
    for e, fe in flow.items():
        if e in ignore:
            continue
        d = rv(fe) - through(w, e)
        a = z3.If(d >= 0, d, -d) * rv(scale.get(e, 1))
        if kind == "lae":
            errs.append(a)
        else:
            s.add(a <= through(sl, e, scaled=case.get("factors") is not None))
    obj = z3.Sum(errs + [z3.RealVal(0)]) if kind == "lae" else z3.Sum([z3.ToReal(x) if wt_int else x for x in sl] + [z3.RealVal(0)])
    if kind == "lae":
        for i in range(k):
            s.add(sl[i] == 0)
    got = _argmin(s, obj, use_optimize=not wt_int)
    if got is None or got == "unknown":
        return got
    v, mod = got
    routes = []
    for i in range(k):
        j = [j for j in range(len(R)) if z3.is_true(mod.eval(sel[i][j], model_completion=True))][0]
        routes.append(R[j])
    return dict(value=v, routes=routes, weights=[_val(mod.eval(x, model_completion=True)) for x in w],
                slacks=[_val(mod.eval(x, model_completion=True)) for x in sl])


# ---------------------------------------------------------------------------------------------------------------------------------
# MILP side

def times(M, m, e, i, X, val):
    """x_(e,i) * val as a linear z3 term: case split over the (bounded) values of the edge variable"""
    col = m.edge_vars[(e[0], e[1], i)].index
    x = X[col]
    ub = int(min(M.ub[col], 64))
    if ub <= 1:
        return z3.If(x >= 1, val, 0)
    t = z3.RealVal(0)
    for c in range(ub, 0, -1):
        t = z3.If(x == c, val * c, t)
    return t


def weight_terms(m, case, X):
    if case.get("superset") is not None:
        return [rv(x) for x in m.solution_weights_superset]
    return [X[m.path_weights_vars[i].index] for i in range(m.k)]


def explained(M, m, case, X, e):
    w = weight_terms(m, case, X)
    return z3.Sum([times(M, m, e, i, X, w[i]) for i in range(m.k)])


def lae_claim(M, m, G, case, X):
    flow, ignore, scale = spec_sets(G, case)
    cs, tot = [], []
    for e, fe in flow.items():
        if e in ignore:
            continue
        d = rv(fe) - explained(M, m, case, X, e)
        a = z3.If(d >= 0, d, -d)
        cs.append(X[m.edge_errors_vars[e].index] >= a)
        tot.append(a * rv(scale.get(e, 1)))
    cs.append(M.objective(X) >= z3.Sum(tot + [z3.RealVal(0)]))
    return z3.And(*cs)


def impose(m, sol, with_slacks=False):
    """extra(X): some order of the layers carries the oracle's routes / weights (/ slacks)"""
    src, snk = m.G.source, m.G.sink
    k = m.k
    E = list(m.G.edges())

    def extra(X):
        alts, seen = [], set()
        for perm in itertools.permutations(range(k)):
            key = tuple((tuple(sorted(sol["routes"][perm[i]]["mult"].items())), sol["routes"][perm[i]]["s"], sol["routes"][perm[i]]["t"],
                         sol["weights"][perm[i]], sol["slacks"][perm[i]]) for i in range(k))
            if key in seen:
                continue
            seen.add(key)
            cs = []
            for i in range(k):
                r = sol["routes"][perm[i]]
                for e in E:
                    if e[0] == src:
                        val = 1 if e[1] == r["s"] else 0
                    elif e[1] == snk:
                        val = 1 if e[0] == r["t"] else 0
                    else:
                        val = r["mult"].get(e, 0)
                    cs.append(X[m.edge_vars[(e[0], e[1], i)].index] == val)
                cs.append(X[m.path_weights_vars[i].index] == rv(sol["weights"][perm[i]]))
                if with_slacks:
                    cs.append(X[m.path_slacks_vars[i].index] == rv(sol["slacks"][perm[i]]))
            alts.append(z3.And(*cs))
        return z3.Or(alts)
    return extra


def cap_diagnosis(M, m, sol):
    """which of the library's flow-derived caps the oracle's solution exceeds (text, '' if none)"""
    why = []
    bits = ceil(log2(m.w_max + 1)) if m.w_max > 0 else 0
    for i, r in enumerate(sol["routes"]):
        for e, c in r["mult"].items():
            ub = M.ub[m.edge_vars[(e[0], e[1], 0)].index]
            if c > int(ub + 1e-9):
                why.append("edge %s needs %d traversals, the edge variable's upper bound is %s" % (e, c, ub))
            if c > 2 ** bits - 1:
                why.append("edge %s needs %d traversals, the product encoding has %d bit(s) (from w_max=%s)" % (e, c, bits, m.w_max))
            if c * sol["weights"][i] > F(m.w_max):
                why.append("multiplicity x weight = %s on %s exceeds w_max=%s" % (c * sol["weights"][i], e, m.w_max))
            if c * sol["slacks"][i] > F(m.w_max):
                why.append("multiplicity x slack = %s on %s exceeds w_max=%s" % (c * sol["slacks"][i], e, m.w_max))
    return "; ".join(sorted(set(why))[:4])


def completeness(M, m, G, case, kind, det):
    """returns None (fine / undecided noted in det) or a failure dict"""
    cls = case["cls"]
    sol = oracle(G, case, kind)
    if sol == "unknown":
        det["completeness"] = "oracle undecided"
        return "undecided"
    if sol is None:
        det["completeness"] = "spec problem has no solution"
        return None
    det["oracle"] = str(sol["value"])
    bound = lambda X: M.objective(X) <= rv(sol["value"])
    extra = impose(m, sol, with_slacks=(kind == "mpe"))
    a = feasible(M, lambda X: z3.And(extra(X), bound(X)), timeout_ms=30000)
    if a:
        det["completeness"] = "oracle solution admitted"
        return None
    b = feasible(M, bound, timeout_ms=30000)
    if a is None or b is None:
        det["completeness"] = "z3 unknown"
        return "undecided"
    if b:
        det["completeness"] = "oracle's optimum is cut off but another assignment reaches its value"
        return None
    why = cap_diagnosis(M, m, sol) if is_cyc(cls) else ""
    shown = dict(routes=[(sorted(r["mult"].items()), r["s"], r["t"]) for r in sol["routes"]], weights=[str(x) for x in sol["weights"]],
                 slacks=[str(x) for x in sol["slacks"]], value=str(sol["value"]))
    det["oracle_solution"] = shown
    if why:
        fp_ = "%s repetition cap (flow-derived bound on multiplicities / bits / products) cuts off every solution as good as the spec optimum" % cls
    else:
        fp_ = "%s MILP admits no assignment as good as the spec optimum (a bound or big-M cuts off every optimal solution)" % cls
    return dict(ok=False, nontrivial=True, fingerprint=fp_, detail=det,
                what="%s; spec optimum %s; MILP has no assignment with objective <= %s%s" % (describe(case), shown, sol["value"], ("; " + why) if why else ""))


def check(case):
    cls = case["cls"]
    m, G, rej = try_build(case)
    if rej:
        return rej
    M = MILP(m.solver)
    det = dict(cols=M.n, rows=M.m)
    res, cex = M.forall(lambda X: lae_claim(M, m, G, case, X), timeout_ms=30000)
    if res == "fails":
        return dict(ok=False, nontrivial=True, detail=det,
                    fingerprint="%s MILP admits an assignment whose edge error / objective is below the true absolute error" % cls,
                    what="%s; weights %s errors %s edge vars %s" % (describe(case), [cex[v.index] for v in getattr(m, "path_weights_vars", {}).values()] if case.get("superset") is None else case["superset"],
                                                                   {e: cex[v.index] for e, v in m.edge_errors_vars.items()},
                                                                   {key: cex[v.index] for key, v in m.edge_vars.items() if cex[v.index] != "0"}))
    und = ["z3 unknown on the soundness clause (%d cols / %d rows)" % (M.n, M.m)] if res == "unknown" else []
    if case.get("superset") is None:
        r = completeness(M, m, G, case, "lae", det)
        if isinstance(r, dict):
            return r
        if r == "undecided":
            und.append("completeness: %s" % det.get("completeness"))
    if und:
        return dict(ok=None, nontrivial=False, what="; ".join(und), detail=det)
    return dict(ok=True, nontrivial="oracle" in det or bool(feasible(M)), detail=det)


def run(tier="quick", seed=0, chunk=0, nchunks=1):
    from vf.bounded import run_cases
    return run_cases(cases(tier), check, chunk, nchunks, engine="symmilp(z3 over the MILP read back from the real HiGHS object) + explicit-route oracle",
                     rule="small DAG flows (exact / perturbed, int and half-integral) and cyclic digraphs x k x weight type x {ignore, error scaling incl. 0, "
                          "additional start/end, weights superset, options off/default}; per instance one soundness query over ALL admitted assignments and "
                          "one completeness query (oracle optimum imposed on the route and weight variables); non-trivial = the spec problem has a solution",
                     bounds="DAGs n<=4 (5 sampled in thorough), k<=3; cyclic: 10 hand-picked + sampled 3-node digraphs, k<=2, oracle walks repeat an edge <= 3 times",
                     exhaustive=False,
                     assumptions=["Highs.getLp() returns the model HiGHS will solve (columns, bounds, integrality, rows)",
                                  "oracle walks are capped at 3 traversals per cycle edge (2 on graphs with more than 4 cycle edges): its optimum is an upper bound of the true one, which is all the completeness clause needs"])
