"""C01 via SymMILP: the precondition of the path / walk decoders is what the encoders guarantee.  For EVERY assignment admitted by the MILP that
the real k-model (kFlowDecomp, kLeastAbsErrors, kMinPathError, kPathCover and the four *Cycles classes) built for an instance, and every layer i:
  DAG models : every edge variable is 0 or 1; the synthetic source has exactly one selected out-edge (at most one when empty paths are allowed);
               every inner node has as many selected in-edges as out-edges (hence every entered non-sink node has a selected out-edge).
  walk models: every multiplicity is a non-negative integer; exactly one (at most one when empty walks are allowed) source edge is used; every
               inner node is balanced; every used edge is reachable from the source through used edges of the same layer (decided exactly: for
               every node set S without the source, a used edge leaving a node of S implies a used edge entering S from outside).
Also (static, no solver): the model's source / sink edges are exactly {(source,u): indeg(u)=0 or u in additional_starts} and dually.

This module also hosts the helpers shared by s_C07 / s_C08 / s_C10 / s_C16 (instance universe, model builder, explicit route enumeration)."""
import itertools
from fractions import Fraction

import networkx as nx
import z3
from rc import graphs
from rc.common import mkgraph, edges_of
from symmilp.capture import MILP

DAG_CLASSES = ("kFlowDecomp", "kLeastAbsErrors", "kMinPathError", "kPathCover")
CYC_CLASSES = ("kFlowDecompCycles", "kLeastAbsErrorsCycles", "kMinPathErrorCycles", "kPathCoverCycles")

OFF_DAG = {"optimize_with_greedy": False, "optimize_with_flow_safe_paths": False, "optimize_with_safe_paths": False,
           "optimize_with_safe_sequences": False, "optimize_with_safe_zero_edges": False,
           "optimize_with_subpath_constraints_as_safe_sequences": False}
OFF_CYC = {"optimize_with_safe_sequences": False, "optimize_with_safe_zero_edges": False}

# hand-picked cyclic instances (names avoid the characters of 'source_<id>' / 'sink_<id>')
CYCLIC = [
    [("x", "y", 4), ("y", "z", 6), ("z", "y", 2), ("z", "w", 4)],
    [("x", "y", 2), ("y", "y", 1), ("y", "z", 2)],
    [("x", "y", 3), ("y", "x", 1), ("y", "z", 2), ("x", "z", 1), ("w", "x", 3)],
    [("x", "y", 1), ("y", "z", 2), ("z", "y", 1), ("z", "w", 1)],
    [("x", "y", 1), ("y", "z", 1), ("z", "y", 1), ("z", "w", 1)],
    [("x", "x", 5), ("y", "x", 3), ("x", "z", 3)],
    [("x", "y", 2), ("y", "z", 3), ("z", "x", 1), ("w", "x", 1), ("z", "v", 2), ("y", "v", 0)],
    [("w", "x", 2), ("x", "y", 3), ("y", "x", 1), ("y", "z", 3), ("z", "y", 1), ("z", "v", 2)],
    [("x", "z", 2), ("x", "y", 1), ("y", "v", 2), ("v", "y", 2), ("y", "z", 1)],          # a cycle that a walk x->z can leave detached
    [("x", "z", 2), ("x", "y", 1), ("y", "y", 2), ("y", "z", 1)],
]


def F(x):
    return Fraction(x).limit_denominator(10 ** 9)


def rv(x):
    return z3.RealVal(str(F(x)))


def feasible(M, extra=None, timeout_ms=20000):
    """is MILP (and extra(X)) satisfiable?  True / False / None (z3 unknown).  (capture.MILP.feasible cannot be used: it builds a dict keyed by
    z3.CheckSatResult, which is unhashable.)"""
    X = M.z3vars()
    s = z3.Solver()
    s.set("timeout", timeout_ms)
    s.add(*M.constraints(X))
    if extra is not None:
        s.add(extra(X))
    r = s.check()
    return True if r == z3.sat else False if r == z3.unsat else None


def is_cyc(cls):
    return cls.endswith("Cycles")


def build(case):
    """case -> (model, user graph).  Raises ValueError when the library rejects the instance."""
    import flowpaths as fp
    cls = case["cls"]
    G = mkgraph([tuple(e) for e in case["edges"]])
    for u, v, l in case.get("lengths", []):
        G[u][v]["len"] = l
    wt = int if case.get("wt", "int") == "int" else float
    cyc = is_cyc(cls)
    opts = dict(case.get("optdict") or {})
    if case.get("opts", "off") == "off":
        base = dict(OFF_CYC if cyc else OFF_DAG)
        base.update(opts)
        opts = base
    elif cls == "kFlowDecomp":
        opts.setdefault("optimize_with_greedy", False)       # the greedy shortcut builds no MILP at all (RC's domain)
    if case.get("allow_empty"):
        opts["allow_empty_walks" if cyc else "allow_empty_paths"] = True
    kw = dict(k=case["k"], optimization_options=opts, elements_to_ignore=[tuple(e) for e in case.get("ignore", [])])
    if "PathCover" not in cls:
        kw.update(flow_attr="flow", weight_type=wt)
    if cls != "kFlowDecomp":
        kw.update(additional_starts=list(case.get("starts", [])), additional_ends=list(case.get("ends", [])))
    cons = [[tuple(e) for e in c] for c in case.get("constraints", [])]
    if cons:
        if cyc:
            kw.update(subset_constraints=cons, subset_constraints_coverage=case.get("coverage", 1.0))
        else:
            kw.update(subpath_constraints=cons, subpath_constraints_coverage=case.get("coverage", 1.0))
            if case.get("coverage_length") is not None:
                kw.update(subpath_constraints_coverage_length=case["coverage_length"], length_attr="len")
    if case.get("scale"):
        kw.update(error_scaling={(u, v): s for u, v, s in case["scale"]})
    if case.get("superset") is not None:
        kw.update(solution_weights_superset=list(case["superset"]))
    return getattr(fp, cls)(G, **kw), G


def try_build(case, builder=None):
    """(model, graph, None) or (None, None, undecided result): a constructor that rejects (ValueError) or crashes is not a verdict of these clauses"""
    try:
        m, G = (builder or build)(case)
        return m, G, None
    except ValueError as e:
        return None, None, dict(ok=None, nontrivial=False, what="instance rejected: %s" % e)
    except Exception as e:
        return None, None, dict(ok=None, nontrivial=False, what="constructor raised %s: %s (no MILP to examine)" % (type(e).__name__, e))


def describe(case):
    keys = ("cls", "edges", "wt", "k", "ignore", "starts", "ends", "scale", "constraints", "coverage", "coverage_length", "lengths", "opts", "allow_empty", "superset")
    return " ".join("%s=%s" % (k, case[k]) for k in keys if case.get(k) not in (None, [], False))


# ---------------------------------------------------------------------------------------------------------------------------------
# explicit routes (spec level)

def dag_routes(G, starts=(), ends=()):
    """source-to-sink paths as dict(mult, s, t, nodes)"""
    return [dict(mult={e: 1 for e in graphs.pedges(p)}, s=p[0], t=p[-1], nodes=list(p)) for p in graphs.st_paths(G, starts, ends)]


def walk_routes(G, caps, starts=(), ends=()):
    """all s-t walks of G as dict(mult, s, t): connected, balanced multiplicity vectors with mult[e] <= caps[e] (spec-level cap)"""
    S = [v for v in G if G.in_degree(v) == 0 or v in starts]
    T = [v for v in G if G.out_degree(v) == 0 or v in ends]
    E = list(G.edges())
    out, seen_keys = [], set()
    for ms in itertools.product(*[range(caps[e] + 1) for e in E]):
        m = dict(zip(E, ms))
        bal = {v: 0 for v in G}
        for (a, b), c in m.items():
            bal[a] -= c
            bal[b] += c
        for s in S:
            for t in T:
                if any(bal[v] + (1 if v == s else 0) - (1 if v == t else 0) != 0 for v in G):
                    continue
                used = [e for e in E if m[e] > 0]
                seen, stack = {s}, [s]
                while stack:
                    v = stack.pop()
                    for e in used:
                        if e[0] == v and e[1] not in seen:
                            seen.add(e[1])
                            stack.append(e[1])
                if any(e[0] not in seen for e in used) or t not in seen:
                    continue
                key = (tuple(sorted((e, c) for e, c in m.items() if c > 0)), s, t)
                if key not in seen_keys:
                    seen_keys.add(key)
                    out.append(dict(mult={e: c for e, c in m.items() if c > 0}, s=s, t=t))
    return out


def scc_edges(G):
    comp = {}
    for ci, c in enumerate(nx.strongly_connected_components(G)):
        for v in c:
            comp[v] = ci
    return {(u, v) for u, v in G.edges() if comp[u] == comp[v]}


# ---------------------------------------------------------------------------------------------------------------------------------
# instance universe

def dag_flow_instances(tier, per_graph=1, n4_step=5, n5_step=61):
    """(edges with flow) of small DAGs, deterministic order"""
    for n in ((2, 3, 4) if tier == "quick" else (2, 3, 4, 5)):
        for gi, G in enumerate(graphs.dags(n)):
            if (n == 4 and gi % n4_step) or (n == 5 and gi % n5_step):
                continue
            for H, f in list(graphs.flows_from_paths(G))[:per_graph]:
                yield edges_of(H)


def cyc_graphs3(step):
    """3-node digraphs with self-loops that have a cycle, sampled"""
    idx = 0
    for G in graphs.digraphs(3):
        if nx.is_directed_acyclic_graph(G):
            continue
        idx += 1
        if idx % step:
            continue
        yield G


def walk_flow(G, seed_weights=(2, 1)):
    """a conserving flow on G as a superposition of up to two walks (None when some edge is on no walk)"""
    caps = {e: (2 if e in scc_edges(G) else 1) for e in G.edges()}
    R = walk_routes(G, caps)
    if not R:
        return None
    f = {e: 0 for e in G.edges()}
    # greedy: take walks until every edge is covered
    w = list(seed_weights)
    wi = 0
    for r in sorted(R, key=lambda r: (-len(r["mult"]), sorted(r["mult"].items()))):
        if all(f[e] > 0 for e in r["mult"]):
            continue
        for e, c in r["mult"].items():
            f[e] += c * w[wi % len(w)]
        wi += 1
    if any(v == 0 for v in f.values()):
        return None
    return [(u, v, f[(u, v)]) for u, v in G.edges()]


def cyc_flow_instances(tier):
    for edges in CYCLIC:
        yield [list(e) for e in edges]
    for G in cyc_graphs3(9 if tier == "quick" else 3):
        fl = walk_flow(G)
        if fl is not None:
            yield [list(e) for e in fl]


def cases(tier):
    quick = tier == "quick"
    for ei, edges in enumerate(dag_flow_instances(tier, n4_step=4 if quick else 1, n5_step=97)):
        nodes = sorted({u for u, v, f in edges} | {v for u, v, f in edges})
        fl = sorted({f for u, v, f in edges})
        for ci, cls in enumerate(DAG_CLASSES):
            for k in (1, 2, 3):
                if quick and (ei + ci + k) % 2:
                    continue
                wt = "int" if (ei + k) % 2 == 0 else "float"
                yield dict(cls=cls, edges=edges, wt=wt, k=k, opts="off")
                if (ei + k) % 3 == 0:
                    yield dict(cls=cls, edges=edges, wt=wt, k=k, opts="default")
                if (ei + k) % 3 == 1:
                    yield dict(cls=cls, edges=edges, wt=wt, k=k, opts="off", allow_empty=True)
                if cls != "kFlowDecomp" and len(nodes) >= 3 and (ei + k) % 3 == 2:
                    inner = [v for v in nodes if any(e[1] == v for e in edges) and any(e[0] == v for e in edges)]
                    if inner:
                        yield dict(cls=cls, edges=edges, wt=wt, k=k, opts="off", starts=[inner[0]], ends=[inner[-1]])
            if ei % 5 == 0:
                for cls in ("kFlowDecomp", "kLeastAbsErrors", "kMinPathError"):
                    yield dict(cls=cls, edges=edges, wt="int", k=2, opts="off", superset=[fl[0], fl[-1], fl[-1] + 1])
    # curated: several SOURCES with empty walks allowed (a layer must still use at most one source edge) - seeded change C01-m2
    multi_source = [[("x", "y", 2), ("y", "y", 1), ("y", "w", 2), ("z", "v", 3)],
                    [("x", "w", 1), ("z", "w", 2), ("w", "w", 1), ("w", "v", 3)],
                    [("x", "y", 4), ("y", "z", 8), ("z", "y", 4), ("z", "w", 4), ("v", "u", 4)]]
    for edges in multi_source:
        for cls in CYC_CLASSES:
            for k in (1, 2):
                yield dict(cls=cls, edges=[list(e) for e in edges], wt="int", k=k, opts="off", allow_empty=True)
    for ei, edges in enumerate(cyc_flow_instances(tier)):
        nodes = sorted({u for u, v, f in edges} | {v for u, v, f in edges})
        for ci, cls in enumerate(CYC_CLASSES):
            for k in (1, 2):
                if quick and ei >= len(CYCLIC) and (ei + ci + k) % 2:
                    continue
                wt = "int" if (ei + k) % 2 == 0 else "float"
                yield dict(cls=cls, edges=edges, wt=wt, k=k, opts="off")
                if (ei + k) % 2 == 0:
                    yield dict(cls=cls, edges=edges, wt=wt, k=k, opts="default")
                if (ei + k) % 3 == 1:
                    yield dict(cls=cls, edges=edges, wt=wt, k=k, opts="off", allow_empty=True)
                if (ei + k) % 3 == 2:
                    yield dict(cls=cls, edges=edges, wt=wt, k=k, opts="off", starts=[nodes[1]], ends=[nodes[0]])


# ---------------------------------------------------------------------------------------------------------------------------------

def expected_terminals(G, starts, ends):
    S = {v for v in G if G.in_degree(v) == 0 or v in starts}
    T = {v for v in G if G.out_degree(v) == 0 or v in ends}
    return S, T


def static_shape(m, G, case):
    """source / sink edges of the model against the spec; integrality of the edge columns.  Returns None or a failure text"""
    S, T = expected_terminals(G, case.get("starts", []), case.get("ends", []))
    src, snk = m.G.source, m.G.sink
    gotS = {v for (u, v) in m.G.edges() if u == src}
    gotT = {u for (u, v) in m.G.edges() if v == snk}
    if gotS != S or gotT != T:
        return "source edges go to %s (spec %s), sink edges come from %s (spec %s)" % (sorted(gotS), sorted(S), sorted(gotT), sorted(T))
    inner = {(u, v) for (u, v) in m.G.edges() if u != src and v != snk}
    if inner != set(G.edges()):
        return "inner edges of the model graph differ from the caller's edges"
    return None


def route_claim(m, M, G, case, X):
    """the C01 clause over the z3 variables X of the captured MILP"""
    cyc = is_cyc(case["cls"])
    src, snk = m.G.source, m.G.sink
    empty_ok = bool(case.get("allow_empty")) or case.get("superset") is not None
    E = list(m.G.edges())
    cs = []
    for i in range(m.k):
        x = {e: X[m.edge_vars[(e[0], e[1], i)].index] for e in E}
        for e in E:
            col = m.edge_vars[(e[0], e[1], i)].index
            if not M.is_int[col]:
                cs.append(z3.IsInt(x[e]))
            cs.append(x[e] >= 0)
            if not cyc:
                cs.append(x[e] <= 1)
        out_src = z3.Sum([x[e] for e in E if e[0] == src])
        cs.append(out_src <= 1 if empty_ok else out_src == 1)
        for v in G.nodes():
            cs.append(z3.Sum([x[e] for e in E if e[1] == v] + [z3.IntVal(0)]) == z3.Sum([x[e] for e in E if e[0] == v] + [z3.IntVal(0)]))
        if not cyc:
            # the decoder's step: an entered non-sink node has a selected out-edge (implied by balance; stated as the decoder needs it)
            for v in G.nodes():
                cs.append(z3.Implies(z3.Or([x[e] == 1 for e in E if e[1] == v]), z3.Or([x[e] == 1 for e in E if e[0] == v])))
        else:
            others = [v for v in m.G.nodes() if v != src]
            for r in range(1, len(others) + 1):
                for Sset in itertools.combinations(others, r):
                    Sset = set(Sset)
                    leaving = [x[e] >= 1 for e in E if e[0] in Sset]
                    entering = [x[e] >= 1 for e in E if e[0] not in Sset and e[1] in Sset]
                    if leaving:
                        cs.append(z3.Implies(z3.Or(leaving), z3.Or(entering) if entering else z3.BoolVal(False)))
    return z3.And(*cs)


def check(case):
    cls = case["cls"]
    m, G, rej = try_build(case)
    if rej:
        return rej
    bad = static_shape(m, G, case)
    if bad:
        return dict(ok=False, nontrivial=True, fingerprint="%s: source/sink augmentation differs from sources+additional starts / sinks+additional ends" % cls,
                    what="%s | %s" % (bad, describe(case)))
    M = MILP(m.solver)
    res, cex = M.forall(lambda X: route_claim(m, M, G, case, X), timeout_ms=30000)
    det = dict(cols=M.n, rows=M.m)
    if res == "unknown":
        return dict(ok=None, nontrivial=False, what="z3 unknown on %d cols / %d rows" % (M.n, M.m))
    if res == "fails":
        lay = {}
        for (u, v, i), var in m.edge_vars.items():
            if cex[var.index] != "0":
                lay.setdefault(i, []).append((u, v, cex[var.index]))
        return dict(ok=False, nontrivial=True, detail=det,
                    fingerprint="%s MILP admits a layer that is not a %s" % (cls, "connected unit source-to-sink walk" if is_cyc(cls) else "binary unit source-to-sink path"),
                    what="%s; admitted layers (non-zero edge variables) %s" % (describe(case), lay))
    det["feasible"] = feasible(M)          # an infeasible MILP satisfies the clause vacuously: counted, but not as non-trivial
    return dict(ok=True, nontrivial=bool(det["feasible"]), detail=det)


def run(tier="quick", seed=0, chunk=0, nchunks=1):
    from vf.bounded import run_cases
    return run_cases(cases(tier), check, chunk, nchunks, engine="symmilp(z3 over the MILP read back from the real HiGHS object)",
                     rule="small DAG / cyclic flows x 8 k-model classes x k x weight type x {options off, default, empty routes allowed, additional start/end, "
                          "weights superset}; per instance ONE z3 query over ALL admitted assignments (binary/integral, unit source out-flow, balance, "
                          "connectivity by exhaustive cut sets); non-trivial = the MILP is feasible",
                     bounds="DAGs n<=4 (5 sampled in thorough), k<=3; cyclic: 8 hand-picked digraphs + sampled 3-node digraphs with self-loops, k<=2",
                     exhaustive=False,
                     assumptions=["Highs.getLp() returns the model HiGHS will solve (columns, bounds, integrality, rows)"])
