"""SymMILP (bounded stand-in, never counted as proved): the REAL model classes build their MILP on the REAL HiGHS object; the LP is read back
with Highs.getLp() (after the queued bound updates are applied) and handed to z3, which decides obligations of the form
   for EVERY assignment satisfying all rows, bounds and integrality:  <spec predicate>
for one concrete instance.  Bounded in the instance, unbounded in the solver's behaviour (no reliance on which optimum HiGHS happens to return)."""
import math
from fractions import Fraction

import z3

INF = 1e29


def _frac(x):
    return z3.RealVal(str(Fraction(x).limit_denominator(10 ** 9)))


class MILP:
    def __init__(self, sw):
        """sw: a flowpaths SolverWrapper (HiGHS back end) whose model is complete (not necessarily solved)"""
        sw._apply_pending_bound_updates()
        h = sw.solver
        lp = h.getLp()
        self.n, self.m = lp.num_col_, lp.num_row_
        self.lb, self.ub = list(lp.col_lower_), list(lp.col_upper_)
        self.cost = list(lp.col_cost_)
        self.offset = lp.offset_
        self.sense = str(lp.sense_)
        integ = list(lp.integrality_) if len(lp.integrality_) else []
        self.is_int = [(i < len(integ) and "kInteger" in str(integ[i])) for i in range(self.n)]
        self.row_lb, self.row_ub = list(lp.row_lower_), list(lp.row_upper_)
        A = lp.a_matrix_
        start, index, value = list(A.start_), list(A.index_), list(A.value_)
        self.rows = [dict() for _ in range(self.m)]
        fmt = str(A.format_)
        if "kColwise" in fmt:
            for c in range(self.n):
                for p in range(start[c], start[c + 1]):
                    self.rows[index[p]][c] = value[p]
        else:
            for r in range(self.m):
                for p in range(start[r], start[r + 1]):
                    self.rows[r][index[p]] = value[p]

    def z3vars(self, prefix="c"):
        return [z3.Int("%s%d" % (prefix, i)) if self.is_int[i] else z3.Real("%s%d" % (prefix, i)) for i in range(self.n)]

    def constraints(self, X):
        cs = []
        for i in range(self.n):
            if self.lb[i] > -INF:
                cs.append(X[i] >= _frac(self.lb[i]))
            if self.ub[i] < INF:
                cs.append(X[i] <= _frac(self.ub[i]))
        for r in range(self.m):
            e = z3.Sum([_frac(v) * X[c] for c, v in self.rows[r].items()] + [z3.RealVal(0)])
            if self.row_lb[r] > -INF:
                cs.append(e >= _frac(self.row_lb[r]))
            if self.row_ub[r] < INF:
                cs.append(e <= _frac(self.row_ub[r]))
        return cs

    def objective(self, X):
        return z3.Sum([_frac(v) * X[c] for c, v in enumerate(self.cost) if v] + [_frac(self.offset)])

    def forall(self, claim, timeout_ms=20000):
        """claim(X) -> z3 Bool.  Returns ('holds', None) | ('fails', assignment) | ('unknown', None)"""
        X = self.z3vars()
        s = z3.Solver()
        s.set("timeout", timeout_ms)
        s.add(*self.constraints(X))
        s.add(z3.Not(claim(X)))
        r = s.check()
        if r == z3.unsat:
            return "holds", None
        if r == z3.sat:
            m = s.model()
            return "fails", [str(m.eval(x, model_completion=True)) for x in X]
        return "unknown", None

    def feasible(self, extra=None, timeout_ms=20000):
        X = self.z3vars()
        s = z3.Solver()
        s.set("timeout", timeout_ms)
        s.add(*self.constraints(X))
        if extra is not None:
            s.add(extra(X))
        r = s.check()
        return True if r == z3.sat else (False if r == z3.unsat else None)


def col(var):
    return var.index
