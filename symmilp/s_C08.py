"""C08 via SymMILP, k-Minimum-Path-Error (DAG and cyclic class), per instance:
  soundness   : for EVERY assignment admitted by the MILP and every non-ignored edge e (ignored = listed, or error scale 0):
                  scale_e * | f_e - sum_i w_i * x_(e,i) |  <=  sum_i x_(e,i) * slack_i
                (x = 0/1 selection for paths, multiplicity for walks; slack_i is the path_slacks variable that get_solution reports; with
                path_length_factors the slack of layer i is first multiplied by the factor of the range its path length falls into, the length
                counting the two synthetic end edges as documented in AbstractPathModelDAG);
  completeness: the explicit optimal solution (k routes, weights, slacks, value v = sum of slacks) of an independent oracle, imposed on the edge, weight
                and slack variables of the layers (in some order), leaves the MILP satisfiable with objective <= v; if not, the MILP is asked for ANY
                assignment with objective <= v, and only if there is none the case fails (every solution as good as the optimum is cut off - in
                particular 'k >= width but the MILP is infeasible').
Known open defect of the cyclic class (DESIGN D16/D17): flow-derived caps on repetitions; fingerprint contains 'repetition cap'."""
import z3
from symmilp.capture import MILP
from symmilp.s_C01 import F, rv, build, try_build, describe, feasible, is_cyc
from symmilp.s_C07 import error_cases, spec_sets, explained, times, completeness


FACTOR_MENU = [
    dict(ranges=[[0, 3], [4, 100]], consts=[2, 1]),
    dict(ranges=[[0, 3], [4, 100]], consts=[0.5, 0.25]),          # all factors below 1 (DESIGN D18?)
    dict(ranges=[[0, 2], [3, 3], [4, 100]], consts=[1, 0.5, 3]),
]


def cases(tier):
    n = 0
    # targeted (DESIGN D18): one path of length 4, factor 0.25 => the only feasible slack is 8 > w_max = 4; k = 1 = width
    yield dict(cls="kMinPathError", edges=[["x", "y", 4], ["y", "z", 0]], wt="int", k=1, opts="off", factors=dict(ranges=[[0, 3], [4, 100]], consts=[1, 0.25]))
    yield dict(cls="kMinPathError", edges=[["x", "y", 4], ["y", "z", 0]], wt="int", k=1, opts="default", factors=dict(ranges=[[0, 3], [4, 100]], consts=[1, 0.5]))
    for c in error_cases(tier, "kMinPathError", "kMinPathErrorCycles"):
        yield c
        n += 1
        if not is_cyc(c["cls"]) and c["wt"] == "int" and c.get("superset") is None and len(c["edges"]) >= 2 and n % (6 if tier == "quick" else 3) == 0:
            yield dict(c, factors=FACTOR_MENU[(n // 3) % len(FACTOR_MENU)])


def _build(case):
    if case.get("factors") is None:
        return build(case)
    # the generic builder knows nothing of the length factors: pass them through the class's own keyword arguments
    import flowpaths as fp
    from rc.common import mkgraph
    from symmilp.s_C01 import OFF_DAG
    G = mkgraph([tuple(e) for e in case["edges"]])
    opts = dict(OFF_DAG) if case.get("opts", "off") == "off" else {}
    kw = dict(flow_attr="flow", k=case["k"], weight_type=int, optimization_options=opts, elements_to_ignore=[tuple(e) for e in case.get("ignore", [])],
              additional_starts=list(case.get("starts", [])), additional_ends=list(case.get("ends", [])),
              path_length_ranges=[list(r) for r in case["factors"]["ranges"]], path_length_factors=list(case["factors"]["consts"]))
    if case.get("scale"):
        kw.update(error_scaling={(u, v): s for u, v, s in case["scale"]})
    return fp.kMinPathError(G, **kw), G


def factor_of(case, length):
    for (lo, hi), c in zip(case["factors"]["ranges"], case["factors"]["consts"]):
        if lo <= length <= hi:
            return F(c)
    return None


def slack_terms(m, case, X):
    """per layer: the (length-scaled) slack as a linear z3 term"""
    out = []
    for i in range(m.k):
        sl = X[m.path_slacks_vars[i].index]
        if case.get("factors") is None:
            out.append(sl)
            continue
        ln = z3.Sum([X[m.edge_vars[(u, v, i)].index] for (u, v) in m.G.edges()])
        t = z3.RealVal(0)
        for (lo, hi), c in reversed(list(zip(case["factors"]["ranges"], case["factors"]["consts"]))):
            t = z3.If(z3.And(ln >= lo, ln <= hi), rv(c) * sl, t)
        out.append(t)
    return out


def mpe_claim(M, m, G, case, X):
    flow, ignore, scale = spec_sets(G, case)
    sl = slack_terms(m, case, X)
    cs = []
    for e, fe in flow.items():
        if e in ignore:
            continue
        d = rv(fe) - explained(M, m, case, X, e)
        a = z3.If(d >= 0, d, -d) * rv(scale.get(e, 1))
        cs.append(a <= z3.Sum([times(M, m, e, i, X, sl[i]) for i in range(m.k)]))
    return z3.And(*cs) if cs else z3.BoolVal(True)


def check(case):
    cls = case["cls"]
    m, G, rej = try_build(case, _build)
    if rej:
        return rej
    M = MILP(m.solver)
    det = dict(cols=M.n, rows=M.m)
    res, cex = M.forall(lambda X: mpe_claim(M, m, G, case, X), timeout_ms=30000)
    if res == "fails":
        return dict(ok=False, nontrivial=True, detail=det,
                    fingerprint="%s MILP admits an assignment in which an edge's scaled error exceeds the slacks of the routes through it" % cls,
                    what="%s factors=%s; weights %s slacks %s edge vars %s" % (
                        describe(case), case.get("factors"),
                        [cex[v.index] for v in m.path_weights_vars.values()] if case.get("superset") is None else case["superset"],
                        [cex[v.index] for v in m.path_slacks_vars.values()], {key: cex[v.index] for key, v in m.edge_vars.items() if cex[v.index] != "0"}))
    und = ["z3 unknown on the soundness clause (%d cols / %d rows)" % (M.n, M.m)] if res == "unknown" else []
    if case.get("superset") is None:
        r = completeness(M, m, G, case, "mpe", det)
        if isinstance(r, dict):
            if case.get("factors") is not None:
                r["what"] += " factors=%s" % case["factors"]
                big = [x for x in det["oracle_solution"]["slacks"] if F(x) > F(m.w_max)]
                if big and min(case["factors"]["consts"]) < 1:
                    r["fingerprint"] = ("kMinPathError with a path-length factor below 1: the slack variables' upper bound w_max = k * max flow (and the bit "
                                        "width derived from it) cuts off every optimal solution")
                    r["what"] += "; optimal slack %s > w_max = %s" % (big[0], m.w_max)
            return r
        if r == "undecided":
            und.append("completeness: %s" % det.get("completeness"))
    if und:
        return dict(ok=None, nontrivial=False, what="; ".join(und), detail=det)
    return dict(ok=True, nontrivial="oracle" in det or bool(feasible(M)), detail=det)


def run(tier="quick", seed=0, chunk=0, nchunks=1):
    from vf.bounded import run_cases
    return run_cases(cases(tier), check, chunk, nchunks, engine="symmilp(z3 over the MILP read back from the real HiGHS object) + explicit-route oracle",
                     rule="small DAG flows (exact / perturbed, int and half-integral) and cyclic digraphs x k x weight type x {ignore, error scaling incl. 0, "
                          "additional start/end, weights superset, path-length factors, options off/default}; per instance one soundness query over ALL "
                          "admitted assignments and one completeness query (oracle optimum imposed on route, weight and slack variables); "
                          "non-trivial = the spec problem has a solution",
                     bounds="DAGs n<=4 (5 sampled in thorough), k<=3; cyclic: 10 hand-picked + sampled 3-node digraphs, k<=2, oracle walks repeat an edge <= 3 times",
                     exhaustive=False,
                     assumptions=["Highs.getLp() returns the model HiGHS will solve (columns, bounds, integrality, rows)",
                                  "oracle walks are capped at 3 traversals per cycle edge (2 on graphs with more than 4 cycle edges): its optimum is an upper bound of the true one, which is all the completeness clause needs"])
