"""C10 via SymMILP: for EVERY assignment admitted by the MILP that a real k-model built for an instance with subpath constraints (DAG classes) or
subset constraints (cyclic classes), every constraint R_j is contained to the requested fraction in ONE layer:
   exists i:  sum_{e in R_j} used(e,i) * len(e)  >=  coverage * sum_{e in R_j} len(e)
with used = (edge variable = 1) for paths, (multiplicity >= 1) for walks; len(e) = 1 for the edge-count coverage, the edge's length attribute
(1 when missing, as documented) for the length coverage; a subset constraint is read as a set of edges.
Only the user's constraints are examined (constraints the library adds itself from safety information are not part of the property)."""
import itertools

import networkx as nx
import z3
from rc.common import mkgraph
from symmilp.capture import MILP
from symmilp.s_C01 import (DAG_CLASSES, CYC_CLASSES, CYCLIC, F, rv, build, try_build, describe, feasible, is_cyc, dag_flow_instances, cyc_flow_instances)


def _dag_constraints(edges):
    """a deterministic menu of constraint lists for a DAG instance: contiguous, non-contiguous, incompatible, overlapping, duplicated"""
    G = mkgraph([tuple(e) for e in edges])
    E = list(G.edges())
    contig = [[(a, b), (b, c)] for (a, b) in E for c in G.successors(b)]
    reach = {v: nx.descendants(G, v) | {v} for v in G}
    noncontig = [[e1, e2] for e1 in E for e2 in E if e1 != e2 and e2[0] in reach[e1[1]] and e2[0] != e1[1]]
    incompat = [[e1, e2] for e1, e2 in itertools.combinations(E, 2) if e2[0] not in reach[e1[1]] and e1[0] not in reach[e2[1]]]
    triples = [[(a, b), (b, c), (c, d)] for (a, b) in E for c in G.successors(b) for d in G.successors(c)]
    menu = []
    if contig:
        menu.append(("contig", [contig[0]]))
        if len(contig) > 1:
            menu.append(("overlap", [contig[0], contig[-1], [contig[0][0]]]))
        menu.append(("dup", [contig[-1], contig[-1]]))
    if noncontig:
        menu.append(("noncontig", [noncontig[0]]))
    if incompat:
        menu.append(("incompat", [incompat[0]]))
    if triples:
        menu.append(("triple", [triples[0]]))
    menu.append(("single", [[E[0]], [E[-1]]]))
    return menu


def _cyc_constraints(edges):
    G = mkgraph([tuple(e) for e in edges])
    E = list(G.edges())
    cyc = [e for e in E if nx.has_path(G, e[1], e[0])]
    non = [e for e in E if e not in cyc]
    menu = []
    if cyc:
        menu.append(("cycle", [list(cyc[:2])]))
        if non:
            menu.append(("mixed", [[cyc[0], non[0]], [non[-1]]]))
            menu.append(("dupset", [[cyc[0], non[-1], cyc[0]]]))
    if len(E) >= 3:
        menu.append(("three", [[E[0], E[len(E) // 2], E[-1]]]))
    menu.append(("single", [[E[0]], [E[-1]], [E[0]]]))
    return menu


def cases(tier):
    quick = tier == "quick"
    n = 0
    for ei, edges in enumerate(dag_flow_instances(tier, n4_step=6 if quick else 2, n5_step=97)):
        if len(edges) < 2:
            continue
        menu = _dag_constraints(edges)
        lengths = [[u, v, 1 + (i * 2) % 3] for i, (u, v, f) in enumerate(edges)][:-1]     # the last edge has no length attribute (=> 1)
        for mi, (tag, cons) in enumerate(menu):
            for ci, cls in enumerate(DAG_CLASSES):
                n += 1
                if quick and n % 3:
                    continue
                cons_l = [[list(e) for e in c] for c in cons]
                k = 2 + (n % 2)
                wt = "int" if n % 2 else "float"
                cov = (1.0, 0.5, 0.6, 0.34)[(n // 3) % 4]
                base = dict(cls=cls, edges=edges, wt=wt, k=k, constraints=cons_l)
                yield dict(base, coverage=cov, opts="off")
                if n % 2 == 0:
                    yield dict(base, coverage=cov, opts="default")
                yield dict(base, coverage_length=(1.0, 0.5, 0.7)[(n // 3) % 3], lengths=lengths, opts="off" if n % 4 else "default")
                if n % 7 == 0 and cls != "kPathCover":
                    fl = sorted({f for u, v, f in edges})
                    yield dict(base, wt="int", coverage=1.0, opts="off", superset=[fl[0], fl[-1], fl[-1] + 1])
    for ei, edges in enumerate(cyc_flow_instances(tier)):
        if len(edges) < 2:
            continue
        for mi, (tag, cons) in enumerate(_cyc_constraints(edges)):
            for ci, cls in enumerate(CYC_CLASSES):
                n += 1
                if quick and ei >= len(CYCLIC) and n % 3:
                    continue
                cons_l = [[list(e) for e in c] for c in cons]
                k = 1 + (n % 2)
                wt = "int" if n % 2 else "float"
                cov = (1.0, 0.5, 0.67)[(n // 3) % 3]
                yield dict(cls=cls, edges=edges, wt=wt, k=k, constraints=cons_l, coverage=cov, opts="off")
                if n % 3 == 0:
                    yield dict(cls=cls, edges=edges, wt=wt, k=k, constraints=cons_l, coverage=cov, opts="default")


def coverage_claim(m, G, case, X):
    cyc = is_cyc(case["cls"])
    by_len = case.get("coverage_length") is not None
    cov = F(case["coverage_length"] if by_len else case.get("coverage", 1.0))
    cs = []
    for c in case["constraints"]:
        R = [tuple(e) for e in c]
        if cyc:
            R = sorted(set(R))
        ln = {e: (F(G[e[0]][e[1]].get("len", 1)) if by_len else F(1)) for e in R}
        need = cov * sum(ln[e] for e in R)
        some = []
        for i in range(m.k):
            got = z3.Sum([z3.If(X[m.edge_vars[(e[0], e[1], i)].index] >= 1, rv(ln[e]), rv(0)) for e in R])
            some.append(got >= rv(need))
        cs.append(z3.Or(some))
    return z3.And(*cs)


def check(case):
    cls = case["cls"]
    m, G, rej = try_build(case)
    if rej:
        return rej
    M = MILP(m.solver)
    det = dict(cols=M.n, rows=M.m)
    res, cex = M.forall(lambda X: coverage_claim(m, G, case, X), timeout_ms=30000)
    if res == "unknown":
        return dict(ok=None, nontrivial=False, what="z3 unknown on %d cols / %d rows" % (M.n, M.m))
    if res == "fails":
        lay = {}
        for (u, v, i), var in m.edge_vars.items():
            if cex[var.index] != "0":
                lay.setdefault(i, []).append((u, v, cex[var.index]))
        kind = "subset" if is_cyc(cls) else ("subpath (length coverage)" if case.get("coverage_length") is not None else "subpath (edge-count coverage)")
        return dict(ok=False, nontrivial=True, detail=det,
                    fingerprint="%s MILP admits an assignment in which a %s constraint is in no single layer to the requested fraction" % (cls, kind),
                    what="%s; admitted layers (non-zero edge variables) %s" % (describe(case), lay))
    det["feasible"] = feasible(M)
    return dict(ok=True, nontrivial=bool(det["feasible"]), detail=det)


def run(tier="quick", seed=0, chunk=0, nchunks=1):
    from vf.bounded import run_cases
    return run_cases(cases(tier), check, chunk, nchunks, engine="symmilp(z3 over the MILP read back from the real HiGHS object)",
                     rule="small DAG / cyclic flows x the 8 k-model classes x constraint menus (contiguous, non-contiguous, incompatible, overlapping, "
                          "duplicated, singletons; cyclic: sets with cycle edges, repeated members) x coverage {1, .5, .6, .34 | length 1, .5, .7 with a "
                          "missing length} x {options off, default, weights superset}; ONE z3 query per instance; non-trivial = the MILP is feasible",
                     bounds="DAGs n<=4 (5 sampled in thorough), k<=3, <=3 constraints; cyclic: 10 hand-picked + sampled 3-node digraphs, k<=2",
                     exhaustive=False,
                     assumptions=["Highs.getLp() returns the model HiGHS will solve (columns, bounds, integrality, rows)"])
