"""C02 via SymMILP: for EVERY assignment admitted by the MILP that the real kFlowDecomp / kFlowDecompCycles built for an instance,
every non-ignored edge's flow is explained exactly: sum_i w_i * x_(e,i) = f_e  (nothing is required of ignored edges)."""
import networkx as nx
import z3
from rc import graphs
from rc.common import mkgraph, edges_of
from symmilp.capture import MILP


def cases(tier):
    for n in ((2, 3, 4) if tier == "quick" else (2, 3, 4, 5)):
        for gi, G in enumerate(graphs.dags(n)):
            if (n == 4 and gi % 3) or (n == 5 and gi % 29):
                continue
            for H, f in list(graphs.flows_from_paths(G))[:2]:
                for wt in ("int", "float"):
                    k = max(1, len(set(f.values())))
                    E = list(H.edges())
                    yield dict(kind="dag", edges=edges_of(H), wt=wt, k=min(k + 1, 4), ignore=[])
                    if len(E) >= 3 and wt == "int":
                        yield dict(kind="dag", edges=edges_of(H), wt=wt, k=min(k + 1, 4), ignore=[list(E[0])])
    cyc = [
        [("x", "y", 4), ("y", "z", 6), ("z", "y", 2), ("z", "w", 4)],
        [("x", "y", 2), ("y", "y", 1), ("y", "z", 2)],
        [("x", "y", 3), ("y", "x", 1), ("y", "z", 2), ("x", "z", 0 + 1), ("w", "x", 3)],
        [("x", "y", 1), ("y", "z", 2), ("z", "y", 1), ("z", "w", 1)],
    ]
    for edges in cyc:
        for wt in ("int", "float"):
            for k in (1, 2):
                yield dict(kind="cyc", edges=[list(e) for e in edges], wt=wt, k=k, ignore=[])
        yield dict(kind="cyc", edges=[list(e) for e in edges], wt="int", k=2, ignore=[list(edges[1][:2])])


def check(case):
    import flowpaths as fp
    wt = int if case["wt"] == "int" else float
    G = mkgraph(case["edges"])
    ignore = [tuple(e) for e in case["ignore"]]
    opts = {"optimize_with_greedy": False, "optimize_with_flow_safe_paths": False, "optimize_with_safe_paths": False, "optimize_with_safe_sequences": False,
            "optimize_with_safe_zero_edges": False}
    try:
        if case["kind"] == "dag":
            m = fp.kFlowDecomp(G, flow_attr="flow", k=case["k"], weight_type=wt, elements_to_ignore=ignore, optimization_options=opts)
        else:
            m = fp.kFlowDecompCycles(G, flow_attr="flow", k=case["k"], weight_type=wt, elements_to_ignore=ignore,
                                     optimization_options={"optimize_with_safe_sequences": False, "optimize_with_safe_zero_edges": False})
    except ValueError as e:
        return dict(ok=None, nontrivial=False, what="instance rejected: %s" % e)
    M = MILP(m.solver)
    k = m.k

    def claim(X):
        cs = []
        for u, v, d in G.edges(data=True):
            if (u, v) in ignore:
                continue
            terms = []
            for i in range(k):
                x = X[m.edge_vars[(u, v, i)].index]
                w = X[m.path_weights_vars[i].index]
                terms.append(z3.If(x == 1, w, 0) if case["kind"] == "dag" else (z3.ToReal(x) if wt is float else x) * w)
            cs.append(z3.Sum(terms) == d["flow"])
        return z3.And(*cs) if cs else z3.BoolVal(True)
    res, cex = M.forall(claim, timeout_ms=30000)
    if res == "unknown":
        return dict(ok=None, nontrivial=False, what="z3 unknown on %d cols / %d rows" % (M.n, M.m))
    if res == "fails":
        return dict(ok=False, nontrivial=True, fingerprint="%s MILP admits an assignment that does not explain a non-ignored edge's flow" % ("kFlowDecomp" if case["kind"] == "dag" else "kFlowDecompCycles"),
                    what="instance %s k=%d wt=%s ignore=%s; assignment %s" % (case["edges"], k, case["wt"], ignore, cex[:40]), detail=dict(cols=M.n, rows=M.m))
    return dict(ok=True, nontrivial=M.m > 5, detail=dict(cols=M.n, rows=M.m))


def run(tier="quick", seed=0, chunk=0, nchunks=1):
    from vf.bounded import run_cases
    return run_cases(cases(tier), check, chunk, nchunks, engine="symmilp(z3 over the MILP read back from the real HiGHS object)",
                     rule="small DAG flows x weight type x k x ignore sets, and 4 cyclic instances; per instance ONE z3 query over ALL admitted assignments; non-trivial = more than 5 rows",
                     bounds="DAGs n<=4 (5 sampled), k<=4; cyclic: 4 hand-picked digraphs, k<=2", exhaustive=False,
                     assumptions=["Highs.getLp() returns the model HiGHS will solve (columns, bounds, integrality, rows)"])
