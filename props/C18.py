"""C18 — a model's result depends only on its own arguments; caller data is never mutated."""
from contracts import c18

LEVEL = "other"
TRUSTED = ["frame analysis assumptions (see functions_under_contract[*].assumptions)", "networkx copy()/DiGraph() produce independent graphs"]
ASSUMPTIONS = ["library callees outside /repo do not write their arguments unless their name is a known mutator", "single-threaded"]
EXPLANATION = ("Proved (frame checker, a conservative may-mutate analysis of the real source, all paths): no write reaches any constructor argument of the 19 analysed classes "
               "from __init__/solve/get_solution/get_objective_value/is_valid_solution; no method writes module globals, class attributes or shared default objects; getters return on every path. "
               "History independence follows. Bounded stand-in: deep snapshots and ordered class pairs sharing argument objects, repeat calls (rc/p_C18.py).")


def units(tier):
    return c18.all_units()


def bounded(tier, seed):
    from vf.bounded import Bounded
    try:
        from rc import p_C18
    except ImportError:
        return []
    n = 8
    return [Bounded("C18/rc-snapshots-and-histories[%d/%d]" % (i, n), p_C18.run, tier=tier, seed=seed, chunk=i, nchunks=n) for i in range(n)]


MANIFEST = dict(
    category="other",
    text="Frame (`modifies`) clauses on the real constructors/solve/getters of all model classes discharged by a conservative may-alias/may-mutate analysis re-run on /repo's source; "
         "a failed clause is replayed by a deep-snapshot test. Bounded stand-in for value-level independence and repeat calls.",
    design_ref="DESIGN.md section 2.4, 3 / C18",
    note="The frame checker is a static over-approximation with stated assumptions about library callees; it is not an SMT proof. Bounded part: snapshots on a small universe.",
    technique="contract-based verification of frame conditions (static may-mutate analysis of the real code) + bounded deep-snapshot/history check",
    engine="pyvc.frame+rc")
