"""C04 — MinFlowDecompCycles finds a decomposition into the fewest walks"""
from contracts import c13, stubs, enc

LEVEL = "other"
TRUSTED = ['solver contract A1']
ASSUMPTIONS = ['A4 (not proved): an integer flow that is a superposition of walks has a walk decomposition with at most |E|-|V|+2 walks; the lower bounds are lower bounds']
EXPLANATION = ('Proved (PyVC, unbounded): MinFlowDecompCycles.get_lowerbound_k is the maximum of the lowerbound_k option (default 1), the width of the s-t digraph (built with the additional starts / ends of the model) without the synthetic and the ignored edges, and the min-gen-set bound when that option is on; it is cached; the ENCODERS of the walk model used by MinFlowDecompCycles: kFlowDecompCycles._encode_flow_decomposition (every admitted assignment explains every non-ignored edge exactly, with multiplicities) and _encode_subset_constraints (every subset constraint has a responsible walk that USES - min(1, multiplicity) - the requested share of its distinct edges), sound and complete for every assignment of the columns. Proved (PyVC, unbounded): the search loop of MinFlowDecompCycles.solve (range from the lower bound to a sufficient k, acceptance only of proven optima, fail-closed on inconclusive runs and on the elapsed-time cut). NOT proved: minimality over all walk decompositions and scale invariance; decided by the BOUNDED comparison with an exact walk-enumeration oracle and by the relational scaling check (rc/p_C04.py). Open known finding: repetition caps taken from flow values (D17).')


def units(tier):
    from contracts import c03
    return [u for u in c13.u_min_loops() if "C04" in u.props] + [u for u in enc.all_units() if "C04" in u.props or "kFlowDecompCycles" in u.name] + c03.cyc_units()


def bounded(tier, seed):
    from vf.bounded import Bounded
    out = []
    from rc import p_C04
    out += [Bounded("C04/rc-vs-walk-oracle[%d/14]" % i, p_C04.run, tier=tier, seed=seed, chunk=i, nchunks=14) for i in range(14)]

    return out


MANIFEST = dict(
    category="other",
    text='Contract-based proofs on the real source: the ENCODERS of the walk model behind MinFlowDecompCycles (flow explanation with multiplicities; subset constraints), the search-loop clauses of MinFlowDecompCycles.solve + bounded comparison with an exact walk-enumeration oracle on tiny digraphs, subset constraints, scale factors.',
    design_ref="DESIGN.md section 3 / C04",
    note='Minimality is NOT proved. Known open finding D17 (repetition cap from flow values breaks scale invariance) is listed in known_findings.json.',
    technique='contract-based deductive verification of encoders and the search loop (PyVC) + bounded runtime-contract check vs exact walk oracle',
    engine='pyvc+rc')
