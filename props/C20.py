"""C20 — graph files are parsed faithfully and malformed files are rejected."""
from contracts import c20

LEVEL = "other"
TRUSTED = ["string primitives (lstrip/startswith/split/float/int) are abstract in the proof part"]
ASSUMPTIONS = ["A3 strings abstract: the block-structure proof treats 'is a header line' as an uninterpreted predicate"]
EXPLANATION = ("Proved (PyVC, unbounded): read_graphs splits any file into blocks that partition the suffix starting at the first header line (block structure, order, contiguity, "
               "header prefix, maximality). Bounded: faithful content (edges, weights, id, constraints, n/m/w) and rejection of malformed lines are checked by printing "
               "generated specs and single-line corruptions (rc/p_C20.py).")


def units(tier):
    return c20.all_units()


def bounded(tier, seed):
    from vf.bounded import Bounded
    try:
        from rc import p_C20
    except ImportError:
        return []
    n = 4
    return [Bounded("C20/rc-printer-oracle[%d/%d]" % (i, n), p_C20.run, tier=tier, seed=seed, chunk=i, nchunks=n) for i in range(n)]


MANIFEST = dict(
    category="other",
    text="Contract-based proof of the block-splitting structure of read_graphs on the real source (4 nested loops cut at invariants over an abstract header predicate), "
         "plus a bounded stand-in: print/parse round trip over generated specs and a corruption catalogue.",
    design_ref="DESIGN.md section 3 / C20",
    note="String-level parsing of a block (read_graph) is not under unbounded contract; it is covered by the bounded printer oracle. Trusted: CPython string methods, networkx.",
    technique="contract-based deductive verification of the block splitter (PyVC) + bounded printer-oracle round trip",
    engine="pyvc+rc")
