"""C20 — graph files are parsed faithfully and malformed files are rejected."""
from contracts import c20

LEVEL = "other"
TRUSTED = ["string primitives (lstrip/startswith/split/float/int) are abstract in the proof part"]
ASSUMPTIONS = ["A3 strings abstract: 'is a header line', 'is a #S line', 'is blank', the token lists and the int / float literal tests and values of a line are uninterpreted functions of the line index, related only by the string facts listed in the unit"]
EXPLANATION = ("Proved (PyVC, unbounded): read_graphs splits any file into blocks that partition the suffix starting at the first header line (block structure, order, contiguity, "
               "header prefix, maximality); read_graph, at token level (lines opaque, 5 loops cut at invariants): the count line is the first non-blank line after the header lines, id = text of the first non-#S header line, "
               "constraints = consecutive node pairs of each distinct #S line with >= 2 nodes (first occurrence, file order), every well-formed edge line puts its edge into the graph with the weight of its last line and nothing else is in the graph, "
               "constraint edges are validated, n/m/w are the returned graph's own values, ValueError exactly at the three documented sites, a zero-vertex block gives an edge-less graph. Bounded: faithful content down to characters (edges, weights, id, constraints, n/m/w) and rejection of malformed lines are checked by printing "
               "generated specs and single-line corruptions (rc/p_C20.py).")


def units(tier):
    return c20.all_units()


def bounded(tier, seed):
    from vf.bounded import Bounded
    try:
        from rc import p_C20
    except ImportError:
        return []
    n = 4
    return [Bounded("C20/rc-printer-oracle[%d/%d]" % (i, n), p_C20.run, tier=tier, seed=seed, chunk=i, nchunks=n) for i in range(n)]


MANIFEST = dict(
    category="other",
    text="Contract-based proofs on the real source: the block-splitting structure of read_graphs (4 nested loops cut at invariants over an abstract header predicate) and the token-level meaning of read_graph "
         "(id, constraints with duplicate filtering, edges with last-line weights, validation, ValueError sites; lines opaque), "
         "plus a bounded stand-in: print/parse round trip over generated specs and a corruption catalogue.",
    design_ref="DESIGN.md section 3 / C20",
    note="Character-level behaviour of the string primitives (what counts as blank, as a token, as a numeric literal) is outside the contracts and covered only by the bounded printer oracle. Trusted: CPython string methods, networkx, stDiGraph.get_width (C09).",
    technique="contract-based deductive verification of the block splitter and the block parser at token level (PyVC) + bounded printer-oracle round trip",
    engine="pyvc+rc")
