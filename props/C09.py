"""C09 — minimum path/walk covers cover everything with fewest routes; width equals it."""
from contracts import c13, c09, stubs, enc

LEVEL = "other"
TRUSTED = [stubs.A_SOLVER]
ASSUMPTIONS = [stubs.A_SOLVER, "A4 (not proved): width = minimum cover (Dilworth-type identity); a cover with at most |E|-|V|+2 routes exists"]
EXPLANATION = ("Proved (PyVC, unbounded): the cover ENCODERS kPathCover._encode_path_cover / kPathCoverCycles._encode_walk_cover add exactly one row per non-ignored edge, `some layer uses it`, for every assignment of the columns (no constraints given). Proved (PyVC, unbounded): the search loops of MinPathCover/MinPathCoverCycles start at the lower bound, reach a sufficient k, accept only proven optima, never skip an inconclusive k. "
               "NOT proved: width computation and minimality; decided by the BOUNDED stand-in against a brute-force minimum cover (rc/p_C09.py).")


def units(tier):
    return [u for u in c13.u_min_loops() if "C09" in u.props] + c09.all_units() + [u for u in enc.all_units() if "C09" in u.props]


def bounded(tier, seed):
    from vf.bounded import Bounded
    from rc import p_C09
    n = 14
    return [Bounded("C09/rc-vs-min-cover-oracle[%d/%d]" % (i, n), p_C09.run, tier=tier, seed=seed, chunk=i, nchunks=n) for i in range(n)]


MANIFEST = dict(
    category="other",
    text='Contract-based proofs on the real source: the cover-row ENCODERS (every non-ignored edge used by some layer), the search-loop clauses of MinPathCover(.Cycles).solve, stDAG.get_width caching, stDiGraph.get_width weight function (scenario runs on real objects: bundle multiplicity minus ignored edges, node edge 0 iff every member edge ignored; labelled concrete scenarios) + bounded stand-in: covers, widths and k-cover solvability vs a brute-force minimum cover.',
    design_ref="DESIGN.md section 3 / C09",
    note="Width = minimum cover is NOT proved. Trusted: HiGHS, networkx (min-cost flow in get_width), brute-force oracle.",
    technique='contract-based deductive verification of encoders and search loops (PyVC) + bounded runtime-contract check vs brute-force minimum cover',
    engine="pyvc+rc")
