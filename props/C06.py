"""C06 — Safe paths/sequences are truly safe, mutually incompatible, prune soundly"""


LEVEL = "other"
TRUSTED = ['exact safety oracle = reachability in the product of the graph with the subsequence matcher (cross-checked by explicit path enumeration on DAGs)']
ASSUMPTIONS = ['A4 (not proved): graph-theoretic safety of bridge/dominator-based sequences', "A4'/A4'' (not proved): a route containing a safe list in order uses only edges of the protected set, each listed edge at least as often as listed, a non-SCC edge at most once"]
EXPLANATION = ("Proved (PyVC, unbounded): safe_paths.process_edge returns a contiguous path of edges containing e that is extended only through unique in-edges on the left and unique out-edges on the right (the structural premise of path safety). Also proved: the two-pointer algorithm of compute_inexact_flow_decomp_safe_paths - the running value is the excess flow of the current window, every reported path is a window of the decomposition path with POSITIVE excess flow (the safety criterion of the cited papers, assumed: A4f), the returned edge lists are the consecutive pairs of the reported windows, ValueError exactly for an inadmissible bound on a path edge (+ 5 concrete instances: the reported paths are exactly the maximal windows of positive excess). Also proved (walk models): _apply_safety_optimizations_fix_zero_edges fixes an edge variable of layer i to 0 only if the edge is not in the layer's safe list, not behind its last node, not before its first node and bridges none of its gaps (all five loops cut at invariants over the membership predicate of the protected set; reachability = the relation the graph object answers, checked by C17); _apply_safety_optimizations installs lower bounds / fixes to 1 only for edges of the layer's safe list (>= at most the number of occurrences; == 1 only outside SCCs) and appends nothing but collections of safe sequences to the subset constraints. The step from these facts to 'no admissible route is cut off' is a segment argument about walks (A4', A4'': assumptions, not proved). The safety of bridge/dominator-based sequences is a graph theorem outside the reach of the engine. The property is decided by the BOUNDED stand-in: every sequence returned by safe_paths / safe_sequences / maximal_safe_sequences_via_dominators / compute_flow_decomp_safe_paths and every model's safe_lists, walks_to_fix and zero-fixings on all DAGs <=4 nodes and digraphs <=3 nodes x trusted sets, against an exact product-automaton oracle (rc/p_C06.py).")


def units(tier):
    from contracts import c06
    return c06.all_units()


def bounded(tier, seed):
    from vf.bounded import Bounded
    out = []
    from rc import p_C06
    out += [Bounded("C06/rc-exact-safety-oracle[%d/16]" % i, p_C06.run, tier=tier, seed=seed, chunk=i, nchunks=16) for i in range(16)]

    return out


MANIFEST = dict(
    category="other",
    text="Contract-based proofs of the structural clause of safe_paths.process_edge and of the walk models' pruning steps (zero-fixing only outside the protected set of the layer's safe list; lower bounds / fix-to-1 only on listed edges) + bounded stand-in (labelled bounded): executable contracts 'safe', 'pairwise incompatible', 'zero-fix sound' evaluated on the real functions over an exhaustive small universe (incl. option combinations, graphs extended in place, interval flows) against an exact safety oracle.",
    design_ref="DESIGN.md section 3 / C06",
    note='Under contract: process_edge, compute_inexact_flow_decomp_safe_paths (two-pointer excess-flow algorithm), the walk models\' _apply_safety_optimizations and _apply_safety_optimizations_fix_zero_edges (the DAG twin of the latter is unreachable on the pinned tree and not claimed). The safe-sequence / dominator algorithms, incompatibility and the graph lemmas behind pruning soundness are decided by the bounded stand-in only.',
    technique='contract-based deductive verification of four functions (PyVC) + bounded runtime-contract check vs exact product-automaton safety oracle',
    engine='pyvc+rc')
