"""C06 — Safe paths/sequences are truly safe, mutually incompatible, prune soundly"""


LEVEL = "other"
TRUSTED = ['exact safety oracle = reachability in the product of the graph with the subsequence matcher (cross-checked by explicit path enumeration on DAGs)']
ASSUMPTIONS = ['A4 (not proved): graph-theoretic safety of bridge/dominator-based sequences']
EXPLANATION = ("Proved (PyVC, unbounded): safe_paths.process_edge returns a contiguous path of edges containing e that is extended only through unique in-edges on the left and unique out-edges on the right (the structural premise of path safety). The safety of bridge/dominator-based sequences is a graph theorem outside the reach of the engine. The property is decided by the BOUNDED stand-in: every sequence returned by safe_paths / safe_sequences / maximal_safe_sequences_via_dominators / compute_flow_decomp_safe_paths and every model's safe_lists, walks_to_fix and zero-fixings on all DAGs <=4 nodes and digraphs <=3 nodes x trusted sets, against an exact product-automaton oracle (rc/p_C06.py).")


def units(tier):
    from contracts import c06
    return c06.all_units()


def bounded(tier, seed):
    from vf.bounded import Bounded
    out = []
    from rc import p_C06
    out += [Bounded("C06/rc-exact-safety-oracle[%d/16]" % i, p_C06.run, tier=tier, seed=seed, chunk=i, nchunks=16) for i in range(16)]

    return out


MANIFEST = dict(
    category="other",
    text="Contract-based proof of the structural clause of safe_paths.process_edge + bounded stand-in (labelled bounded): executable contracts 'safe', 'pairwise incompatible', 'zero-fix sound' evaluated on the real functions over an exhaustive small universe (incl. option combinations, graphs extended in place, interval flows) against an exact safety oracle.",
    design_ref="DESIGN.md section 3 / C06",
    note='Only process_edge is under contract; the safe-sequence / dominator algorithms and the pruning are decided by the bounded stand-in.',
    technique='contract-based deductive verification of one helper (PyVC) + bounded runtime-contract check vs exact product-automaton safety oracle',
    engine='rc')
