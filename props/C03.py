"""C03 — MinFlowDecomp (DAG) always finds a decomposition and it has the fewest paths."""
from contracts import c13, c10, stubs

LEVEL = "other"
TRUSTED = [stubs.A_SOLVER]
ASSUMPTIONS = [stubs.A_SOLVER, "A4 (paper-level, not proved): a positive conserving flow on a DAG has a decomposition with at most |E|-|V|+2 paths; "
               "every component of get_lowerbound_k is a lower bound on the optimum"]
EXPLANATION = ("Proved (PyVC, unbounded): the search loop of MinFlowDecomp.solve starts at the lower bound, reaches a k that always suffices, accepts only a proven "
               "optimal sub-model and never skips an inconclusive k; the sliding-window lower bound _get_lowerbound_with_subgraph_scanning hands every window to a sub-model on that window's subgraph (valid range of the topological order, same parameters, exactly the ignored edges inside the subgraph, scanning switched off) and returns the maximum number of paths over the solved windows (or None); get_lowerbound_k is the maximum of its components (option, ceil(log2(#distinct values of the counted edges)), width without synthetic and ignored edges, the two optional bounds) and is cached. NOT proved: minimality over all decompositions and the correctness of the lower bounds; "
               "these are decided by the BOUNDED stand-in (real API + HiGHS vs an explicit-path oracle on an exhaustive small universe).")


def units(tier):
    from contracts import c03
    return [u for u in c13.u_min_loops() if "C03" in u.props] + c10.all_units() + c03.all_units()


def bounded(tier, seed):
    from vf.bounded import Bounded
    from rc import p_C03
    n = 12
    return [Bounded("C03/rc-vs-path-oracle[%d/%d]" % (i, n), p_C03.run, tier=tier, seed=seed, chunk=i, nchunks=n) for i in range(n)]


MANIFEST = dict(
    category="other",
    text="Contract-based proof of the search-loop clauses (range, acceptance, fail-closed) on the real MinFlowDecomp.solve, plus a BOUNDED stand-in for minimality: "
         "the executable contract 'solved, valid, exact, number of paths = oracle minimum' evaluated on every DAG with <=4 nodes x small flows against an independent explicit-path oracle (z3).",
    design_ref="DESIGN.md section 3 / C03-C04",
    note="Minimality over all decompositions is NOT proved (graph-theoretic); bounded universe stated in the evidence. Trusted: HiGHS, oracle, networkx.",
    technique="contract-based deductive verification of the search loop (PyVC) + bounded runtime-contract check vs explicit-route oracle",
    engine="pyvc+rc")
