"""C12 — MILP building blocks encode exactly the relation they name."""
from contracts import sw

LEVEL = "proof"
TRUSTED = [sw.A1, sw.A3, sw.LM5]
ASSUMPTIONS = [sw.A1, sw.A3, sw.LM5]
EXPLANATION = ("Every modelling helper of SolverWrapper is executed (real source, loops cut) on symbolic proxies; "
               "soundness and completeness of the rows it adds w.r.t. the named relation are obligations discharged by z3/cvc5 for all bounds and values.")


def units(tier):
    return sw.all_units()


def bounded(tier, seed):
    from vf.bounded import Bounded
    from rc import p_C12
    n = 12
    return [Bounded("C12/native-grids-and-histories[%d/%d]" % (i, n), p_C12.run, tier=tier, seed=seed, chunk=i, nchunks=n) for i in range(n)]

MANIFEST = dict(
    category="proof",
    text="Deductive: each SolverWrapper modelling helper (real source re-extracted from /repo on every run) is verified against a "
         "sound-and-complete contract over an arbitrary assignment, for all bounds/values/queue histories; obligations discharged by z3/cvc5. "
         "A unit test can only sample bounds and values; the exactness of a linearisation is a forall-statement.",
    design_ref="DESIGN.md section 3 / C12",
    note="Trusted: highspy API contract A1 (conformance-probed), floats as reals (A3), clog2 axiom, coincidence lemma LM5, PyVC engine, CPython, z3/cvc5. Gurobi branches not claimed.",
    technique="contract-based deductive verification (PyVC: symbolic execution of the real function against sidecar contracts, z3/cvc5)",
    engine="pyvc")
