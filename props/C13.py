"""C13 — solved means proven optimal; inconclusive solver runs never yield an answer."""
from contracts import c13, sw, stubs

LEVEL = "proof"
TRUSTED = [stubs.A_SOLVER, sw.A3]
ASSUMPTIONS = [stubs.A_SOLVER, sw.A3, "sub-model contract used by the Min* loops = postcondition proved on AbstractPathModelDAG.solve / AbstractWalkModelDiGraph.solve"]
EXPLANATION = ("The solver's answer for parameter k is an uninterpreted function status_of(k); every search loop is verified against the "
               "invariant 'every smaller k was proven infeasible', so one proof covers every position of a time-out or unexpected status.")


def units(tier):
    us = c13.all_units()
    # status plumbing of the wrapper itself (shared with C12)
    us += [u for u in sw.all_units() if "C13" in u.props]
    return us


def bounded(tier, seed):
    from vf.bounded import Bounded
    from rc import faults
    return [Bounded("C13/fault-enumeration", faults.run, tier=tier)]


MANIFEST = dict(
    category="proof",
    text="Deductive: every solve()/search loop/getter of the 16 model classes plus MinGenSet/MinSetCover/MinErrorFlow is verified (real source, loops cut at "
         "sidecar invariants) against 'True => proven optimal and every smaller k proven infeasible; False => not solved, nothing stored; unsolved getters raise'. "
         "The solver status is an uninterpreted function of k, so all fault positions are covered at once, which fault-injecting tests can only sample.",
    design_ref="DESIGN.md section 3 / C13",
    note="Trusted: solver contract A1 (status semantics), sub-model contracts (proved on the abstract solve methods), PyVC engine, CPython, z3/cvc5. Gurobi status code 2 branch not claimed.",
    technique="contract-based deductive verification (PyVC: loop invariants over an uninterpreted solver-status oracle; z3/cvc5)",
    engine="pyvc")
