"""C01 — returned paths/walks are real source-to-sink routes of the caller's graph."""
from contracts import c01, enc

LEVEL = "other"
TRUSTED = ["decoder precondition R1-R3 (unit-flow structure of every layer) is what the encoder guarantees: checked per instance in the bounded part, not proved"]
ASSUMPTIONS = ["A2 networkx topological order / successors()", "R1-R3 of contracts/c01.py"]
EXPLANATION = ("Proved (PyVC, unbounded): the ENCODER AbstractPathModelDAG._encode_paths adds exactly: one 0/1 indicator per (edge, layer), one unit (at most one if empty paths are allowed) leaving the source and conservation at every inner node in every layer - the hypothesis from which the decoder proof starts; AbstractWalkModelDiGraph._encode_walks likewise adds exactly the rows of the walk formulation (cyclic models); AbstractSourceSinkGraph._augment_with_source_sink connects the global source exactly to the nodes without incoming edges or declared as additional starts (sink symmetric) and keeps the caller's edges; the DAG decoder get_solution_paths turns ANY binary edge assignment satisfying the unit-flow precondition into exactly k lists, each empty or a simple "
               "source-to-sink route of G made of selected edges. Bounded: every exported class x small universe x options: routes valid in the caller's graph, counts, weights, slacks (rc/p_C01.py).")


def units(tier):
    return c01.all_units() + [u for u in enc.all_units() if "C01" in u.props]


def bounded(tier, seed):
    from vf.bounded import Bounded
    try:
        from rc import p_C01
    except ImportError:
        return []
    n = 12
    out = [Bounded("C01/rc-route-validity[%d/%d]" % (i, n), p_C01.run, tier=tier, seed=seed, chunk=i, nchunks=n) for i in range(n)]
    try:        # encoder side of the decoder's precondition, for all solver outcomes per instance
        from symmilp import s_C01
        out += [Bounded("C01/symmilp-decoder-precondition[%d/4]" % i, s_C01.run, tier=tier, seed=seed, chunk=i, nchunks=4) for i in range(4)]
    except ImportError:
        pass
    return out


MANIFEST = dict(
    category="other",
    text="Contract-based proofs on the real source: the route ENCODERS (_encode_paths, _encode_walks: sound-and-complete row contracts for every assignment of the columns), the source/sink augmentation, the path decoder get_solution_paths (4 nested loops cut at invariants) + bounded runtime contract 'is a route of the caller's graph' on all model classes + SymMILP decoder precondition per layer.",
    design_ref="DESIGN.md section 3 / C01",
    note='Graph lemma `unit flow of 0/1 indicators on a DAG = one path` links encoder and decoder and is not proved; walk reconstruction: see C14. Trusted: HiGHS, networkx.',
    technique='contract-based deductive verification of encoders and decoder (PyVC) + bounded runtime-contract check of route validity',
    engine="pyvc+rc")
