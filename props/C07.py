"""C07 — k-Least-Absolute-Errors returns a true optimum with a consistent objective"""
from contracts import c07, sw, enc

LEVEL = "other"
TRUSTED = [sw.A1]
ASSUMPTIONS = [sw.A3]
EXPLANATION = ('Proved (PyVC, unbounded): get_solution (DAG and cyclic model) returns one weight per route, each the solver value (float) or the integer within 1/2 of it (int); the ENCODERS (DAG and cyclic) add exactly the rows  pi = x*w, ee(e) >= |flow(e) - sum_i pi(e,i)|  on every non-ignored edge, for every assignment of the columns (contracts/enc.py); get_objective_value is the sum of scaled per-edge errors; the product linearisations are exact (C12). NOT proved: optimality over all choices of k routes and weights; decided by the BOUNDED comparison of the real models (HiGHS) with an exact enumeration oracle over explicit route lists, DAG and cyclic, both weight types, scaling, ignore sets, additional starts/ends, node weights (rc/p_C07.py).')


def units(tier):
    from contracts import c02
    return [u for u in c07.all_units() if "C07" in u.props] + [u for u in c02.error_model_units() if "C07" in u.props] + [u for u in enc.all_units() if "C07" in u.props] + [u for u in sw.all_units() if "product" in u.name or "piecewise" in u.name]


def bounded(tier, seed):
    from vf.bounded import Bounded
    from rc import p_C07
    out = [Bounded("C07/rc-vs-enumeration-oracle[%d/14]" % i, p_C07.run, tier=tier, seed=seed, chunk=i, nchunks=14) for i in range(14)]
    try:
        from symmilp import s_C07
        out += [Bounded("C07/symmilp-forall-assignments[%d/4]" % i, s_C07.run, tier=tier, seed=seed, chunk=i, nchunks=4) for i in range(4)]
    except ImportError:
        pass
    return out


MANIFEST = dict(
    category="other",
    text='Contract-based proofs on the real source: the k-LAE ENCODERS (DAG, cyclic, given weights: error columns bound |value - sum of weighted indicators| for every assignment), the objective handed to the solver, the objective recomputation, the linearisation helpers + bounded comparison with an exact explicit-route optimiser on a small universe + SymMILP completeness per instance.',
    design_ref="DESIGN.md section 3 / C07-C08",
    note="Optimality over all route choices is decided only by the bounded comparison with an exact enumeration oracle. Known open findings (repetition caps of the cyclic models) are listed in known_findings.json. Trusted: HiGHS, oracle.",
    technique='contract-based deductive verification of encoders, objective and building blocks (PyVC) + bounded runtime-contract check vs exact enumeration oracle (+ SymMILP)',
    engine="pyvc+rc+symmilp")
