"""C05 — Optimisation options never change solvability or the optimal objective"""
from contracts import sw, c05

LEVEL = "other"
TRUSTED = []
ASSUMPTIONS = ['documented-invalid option combinations are excluded by a validity predicate written from docs/solver-options-optimizations.md']
EXPLANATION = ('Proved (PyVC, unbounded): the greedy shortcut stores a solution only when the greedy decomposition is admissible for the model (<= k paths, every constraint covered to length x fraction, weights representable) and otherwise leaves the model untouched; the bound queue used by the fix-via-bounds options sets exactly the requested bounds (C12 units reused here: they carried two of the root causes found, D4 and D23). NOT proved: invariance of solvability/objective under options - a relational whole-model property; decided by the BOUNDED relational sweep on the real API: every class x small universe x each documented flag alone and all pairs, compared with the default run (rc/p_C05.py).')


def units(tier):
    from contracts import c03
    return [u for u in sw.all_units() if any(k in u.name for k in ("_apply_pending", "queue_", "optimize", "fix_variable"))] + c05.all_units() + c03.all_units()


def bounded(tier, seed):
    from vf.bounded import Bounded
    out = []
    from rc import p_C05
    out += [Bounded("C05/rc-option-sweep[%d/16]" % i, p_C05.run, tier=tier, seed=seed, chunk=i, nchunks=16) for i in range(16)]

    return out


MANIFEST = dict(
    category="other",
    text='Contract-based proofs on the real source: the greedy shortcut (stores a solution only if admissible for the model) and the bound-queue mechanism behind the fix-via-bounds options + bounded relational sweep: (solved?, objective) under every documented flag and every pair of flags equals the default run, for all 12 classes taking optimization_options.',
    design_ref="DESIGN.md section 3 / C05",
    note='Invariance itself is only checked on the bounded universe. Trusted: HiGHS.',
    technique='contract-based deductive verification of the greedy shortcut and the bound queue (PyVC) + bounded relational option sweep on the real API',
    engine='pyvc+rc')
