"""C02 — flow decompositions explain every non-ignored edge's flow exactly."""
from contracts import c02, sw, enc

LEVEL = "other"
TRUSTED = [sw.A1]
ASSUMPTIONS = [sw.A3]
EXPLANATION = ("Proved (PyVC, unbounded): kFlowDecomp.is_valid_solution and kFlowDecompCycles.is_valid_solution themselves are under contract (True only when every counted edge of the flow is within tolerance times its traversal count - at least once in the walk model - of the summed route weights; the converse direction is auxiliary; two abstract routes, both loops cut at ghost prefix sums, 13 concrete instances each); the ENCODERS kFlowDecomp / kFlowDecompCycles._encode_flow_decomposition add exactly the rows  sum_i pi(e,i) = flow(e), pi(e,i) = x(e,i)*w(i)  on every non-ignored edge, for every assignment of the columns (sound and complete, contracts/enc.py); the linearisation helpers are exact (C12) and get_solution returns one weight per route of the requested numeric type. "
               "Bounded, solver-independent (SymMILP): for each enumerated instance z3 proves that EVERY assignment admitted by the MILP the real encoder built explains every non-ignored edge exactly. "
               "Bounded (RC): exact recomputation from the returned routes and weights on the small universe, greedy and MILP routes, node-weighted input, ignored elements.")


def units(tier):
    return c02.all_units() + [u for u in enc.all_units() if "C02" in u.props] + [u for u in sw.all_units() if "product" in u.name]


def bounded(tier, seed):
    from vf.bounded import Bounded
    from symmilp import s_C02
    out = [Bounded("C02/symmilp-forall-assignments[%d/4]" % i, s_C02.run, tier=tier, seed=seed, chunk=i, nchunks=4) for i in range(4)]
    try:
        from rc import p_C02
        out += [Bounded("C02/rc-exact-recomputation[%d/10]" % i, p_C02.run, tier=tier, seed=seed, chunk=i, nchunks=10) for i in range(10)]
    except ImportError:
        pass
    return out


MANIFEST = dict(
    category="other",
    text='Contract-based proofs on the real source: the flow-decomposition ENCODERS (DAG, cyclic, given weights: every admitted assignment explains every non-ignored edge exactly), the product linearisations, the weight read-back, the exact flow-conservation gate; per-instance z3 proof over ALL solver outcomes of the captured MILP (SymMILP); bounded exact recomputation on the real API.',
    design_ref="DESIGN.md section 3 / C02",
    note='Encoder preconditions (edge variables 0/1 resp. integer in [0,w_max], recorded fixings) are stated, not proved. Trusted: HiGHS getLp(), z3.',
    technique='contract-based deductive verification of encoders and building blocks (PyVC) + SymMILP (z3 over the captured MILP, all solver outcomes) + bounded runtime recomputation',
    engine="pyvc+symmilp+rc")
