"""C15 — MinGenSet and MinSetCover return true optima whenever one exists."""
from contracts import c13, stubs, enc

LEVEL = "other"
TRUSTED = [stubs.A_SOLVER]
ASSUMPTIONS = [stubs.A_SOLVER, "A4 (not proved): a generating multiset with at most len(numbers)+1 (+ partition cut points) elements exists whenever one exists"]
EXPLANATION = ("Proved (PyVC, unbounded): the ENCODER MinSetCover._encode_set_cover - one 0/1 column per subset; every admitted assignment is a choice of subsets in which every universe element lies in a chosen subset (and every such choice is admitted: auxiliary clause); the objective handed to the solver is the total weight of the chosen subsets, minimised; the ENCODER MinGenSet._create_solver (no partition constraints; max_multiplicity 1 and >= 2; int and float): every admitted assignment IS a generating set of size k - the k elements lie in [0,total] and sum to total, every number is a sum of (multiplicity x element) with integer multiplicities in [0,max_multiplicity], the product columns' bound cuts off nothing - and nothing else is excluded except by sorting the first k-1 elements (_encode_symmetry_breaking, own unit). Proved (PyVC, unbounded): MinGenSet.solve searches every size from the lower bound to len(numbers)+1, accepts only a proven optimum, never skips an inconclusive size; "
               "MinSetCover.solve/get_solution status clauses (C13). NOT proved: that the MILP rows express 'generating multiset' / 'cover' (product helpers are exact: C12). "
               "Bounded: both classes vs plain enumeration on small instances (rc/p_C15.py).")


def units(tier):
    return [u for u in c13.all_units() if "C15" in u.props or "MinSetCover" in u.name or "MinGenSet" in u.name] + [u for u in enc.all_units() if "C15" in u.props]


def bounded(tier, seed):
    from vf.bounded import Bounded
    from rc import p_C15
    n = 8
    return [Bounded("C15/rc-vs-enumeration[%d/%d]" % (i, n), p_C15.run, tier=tier, seed=seed, chunk=i, nchunks=n) for i in range(n)]


MANIFEST = dict(
    category="other",
    text='Contract-based proofs on the real source: the MinSetCover ENCODER (covering rows + weighted objective, for arbitrary universes, subset families and weights), the MinGenSet ENCODER (_create_solver: every admitted assignment is a generating set of size k; symmetry breaking), the search-range and status clauses of MinGenSet.solve / MinSetCover.solve, plus a bounded stand-in: results compared with plain enumeration (numbers from 1..9, <=4 numbers, multiplicities <=2, both weight types, lower bounds, partition constraints; set covers with universes <=5).',
    design_ref="DESIGN.md section 3 / C15",
    note='Optimality itself and the partition-constraint rows are decided only by the bounded comparison. Trusted: HiGHS, enumeration oracle.',
    technique='contract-based deductive verification of the encoder and the search loop (PyVC) + bounded runtime-contract check vs enumeration',
    engine="pyvc+rc")
