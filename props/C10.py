"""C10 — Constraints, ignored elements and extra start/end nodes behave as documented"""
from contracts import c19, c10, c11, c05, enc

LEVEL = "other"
TRUSTED = []
ASSUMPTIONS = []
EXPLANATION = ('Proved (PyVC, unbounded): the ENCODER _encode_paths adds, for every sub-path constraint j, exactly the rows  sum_{e in R_j} x(e,i) >= |R_j| * coverage * r(i,j)  for every layer i and  sum_i r(i,j) >= 1  (some layer is responsible and then uses the requested share of the constraint\'s edges), for every assignment of the columns; the greedy shortcut accepts only decompositions that cover every constraint; in node mode an additional start v is expanded to v.0 and an additional end to v.1 (so routes ending at v include v) and a sub-path constraint given as nodes / edges is expanded to exactly the node edges / node-edge, edge, ..., closing node edge of the expanded graph; the flow-value validator honours the ignore set exactly (missing/negative values matter only on non-ignored edges). Bounded, solver-independent (SymMILP, when present): every assignment admitted by the captured MILP contains each constraint to the requested coverage in one route. Bounded (RC): returned solutions honour each constraint in a single route; objective = oracle optimum over exactly the constrained solutions; ignoring / scale 0 / additional starts-ends compared with the correspondingly modified oracle (rc/p_C10.py).')


def units(tier):
    return [u for u in c19.all_units() if "get_max_flow_value" in u.name] + c10.all_units() + c11.u_starts_ends() + c11.u_expanded_constraints() + c05.all_units() + [u for u in enc.all_units() if "C10" in u.props]


def bounded(tier, seed):
    from vf.bounded import Bounded
    out = []
    from rc import p_C10
    out += [Bounded("C10/rc-vs-constrained-oracle[%d/14]" % i, p_C10.run, tier=tier, seed=seed, chunk=i, nchunks=14) for i in range(14)]
    try:
        from symmilp import s_C10
        out += [Bounded("C10/symmilp-forall-assignments[%d/4]" % i, s_C10.run, tier=tier, seed=seed, chunk=i, nchunks=4) for i in range(4)]
    except ImportError:
        pass

    return out


MANIFEST = dict(
    category="other",
    text='Contract-based proofs on the real source: the constraint rows of the ENCODERS (_encode_paths sub-path constraints, _encode_subset_constraints with used = min(1, multiplicity)), the greedy shortcut (accepted only if every constraint is covered), max_occurrence, node expansion of additional starts/ends, the ignore-aware validator + per-instance z3 proof over all solver outcomes that constraints are honoured (SymMILP) + bounded comparison with an oracle whose requirement set is modified exactly as documented.',
    design_ref="DESIGN.md section 3 / C10",
    note='Known open findings (repetition caps of the cyclic models) listed in known_findings.json. "Optimum over exactly the admissible solutions" is decided by the bounded oracle comparison (COMPLETE clauses are auxiliary).',
    technique='contract-based deductive verification of encoders, shortcut and validators (PyVC) + SymMILP + bounded runtime-contract check vs modified oracle',
    engine='pyvc+symmilp+rc')
