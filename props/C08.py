"""C08 — k-Minimum-Path-Error is feasible for k >= width and minimises total slack"""
from contracts import c07, sw, enc

LEVEL = "other"
TRUSTED = [sw.A1]
ASSUMPTIONS = [sw.A3]
EXPLANATION = ('Proved (PyVC, unbounded): get_solution (DAG and cyclic model) returns one weight and one slack per route, each the solver value (float) or the integer within 1/2 of it (int); the ENCODERS (DAG without path-length scaling, and cyclic) add exactly the rows  pi = x*w, gamma = x*slack, |flow(e) - sum_i pi(e,i)| * scale(e) <= sum_i gamma(e,i)  on every non-ignored edge, for every assignment of the columns (contracts/enc.py); get_objective_value is the sum of the slacks; the product and piecewise helpers are exact (C12). NOT proved: feasibility for k >= covering number and minimality of the total slack; decided by the BOUNDED comparison with an exact enumeration oracle (rc/p_C08.py).')


def units(tier):
    from contracts import c02
    return [u for u in c07.all_units() if "C08" in u.props] + [u for u in c02.error_model_units() if "C08" in u.props] + [u for u in enc.all_units() if "C08" in u.props] + [u for u in sw.all_units() if "product" in u.name or "piecewise" in u.name]


def bounded(tier, seed):
    from vf.bounded import Bounded
    from rc import p_C08
    out = [Bounded("C08/rc-vs-enumeration-oracle[%d/14]" % i, p_C08.run, tier=tier, seed=seed, chunk=i, nchunks=14) for i in range(14)]
    try:
        from symmilp import s_C08
        out += [Bounded("C08/symmilp-forall-assignments[%d/4]" % i, s_C08.run, tier=tier, seed=seed, chunk=i, nchunks=4) for i in range(4)]
    except ImportError:
        pass
    return out


MANIFEST = dict(
    category="other",
    text='Contract-based proofs on the real source: the k-MPE ENCODERS (DAG without path-length scaling, cyclic, given weights: slacks of the routes through an element pay for its error, for every assignment), the objective handed to the solver, the objective recomputation, the modelling helpers + bounded comparison with an exact explicit-route optimiser (feasibility for k >= covering number, minimal total slack) + SymMILP.',
    design_ref="DESIGN.md section 3 / C07-C08",
    note="Optimality over all route choices is decided only by the bounded comparison with an exact enumeration oracle. Known open findings (repetition caps of the cyclic models) are listed in known_findings.json. Trusted: HiGHS, oracle.",
    technique='contract-based deductive verification of encoders, objective and building blocks (PyVC) + bounded runtime-contract check vs exact enumeration oracle (+ SymMILP)',
    engine="pyvc+rc+symmilp")
