"""C16 — MinErrorFlow returns a closest non-negative flow on the same graph"""
from contracts import c13, enc

LEVEL = "other"
TRUSTED = ['A1 solver contract']
ASSUMPTIONS = []
EXPLANATION = ('Proved (PyVC, unbounded): the ENCODER MinErrorFlow._encode_flow adds exactly: one corrected-flow and one error column per edge in [0, ub] of the requested type, flow conservation at every inner node, error = 0 on ignored edges and error >= |value - corrected| elsewhere - for every assignment of the columns (sound and complete, contracts/enc.py), and raises ValueError exactly for a missing value on a non-ignored edge; MinErrorFlow.solve stage logic (solved only after an optimal last run, no stale first-stage solution, nothing stored on failure) and the getters raising when unsolved. Bounded, solver-independent (SymMILP, when present): every admitted assignment is non-negative, conserving at inner nodes and bounds the per-edge change. Bounded (RC): result vs an exact L1 oracle (z3 with certified optimum), same graph, reported error = recomputed, (1+eps) bound (rc/p_C16.py).')


def units(tier):
    return [u for u in c13.all_units() if "MinErrorFlow" in u.name] + [u for u in enc.all_units() if "C16" in u.props]


def bounded(tier, seed):
    from vf.bounded import Bounded
    out = []
    from rc import p_C16
    out += [Bounded("C16/rc-vs-L1-oracle[%d/12]" % i, p_C16.run, tier=tier, seed=seed, chunk=i, nchunks=12) for i in range(12)]
    try:
        from symmilp import s_C16
        out += [Bounded("C16/symmilp-forall-assignments[%d/4]" % i, s_C16.run, tier=tier, seed=seed, chunk=i, nchunks=4) for i in range(4)]
    except ImportError:
        pass

    return out


MANIFEST = dict(
    category="other",
    text='Contract-based proofs on the real source: the ENCODER _encode_flow (conservation at inner nodes, error columns bound the change, for every assignment), the objective handed to the solver, the two-stage solve logic and getters + per-instance z3 proof over all solver outcomes (SymMILP) + bounded comparison with an exact L1 flow-correction oracle.',
    design_ref="DESIGN.md section 3 / C16",
    note='Optimality is decided by the bounded comparison only. Known open finding: HiGHS presolve reports a feasible few-values model infeasible (solver defect).',
    technique='contract-based deductive verification of encoder, objective and solve logic (PyVC) + SymMILP + bounded runtime-contract check vs exact L1 oracle',
    engine='pyvc+symmilp+rc')
