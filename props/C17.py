"""C17 — Substrate queries (reachability, antichain, bottleneck peeling) match the graph"""


LEVEL = "other"
TRUSTED = ['networkx condensation / topological order (A2)']
ASSUMPTIONS = ['A4 (not proved): max-antichain = min-flow duality']
EXPLANATION = ('Proved (PyVC, unbounded): greedy bottleneck peeling - graphutils.max_bottleneck_path (the DP over a topological order: B = infinity at sources, else the best min(B[pred], flow) over the predecessors, attained by maxInNeighbor; the recovered path runs from a source to the best sink along edges that each carry at least the reported, positive value and visits no node twice; (None, None) only if that value is 0) and stDAG.decompose_using_max_bottleneck (conservation: on every edge what remains plus the reported weights through it equals its flow and nothing negative remains, one positive weight per path). Also proved: stDiGraph.compute_edge_max_reachable_value - local_out / local_in are max(0, weights of the edges leaving / entering the SCC), max_desc and max_anc satisfy the two fix-point equations over the condensation (pull along reversed topological order; push along topological order), and every edge gets max(own weight, max_desc[scc(head)], max_anc[scc(tail)]), nothing else is in the result. The same units are also run natively on small concrete DAGs / conserving flows (bounded, labelled as such), where the maximum over all paths, the exact adding-up and the equality of the fix-points with a plain search are decided by enumeration. the reverse-topological DP of stDAG.reachable_nodes_from establishes the fix-point equation R[u] = {u} + union of R[successors] for every node, and the table is memoised (a later query returns the same object). The other substrate queries have no unbounded proof. The property is decided by the BOUNDED stand-in: reachability tables of stDAG/stDiGraph vs BFS under varied query orders with warm and cold caches, per-edge max reachable value, is_scc_edge, maximum edge antichain vs brute force over all antichains, bottleneck peeling of conserving flows (rc/p_C17.py).')


def units(tier):
    from contracts import c17, c17b
    return c17.all_units() + c17b.all_units()


def bounded(tier, seed):
    from vf.bounded import Bounded
    out = []
    from rc import p_C17
    out += [Bounded("C17/rc-vs-bfs-and-bruteforce[%d/8]" % i, p_C17.run, tier=tier, seed=seed, chunk=i, nchunks=8) for i in range(8)]

    return out


MANIFEST = dict(
    category="other",
    text='Contract-based proofs on the real source: the bottleneck DP and the peeling loop (conservation), stDAG.reachable_nodes_from (reverse-topological DP fix-point) and the per-node reachability caches of stDiGraph (cache invariant as pre- and postcondition, any query order) + bounded stand-in: executable contracts of all substrate queries on all small DAGs/digraphs, several query orders and cache states, against BFS and brute-force antichain enumeration.',
    design_ref="DESIGN.md section 3 / C17",
    note='Antichain / width / per-edge maxima, the optimality of the bottleneck DP over all paths and the exact adding-up of the peeled weights are decided by bounded means only (exhaustive small universes, concrete instances of the contracts).',
    technique='contract-based deductive verification of the reachability queries (PyVC) + bounded runtime-contract check vs BFS / brute-force oracles',
    engine='rc')
