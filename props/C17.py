"""C17 — Substrate queries (reachability, antichain, bottleneck peeling) match the graph"""


LEVEL = "other"
TRUSTED = ['networkx condensation / topological order (A2)']
ASSUMPTIONS = ['A4 (not proved): max-antichain = min-flow duality']
EXPLANATION = ('Proved (PyVC, unbounded): the reverse-topological DP of stDAG.reachable_nodes_from establishes the fix-point equation R[u] = {u} + union of R[successors] for every node, and the table is memoised (a later query returns the same object). The other substrate queries have no unbounded proof. The property is decided by the BOUNDED stand-in: reachability tables of stDAG/stDiGraph vs BFS under varied query orders with warm and cold caches, per-edge max reachable value, is_scc_edge, maximum edge antichain vs brute force over all antichains, bottleneck peeling of conserving flows (rc/p_C17.py).')


def units(tier):
    from contracts import c17
    return c17.all_units()


def bounded(tier, seed):
    from vf.bounded import Bounded
    out = []
    from rc import p_C17
    out += [Bounded("C17/rc-vs-bfs-and-bruteforce[%d/8]" % i, p_C17.run, tier=tier, seed=seed, chunk=i, nchunks=8) for i in range(8)]

    return out


MANIFEST = dict(
    category="other",
    text='Contract-based proofs on the real source: stDAG.reachable_nodes_from (reverse-topological DP fix-point) and the per-node reachability caches of stDiGraph (cache invariant as pre- and postcondition, any query order) + bounded stand-in: executable contracts of all substrate queries on all small DAGs/digraphs, several query orders and cache states, against BFS and brute-force antichain enumeration.',
    design_ref="DESIGN.md section 3 / C17",
    note='Antichain / width / peeling / per-edge maxima are decided by the bounded stand-in only.',
    technique='contract-based deductive verification of the reachability queries (PyVC) + bounded runtime-contract check vs BFS / brute-force oracles',
    engine='rc')
