"""C14 — walk reconstruction uses every edge exactly as often as the solver decided."""
from contracts import c14, enc

LEVEL = "other"
TRUSTED = ["Euler-type argument (balanced + connected => the spliced sub-walks are closed and no edge is left over) is NOT proved; it is decided by exhaustive bounded enumeration; conservation (no traversal invented) IS proved under that hypothesis"]
ASSUMPTIONS = ["A3 round(x) within 1/2 of x"]
EXPLANATION = ("Proved (PyVC, unbounded): get_solution_walks returns one walk per layer, in layer order, each reconstructed from the residual graph of its own layer and from the solver values of exactly the edge variables; the ENCODER AbstractWalkModelDiGraph._encode_walks adds exactly the rows of the walk formulation (one unit out of the source, conservation at inner nodes with integer multiplicities within the per-edge bound, one selected used in-edge per entered node, distances increasing along selected edges) for every assignment of the columns - the balanced-and-connected precondition of the reconstruction rests on these rows (plus a graph lemma that is not proved). Proved (PyVC, unbounded): the residual multigraph handed to the reconstruction contains, for every vertex, exactly round(sigma) copies of each out-neighbour (block structure, no counting axiom). "
               "Bounded (exhaustive, no solver): the real reconstruction functions on every balanced connected multiplicity vector up to the stated size and EVERY ordering of the adjacency lists: "
               "the returned walk traverses each edge exactly its multiplicity; all-zero gives an empty walk.")


def units(tier):
    return c14.all_units() + [u for u in enc.all_units() if "C14" in u.props]


def bounded(tier, seed):
    from vf.bounded import Bounded
    from rc import p_C14
    n = 12
    return [Bounded("C14/exhaustive-multigraphs-x-orders[%d/%d]" % (i, n), p_C14.run, tier=tier, seed=seed, chunk=i, nchunks=n) for i in range(n)]


MANIFEST = dict(
    category="other",
    text='Contract-based proofs on the real source: the walk-formulation ENCODER (_encode_walks, all rows, for every assignment), the residual-graph construction (3 nested loops, quantified block invariants), and CONSERVATION through the Hierholzer reconstruction (_build_closed_walk_from_vertex: pairs of the returned walk = edges removed, closed-or-stuck; _reconstruct_eulerian_walk: every consecutive pair of the result consumed one decided copy of its edge, under the hypothesis that every spliced sub-walk was closed) + exhaustive bounded enumeration of balanced connected multiplicity vectors x adjacency orders through the real reconstruction.',
    design_ref="DESIGN.md section 3 / C14",
    note='The Euler argument (balance + connectivity => every spliced sub-walk is closed and no edge is left over) is not proved: completeness of the traversal is decided by the exhaustive bounded enumeration.',
    technique='contract-based deductive verification of encoder and residual build (PyVC) + exhaustive bounded enumeration of the reconstruction',
    engine="pyvc+rc")
