"""C11 — node-weighted solving equals solving the explicitly node-expanded instance."""
from contracts import c11

LEVEL = "other"
TRUSTED = ["z3 / cvc5 String theory"]
ASSUMPTIONS = ["node names are arbitrary strings"]
EXPLANATION = ("Proved (PyVC + String theory, unbounded): get_expanded_edge, get_expanded_additional_starts/ends, the expansion of sub-path constraints (node lists -> (n.0,n.1) per node; edge lists -> node edge, (u.1,v.0) per edge and the closing node edge; ValueError exactly for absent elements; no state carried from one constraint to the next) with its dispatcher, and the round trip condense(expand(p)) = p of get_condensed_paths on the real source. "
               "Bounded: node-weighted model vs explicitly expanded edge-weighted model (same solved status and objective, original names) on the small universe (rc/p_C11.py).")


def units(tier):
    return c11.all_units()


def bounded(tier, seed):
    from vf.bounded import Bounded
    try:
        from rc import p_C11
    except ImportError:
        return []
    n = 10
    return [Bounded("C11/rc-node-vs-expanded[%d/%d]" % (i, n), p_C11.run, tier=tier, seed=seed, chunk=i, nchunks=n) for i in range(n)]


MANIFEST = dict(
    category="other",
    text="Contract-based proof of the name translations (nodes, edges, additional starts/ends, sub-path constraints; expand / condense round trip) on the real NodeExpandedDiGraph methods with the SMT String theory + bounded relational check node-weighted vs expanded instance.",
    design_ref="DESIGN.md section 3 / C11",
    note="Equality of optima between the two instances is decided only by the bounded comparison. Trusted: HiGHS, z3/cvc5 strings.",
    technique="contract-based deductive verification of the name translations (PyVC, String theory) + bounded relational runtime check",
    engine="pyvc+rc")
