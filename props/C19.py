"""C19 — invalid inputs are rejected with ValueError instead of being solved."""
from contracts import c19

LEVEL = "other"
TRUSTED = ["declarative validity predicate of the bounded part is written from the class docstrings"]
ASSUMPTIONS = ["guard position is checked syntactically (top level of __init__, before super().__init__)"]
EXPLANATION = ("Proved (PyVC, unbounded in k): the real guard statement on k of each of the 8 k-models raises ValueError exactly for k <= 0 (and for non-integers), and precedes the construction of the solver; "
               "the flow-value validator rejects exactly missing / negative values on non-ignored edges; the conservation gate check_flow_conservation answers True exactly for exactly balanced interior nodes (no tolerance). Bounded: every class x valid bases x every single corruption of a catalogue (rc/p_C19.py).")


def units(tier):
    from contracts import c02
    return c19.all_units() + [c02.u_check_flow_conservation()]


def bounded(tier, seed):
    from vf.bounded import Bounded
    from rc import p_C19
    n = 10
    return [Bounded("C19/rc-corruption-catalogue[%d/%d]" % (i, n), p_C19.run, tier=tier, seed=seed, chunk=i, nchunks=n) for i in range(n)]


MANIFEST = dict(
    category="other",
    text='Contract-based proofs on the real source: the scalar guards on k (position, data flow, exactness for all k), the flow-value validator, the sub-path / subset constraint validators (normal return iff every constraint is a non-empty list of 2-tuples that are edges) + bounded enumeration of single corruptions of valid inputs for all 16 model classes.',
    design_ref="DESIGN.md section 3 / C19",
    note='The remaining structural validation inside the big constructors (graph shape, coverage range, weight type) is decided by the bounded enumeration only. Trusted: networkx, HiGHS.',
    technique="contract-based deductive verification of guards/validators (PyVC) + bounded corruption enumeration",
    engine="pyvc+rc")
