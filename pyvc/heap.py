"""Shapes and abstract collections for PyVC.

A *shape* describes how to build python values out of proxies: scalars, tuples, stub objects.
Abstract collections (unknown size) are index/key functions into shaped values:
  SymSeq  : length n (Int term) + at(j)
  SymMap  : membership predicate dom(k) + value function val(k) (+ a lazily created enumeration)
  SymRange: lo, hi
They are what contract stubs hand out for `G.edges()`, `edge_vars`, queues, lines ...
"""
import z3
from . import core
from .core import Sym, lift, Unsupported, INT, REAL, BOOL, STR, ctx


# ------------------------------------------------------------------------------------------
# shapes

class Shape:
    def sorts(self):
        """flat list of z3 sorts of the leaves"""
        raise NotImplementedError

    def build(self, leaves):
        """python value from an iterator over z3 leaf terms"""
        raise NotImplementedError

    def leaves(self, v):
        """flat list of z3 terms of a value of this shape"""
        raise NotImplementedError

    # derived
    def fresh(self, name):
        c = ctx()
        it = iter([z3.Const(c.name("%s.%d" % (name, i)), s) for i, s in enumerate(self.sorts())])
        return self.build(it)

    def fresh_fn(self, name, argsorts):
        c = ctx()
        fs = [z3.Function(c.name("%s.%d" % (name, i)), *argsorts, s) for i, s in enumerate(self.sorts())]

        def fn(*args):
            a = [lift(x) for x in args]
            return self.build(iter([f(*a) for f in fs]))
        fn.funcs = fs
        return fn

    def eq(self, a, b):
        la, lb = self.leaves(a), self.leaves(b)
        return z3.And(*[x == y for x, y in zip(la, lb)]) if la else z3.BoolVal(True)

    def ite(self, c, a, b):
        la, lb = self.leaves(a), self.leaves(b)
        return self.build(iter([z3.If(c, x, y) for x, y in zip(la, lb)]))


class SScalar(Shape):
    def __init__(self, sort): self.sort = sort
    def sorts(self): return [self.sort]
    def build(self, it): return Sym(next(it))

    def leaves(self, v):
        t = lift(v)
        if t.sort() != self.sort:
            if t.sort() == INT and self.sort == REAL:
                t = z3.ToReal(t)
            else:
                raise Unsupported("shape mismatch: %s for %s" % (t.sort(), self.sort))
        return [t]


SInt, SReal, SBool, SStr = SScalar(INT), SScalar(REAL), SScalar(BOOL), SScalar(STR)


class STuple(Shape):
    def __init__(self, *elts): self.elts = elts
    def sorts(self): return [s for e in self.elts for s in e.sorts()]
    def build(self, it): return tuple(e.build(it) for e in self.elts)

    def leaves(self, v):
        if not isinstance(v, tuple) or len(v) != len(self.elts):
            raise Unsupported("tuple shape mismatch")
        return [t for e, x in zip(self.elts, v) for t in e.leaves(x)]


class SObj(Shape):
    """stub object: cls(**fields) where every field has a shape; identity is its fields"""

    def __init__(self, cls, **fields):
        self.cls, self.fields = cls, fields

    def sorts(self): return [s for e in self.fields.values() for s in e.sorts()]

    def build(self, it):
        o = self.cls.__new__(self.cls)
        for k, e in self.fields.items():
            object.__setattr__(o, k, e.build(it))
        return o

    def leaves(self, v): return [t for k, e in self.fields.items() for t in e.leaves(getattr(v, k))]


class SConst(Shape):
    """a fixed python value (no symbolic content)"""
    def __init__(self, v): self.v = v
    def sorts(self): return []
    def build(self, it): return self.v
    def leaves(self, v): return []


def shape_of(v):
    """infer a shape from a value (used by havoc)"""
    if isinstance(v, Sym):
        return SScalar(v.t.sort())
    if isinstance(v, bool):
        return SBool
    if isinstance(v, int):
        return SInt
    if isinstance(v, float):
        return SReal
    if isinstance(v, tuple):
        return STuple(*[shape_of(x) for x in v])
    raise Unsupported("cannot infer a shape for %r" % type(v))


# ------------------------------------------------------------------------------------------
# sequences

class SymRange:
    def __init__(self, lo, hi, step=1):
        self.lo, self.hi, self.step = lo, hi, step
        if not (isinstance(step, int) and step >= 1):
            raise Unsupported("range() with a symbolic or non-positive step")

    def length(self):
        lo, hi = lift(self.lo), lift(self.hi)
        if self.step == 1:
            return Sym(z3.If(hi > lo, hi - lo, z3.IntVal(0)))
        return Sym(z3.If(hi > lo, (hi - lo + (self.step - 1)) / self.step, z3.IntVal(0)))     # ceil((hi-lo)/step), integer division

    def at(self, j):
        return Sym(lift(self.lo) + self.step * lift(j))

    elem_shape = SInt

    def __iter__(self):
        raise Unsupported("iteration over a symbolic range outside a cut loop")

    def __len__(self):
        raise Unsupported("len() of a symbolic range (use the intercepted len)")


class SymSeq:
    """abstract list. n: z3 Int term; at: callable(z3 Int term | Sym | int) -> shaped python value"""

    def __init__(self, n, at, shape=None, name="seq"):
        self.n = lift(n)
        self._at = at
        self.elem_shape = shape
        self.name = name

    @classmethod
    def fresh(cls, name, shape, n=None):
        c = ctx()
        if n is None:
            n = c.fresh_const(name + ".len", INT)
            c.assume(n >= 0)
        fn = shape.fresh_fn(name + ".at", [INT])
        return cls(n, fn, shape, name)

    def length(self): return Sym(self.n)

    def at(self, j):
        return self._at(lift(j))

    def __getitem__(self, j):
        if isinstance(j, slice):
            return self._slice(j)
        if isinstance(j, SymSeq):            # numpy-style gather: x[order]
            at, idx = self._at, j
            return SymSeq(j.n, lambda q: at(lift(idx._at(lift(q)))), self.elem_shape, self.name + "[gather]")
        t = lift(j)
        c = ctx()
        if isinstance(j, int) and j < 0:
            t = self.n + j
        elif not isinstance(j, int):
            if not c.decide(t >= 0, "index>=0"):
                t = self.n + t
        if not c.decide(z3.And(t >= 0, t < self.n), "index-in-range"):
            raise IndexError("list index out of range")
        return self._at(t)

    def _slice(self, sl):
        if sl.step == -1 and sl.start is None and sl.stop is None:      # x[::-1]
            n, at = self.n, self._at
            return SymSeq(n, lambda j: at(n - 1 - lift(j)), self.elem_shape, self.name + "[::-1]")
        if sl.step not in (None, 1):
            raise Unsupported("slice step")
        lo = z3.IntVal(0) if sl.start is None else lift(sl.start)
        hi = self.n if sl.stop is None else lift(sl.stop)
        c = ctx()
        if sl.start is not None and not c.decide(lo >= 0, "slice-start>=0"):
            lo = self.n + lo
            lo = z3.If(lo < 0, z3.IntVal(0), lo)
        if sl.stop is not None and not c.decide(hi >= 0, "slice-stop>=0"):
            hi = self.n + hi
            hi = z3.If(hi < 0, z3.IntVal(0), hi)
        lo = z3.If(lo > self.n, self.n, lo)
        hi = z3.If(hi > self.n, self.n, hi)
        n = z3.If(hi > lo, hi - lo, z3.IntVal(0))
        at = self._at
        return SymSeq(n, lambda j: at(lo + lift(j)), self.elem_shape, self.name + "[:]")

    def __bool__(self):
        return ctx().decide(self.n > 0, "seq-nonempty")

    def __len__(self):
        raise Unsupported("len() of an abstract list (use the intercepted len)")

    def __iter__(self):
        raise Unsupported("iteration over an abstract list outside a cut loop")

    def append(self, x):
        if self.elem_shape is None:
            self.elem_shape = shape_of(x)
        old_at, n0, sh = self._at, self.n, self.elem_shape
        self._at = lambda j: sh.ite(lift(j) == n0, x, old_at(j))
        self.n = n0 + 1

    def pop(self):
        c = ctx()
        if not c.decide(self.n > 0, "pop-nonempty"):
            raise IndexError("pop from empty list")
        v = self._at(self.n - 1)
        self.n = self.n - 1
        return v

    def clear(self):
        self.n = z3.IntVal(0)

    def _as_seq(self, other):
        if isinstance(other, SymSeq):
            return other
        if hasattr(other, "to_seq"):
            return other.to_seq()
        if isinstance(other, (list, tuple)):
            items = list(other)
            sh = self.elem_shape or (shape_of(items[0]) if items else None)
            def at(j, items=items, sh=sh):
                v = items[-1]
                for q in range(len(items) - 2, -1, -1):
                    v = sh.ite(lift(j) == q, items[q], v)
                return v
            return SymSeq(z3.IntVal(len(items)), at if items else (lambda j: None), sh, "literal")
        raise Unsupported("concatenation of an abstract list with %s" % type(other).__name__)

    def _concat(self, other):
        o = self._as_seq(other)
        sh = self.elem_shape or o.elem_shape
        a_at, a_n, b_at = self._at, self.n, o._at
        if sh is None:                                  # comprehension results carry no declared shape: infer it from a sample element
            for at in (a_at, b_at):
                try:
                    with ctx().quantified(z3.BoolVal(True)):
                        sample = at(z3.Int(ctx().name("sample")))
                    if sample is not None:
                        sh = shape_of(sample)
                        break
                except Unsupported:
                    pass
        if sh is None:
            raise Unsupported("concatenation of abstract lists without element shape")
        return a_n + o.n, (lambda j: sh.ite(lift(j) < a_n, a_at(j), b_at(lift(j) - a_n))), sh

    def __add__(self, other):
        n, at, sh = self._concat(other)
        return SymSeq(n, at, sh, self.name + "+")

    def snapshot(self, shape=None):
        """a copy whose elements are fixed NOW (fresh uninterpreted element function, axiomatised equal to the current elements): needed
        before an in-place update when the elements are computed lazily from state that the update changes"""
        c = ctx()
        sh = shape or self.elem_shape
        j = z3.Int(c.name("snap"))
        guard = z3.And(j >= 0, j < self.n)
        with c.quantified(guard):
            v = self._at(j)
        if sh is None:
            sh = shape_of(v)
        fn = sh.fresh_fn(self.name + ".snap", [INT])
        c.assume(z3.ForAll([j], z3.Implies(guard, sh.eq(fn(j), v))))
        return SymSeq(self.n, fn, sh, self.name + ".snap")

    def __radd__(self, other):               # [a, b] + abstract_list
        o = self._as_seq(other)
        if self.elem_shape is not None and o.elem_shape is None:
            o.elem_shape = self.elem_shape
        n, at, sh = o._concat(self)
        return SymSeq(n, at, sh, "+" + self.name)

    def __iadd__(self, other):
        o = self._as_seq(other)
        if o.name != "literal":
            o = o.snapshot(self.elem_shape)        # python evaluates the right-hand side before the in-place extension
        self.n, self._at, self.elem_shape = self._concat(o)
        return self

    def copy(self):
        return SymSeq(self.n, self._at, self.elem_shape, self.name)

    def astype(self, *a, **k):          # numpy-array compatibility: dtype conversions are identities (A3)
        return self

    def havoc(self, name):
        if self.elem_shape is None:
            raise Unsupported("havoc of an abstract list without element shape")
        return SymSeq.fresh(name, self.elem_shape)

    def same_as(self, other):
        """z3 Bool: extensional equality (quantified)"""
        j = z3.Int(ctx().name("j"))
        return z3.And(self.n == other.n,
                      z3.ForAll([j], z3.Implies(z3.And(j >= 0, j < self.n), self.elem_shape.eq(self._at(j), other._at(j)))))


# ------------------------------------------------------------------------------------------
# maps

class SymMap:
    """abstract dict: dom(k) -> z3 Bool, val(k) -> shaped value; keys have a shape too"""

    def __init__(self, kshape, vshape, dom, val, name="map"):
        self.kshape, self.vshape, self._dom, self._val, self.name = kshape, vshape, dom, val, name
        self._enum = None

    @classmethod
    def fresh(cls, name, kshape, vshape):
        domf = z3.Function(ctx().name(name + ".dom"), *kshape.sorts(), BOOL)
        val = vshape.fresh_fn(name + ".val", kshape.sorts())
        m = cls(kshape, vshape, lambda k: domf(*kshape.leaves(k)), lambda k: val(*kshape.leaves(k)), name)
        return m

    @classmethod
    def empty(cls, kshape=None, vshape=None, name="dict"):
        return cls(kshape, vshape, lambda k: z3.BoolVal(False), lambda k: None, name)

    def dom(self, k): return self._dom(k)
    def val(self, k): return self._val(k)

    def __contains__(self, k):
        return ctx().decide(self._dom(k), "key-in-map")

    def has(self, k):
        return Sym(self._dom(k))

    def __getitem__(self, k):
        if not ctx().decide(self._dom(k), "key-in-map"):
            raise KeyError(k)
        return self._val(k)

    def get(self, k, default=None):
        # scalar values with a scalar default: branch-free  ite(k in map, map[k], default)  (usable under quantifiers)
        if default is not None and isinstance(self.vshape, SScalar) and isinstance(default, (int, float, bool, Sym)):
            d = lift(default)
            v = lift(self._val(k))
            if d.sort() != v.sort():
                if d.sort() == INT and v.sort() == REAL:
                    d = z3.ToReal(d)
                elif d.sort() == REAL and v.sort() == INT:
                    v = z3.ToReal(v)
            if d.sort() == v.sort():
                return Sym(z3.If(self._dom(k), v, d))
        if ctx().decide(self._dom(k), "key-in-map"):
            return self._val(k)
        return default

    def __setitem__(self, k, v):
        if self.kshape is None:
            self.kshape = shape_of(k)
        if self.vshape is None:
            self.vshape = shape_of(v)
        od, ov, ks, vs = self._dom, self._val, self.kshape, self.vshape
        kl = ks.leaves(k)
        vs.leaves(v)                                   # shape check now
        self._dom = lambda k2: z3.Or(ks.eq(k2, k), od(k2))

        def nv(k2):
            o = ov(k2)
            if o is None:
                return v
            return vs.ite(ks.eq(k2, k), v, o)
        self._val = nv
        self._enum = None

    def __bool__(self):
        e = self.enum()
        return ctx().decide(e.n > 0, "map-nonempty")

    def __len__(self):
        raise Unsupported("len() of an abstract dict (use the intercepted len)")

    def __iter__(self):
        raise Unsupported("iteration over an abstract dict outside a cut loop")

    def enum(self):
        """an enumeration key_at(0..n-1) of the domain (distinct keys); created lazily.
        facts are instantiated on use: element j is in the domain; `index_of(k)` gives the inverse."""
        if self._enum is None:
            c = ctx()
            n = c.fresh_const(self.name + ".size", INT)
            c.assume(n >= 0)
            kat = self.kshape.fresh_fn(self.name + ".key_at", [INT])
            idx = z3.Function(c.name(self.name + ".idx"), *self.kshape.sorts(), INT)
            m = self

            def at(j):
                j = lift(j)
                k = kat(j)
                c2 = ctx()
                c2.assume(z3.Implies(z3.And(j >= 0, j < n), z3.And(m._dom(k), idx(*m.kshape.leaves(k)) == j)))
                return k
            # the enumeration is a bijection [0,n) <-> dom (finite maps): both directions as quantified definitions
            jq = z3.Int(c.name("enj"))
            kj = kat(jq)
            c.assume(z3.ForAll([jq], z3.Implies(z3.And(jq >= 0, jq < n), z3.And(m._dom(kj), idx(*m.kshape.leaves(kj)) == jq))))
            ks = [z3.Const(c.name("enk%d" % i), s) for i, s in enumerate(m.kshape.sorts())]
            kv = m.kshape.build(iter(ks))
            ik = idx(*ks)
            c.assume(z3.ForAll(ks, z3.Implies(m._dom(kv), z3.And(ik >= 0, ik < n, m.kshape.eq(kat(ik), kv)))))
            seq = SymSeq(n, at, self.kshape, self.name + ".keys")
            seq.idx = idx
            self._enum = seq
        return self._enum

    def index_of(self, k):
        """position of key k in the enumeration; instantiates the inverse fact for k"""
        e = self.enum()
        i = e.idx(*self.kshape.leaves(k))
        c = ctx()
        kk = e._at(i)
        c.assume(z3.Implies(self._dom(k), z3.And(i >= 0, i < e.n, self.kshape.eq(kk, k))))
        return Sym(i)

    def keys(self): return self.enum()

    def items(self):
        e = self.enum()
        m = self
        return SymSeq(e.n, lambda j: (e._at(j), m._val(e._at(j))), STuple(self.kshape, self.vshape), self.name + ".items")

    def values(self):
        e = self.enum()
        m = self
        return SymSeq(e.n, lambda j: m._val(e._at(j)), self.vshape, self.name + ".values")

    def copy(self):
        return SymMap(self.kshape, self.vshape, self._dom, self._val, self.name)

    def havoc(self, name):
        return SymMap.fresh(name, self.kshape, self.vshape)


class LazyMap:
    """result of a comprehension / generator over an abstract iterable: elt(x) for x in seq [if flt(x)]"""

    def __init__(self, kind, fn, seq, flt=None):
        self.kind, self.fn, self.seq, self.flt = kind, fn, seq, flt

    def to_seq(self):
        if self.flt is not None:
            raise Unsupported("filtered comprehension used as a sequence")
        seq, fn = self.seq, self.fn
        return SymSeq(lift(seq.length()), lambda j: fn(seq.at(j)), None, "comp")

    def __iter__(self):
        raise Unsupported("iteration over a symbolic comprehension")


class LazyProduct:
    """result of a two-generator list comprehension over abstract iterables: fn(a)(b) for a in it1 for b in it2fn(a).
    Only consumers that know what to do with it (contract stubs recognising an index set) accept it."""

    def __init__(self, kind, fn, it1, it2fn):
        self.kind, self.fn, self.it1, self.it2fn = kind, fn, it1, it2fn

    def __iter__(self):
        raise Unsupported("iteration over a symbolic product comprehension")

    def __len__(self):
        raise Unsupported("len() of a symbolic product comprehension")


# ------------------------------------------------------------------------------------------
# big operators (prefix-sum functions with instantiated unfolding)

class BigSum:
    """sum_{j<n} term(j): an uninterpreted prefix-sum function S with S(0)=0, S(j+1)=S(j)+term(j).
    Unfoldings are *not* quantified; `unfold(j)` instantiates one step, `defn()` gives the quantified axiom."""

    def __init__(self, n, term, sort=REAL, name="S"):
        c = ctx()
        self.n = lift(n)
        self.term = term
        self.sort = sort
        self.S = z3.Function(c.name(name), INT, sort)
        zero = z3.IntVal(0) if sort == INT else z3.RealVal(0)
        c.assume(self.S(z3.IntVal(0)) == zero)
        self.value = Sym(self.S(self.n))

    def t(self, j):
        j = lift(j)
        with ctx().quantified(z3.And(j >= 0, j < self.n)):      # the term is only ever used under 0 <= j < n
            v = lift(self.term(Sym(j)))
        if v.sort() == INT and self.sort == REAL:
            v = z3.ToReal(v)
        return v

    def step(self, j):
        j = lift(j)
        return z3.Implies(z3.And(j >= 0, j < self.n), self.S(j + 1) == self.S(j) + self.t(j))

    def unfold(self, j):
        ctx().assume(self.step(j))

    def defn(self):
        c = ctx()
        j = z3.Int(c.name("u"))
        return z3.ForAll([j], self.step(j))
