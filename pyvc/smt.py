"""Discharge obligations: z3 (wheel, in-process) first, /usr/bin/cvc5 on `unknown`; thorough: cross-check."""
import os
import subprocess
import tempfile
import time
import z3

Z3_TIMEOUT_MS = int(os.environ.get("VERIF_Z3_TIMEOUT_MS", "12000"))
CVC5_TIMEOUT_MS = int(os.environ.get("VERIF_CVC5_TIMEOUT_MS", "20000"))
CVC5 = "/usr/bin/cvc5"
Z3_OLD = "/usr/bin/z3"


def _seed():
    """solver seeds are not part of the explored space: a fixed seed keeps every verdict reproducible whatever VERIF_SEED is
    (VERIF_SEED only orders / samples cases in the bounded layer); reseeded retries below make verdicts robust anyway"""
    return 0


def _model_dict(m, limit=60):
    out = {}
    for d in m.decls():
        if len(out) >= limit:
            break
        try:
            if d.arity() == 0:
                out[d.name()] = str(m[d])
            else:
                out[d.name()] = str(m[d])[:300]
        except Exception:        # pragma: no cover
            pass
    return out


def _to_smt2(hyps, goal_neg, logic=None):
    s = z3.Solver()
    s.add(*hyps)
    s.add(goal_neg)
    txt = s.to_smt2()
    return txt


def _run_cli(cmd, smt2, timeout_s):
    with tempfile.NamedTemporaryFile("w", suffix=".smt2", delete=False) as f:
        f.write(smt2)
        path = f.name
    try:
        r = subprocess.run(cmd + [path], capture_output=True, text=True, timeout=timeout_s)
        out = (r.stdout or "").strip().splitlines()
        first = out[0].strip() if out else "unknown"
        if first not in ("sat", "unsat", "unknown"):
            first = "unknown"
        return first
    except subprocess.TimeoutExpired:
        return "unknown"
    finally:
        try:
            os.unlink(path)
        except OSError:
            pass


def cvc5_check(smt2):
    txt = smt2
    if "(set-logic" not in txt:
        txt = "(set-logic ALL)\n" + txt
    return _run_cli([CVC5, "--tlimit=%d" % CVC5_TIMEOUT_MS, "--strings-exp", "--arrays-exp"], txt, CVC5_TIMEOUT_MS / 1000 + 5)


def z3old_check(smt2):
    return _run_cli([Z3_OLD, "-T:%d" % max(1, Z3_TIMEOUT_MS // 1000)], smt2, Z3_TIMEOUT_MS / 1000 + 5)


def discharge_one(ob, cross=False):
    """returns dict(name, status, backend, time_s, model?, cross?)  status: discharged | failed | unknown"""
    t0 = time.time()
    s = z3.Solver()
    s.set("timeout", Z3_TIMEOUT_MS)
    s.set("random_seed", _seed())
    s.add(*ob.hyps)
    neg = ob.goal if ob.expect_sat else z3.Not(ob.goal)
    s.add(neg)
    if ob.expect_sat:
        s.set("timeout", 3000)
    r = s.check()
    retries = 0
    if r == z3.unknown and not ob.expect_sat:
        # quantifier instantiation is seed-sensitive: before giving up on z3, retry with other seeds / instantiation settings
        # (a verdict, once reached, is a proof; the retries only make the outcome independent of VERIF_SEED and machine load)
        # Measured on the permutation obligations of _apply_pending_bound_updates: an attempt either answers within a second or never, about
        # one attempt in three never does, and which one does is not even a function of the seed (it depends on what the z3 context has seen
        # before) - so many short attempts beat few long ones.  The first four are the original schedule, the rest was added after a loaded
        # machine lost all four (vp check 7: C12 reported UNDECIDED on the unchanged tree although nothing was wrong).
        t_retry = max(4000, Z3_TIMEOUT_MS // 3)
        for seed2, mbqi in ((7, True), (42, True), (1234, False), (99, True), (5, False), (9, True), (12, False), (15, True), (3, False), (11, True), (13, True), (2, False)):
            s2 = z3.Solver()
            s2.set("timeout", t_retry)
            s2.set("random_seed", seed2)
            if not mbqi:
                s2.set("smt.mbqi", False)
            s2.add(*ob.hyps)
            s2.add(neg)
            retries += 1
            r = s2.check()
            if r != z3.unknown:
                s = s2
                break
    if retries and os.environ.get("VERIF_RETRY_LOG"):           # diagnostics only: which obligations needed a reseeded attempt
        try:
            with open(os.environ["VERIF_RETRY_LOG"], "a") as fh:
                fh.write("%d\t%s\t%s\n" % (retries, r, ob.name))
        except OSError:
            pass
    weak_cover = False
    if ob.expect_sat and r == z3.unknown:
        # sat under quantified hypotheses is rarely decidable: fall back to the quantifier-free hypotheses (weaker vacuity guard, stated)
        from .core import _has_quantifier
        s2 = z3.Solver()
        s2.set("timeout", 30000)            # generous: these queries take up to 5 s on an idle machine and must not flip when all cores are busy
        s2.add(*[h for h in ob.hyps if not _has_quantifier(h)])
        s2.add(neg)
        r = s2.check()
        weak_cover = True
    res = dict(name=ob.name, kind=ob.kind, prop=ob.prop, line=ob.line, info=ob.info, backend="z3-%s" % z3.get_version_string() + (" (after %d reseeded retries)" % retries if retries else ""))
    want_unsat = not ob.expect_sat
    verdict = str(r)
    if weak_cover:
        res["backend"] += " (cover decided on the quantifier-free hypotheses only)"
    if r == z3.unknown and not ob.expect_sat:
        smt2 = _to_smt2(ob.hyps, neg)
        verdict = cvc5_check(smt2)
        res["backend"] = "cvc5-1.0.3(cli) after z3 unknown (%s)" % s.reason_unknown()
    if verdict == "unsat":
        res["status"] = "discharged" if want_unsat else "failed"
    elif verdict == "sat":
        res["status"] = "failed" if want_unsat else "discharged"
        if r == z3.sat and want_unsat:
            try:
                res["model"] = _model_dict(s.model())
                res["_model_obj"] = s.model()
            except z3.Z3Exception:
                pass
    else:
        res["status"] = "unknown"
    if cross and res["status"] != "unknown":
        smt2 = _to_smt2(ob.hyps, neg)
        c1, c2 = cvc5_check(smt2), z3old_check(smt2)
        res["cross"] = {"cvc5": c1, "z3-4.8.12": c2}
        for c in (c1, c2):
            if c in ("sat", "unsat") and c != verdict:
                res["status"] = "unknown"
                res["cross"]["disagreement"] = True
    res["time_s"] = round(time.time() - t0, 4)
    return res


def discharge(obls, cross=False):
    return [discharge_one(o, cross) for o in obls]
