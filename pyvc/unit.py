"""Extraction of the real function from /repo and the per-function verification unit."""
import ast
import hashlib
import os
import time
import traceback
import types

from . import core, smt
from .core import Unsupported, PathAbort, explore
from .cut import Cutter
from .rt import RT, Break_, Continue_, BUILTINS

REPO = os.environ.get("VERIF_REPO", "/repo")


class _Super(ast.NodeTransformer):
    def visit_Call(self, node):
        node = self.generic_visit(node)
        if isinstance(node.func, ast.Name) and node.func.id == "super" and not node.args:
            return ast.copy_location(
                ast.Call(ast.Attribute(ast.Name("__pv", ast.Load()), "super_", ast.Load()), [ast.Name("self", ast.Load())], []), node)
        return node


def find_function(tree, qualname):
    parts = qualname.split(".")
    body = tree.body
    node = None
    for i, p in enumerate(parts):
        cand = [n for n in body if isinstance(n, (ast.ClassDef, ast.FunctionDef)) and n.name == p]
        if not cand:
            raise LookupError("no %s in module" % qualname)
        node = cand[-1]
        body = node.body
    if not isinstance(node, ast.FunctionDef):
        raise LookupError("%s is not a function" % qualname)
    return node


def extract(relpath, qualname, rewrite_literals=True):
    """returns (code-ready ast.Module, meta). Reads /repo's current working tree on every call."""
    path = os.path.join(REPO, relpath)
    src = open(path, encoding="utf-8").read()
    tree = ast.parse(src, filename=path)
    fn = find_function(tree, qualname)
    seg = ast.get_source_segment(src, fn) or ""
    sha = hashlib.sha256(seg.encode()).hexdigest()
    fn.decorator_list = []
    fn.returns = None
    for a in fn.args.args + fn.args.kwonlyargs:
        a.annotation = None
    # default values of parameters are evaluated at definition time in the sidecar globals: keep constants only
    fn = _Super().visit(fn)
    cutter = Cutter(rewrite_literals=rewrite_literals)
    # visit the *body* so the function's own node survives
    new_body = []
    for st in fn.body:
        r = cutter.visit(st)
        new_body += r if isinstance(r, list) else [r]
    fn.body = new_body
    mod = ast.Module(body=[fn], type_ignores=[])
    ast.fix_missing_locations(mod)
    meta = dict(file=relpath, qualname=qualname, sha256=sha, first_line=fn.lineno, last_line=getattr(fn, "end_lineno", None),
                loops=[dict(ordinal=k, kind=kind, line=ln) for k, kind, ln in cutter.loops], comprehensions_rewritten=cutter.comps)
    return mod, meta, path


def load(relpath, qualname, globs=None, loops=None, super_obj=None, rewrite_literals=True, literals=None):
    mod, meta, path = extract(relpath, qualname, rewrite_literals)
    g = {"__name__": "flowpaths.<extracted>"}
    g.update(BUILTINS)
    g.update(globs or {})
    rt = RT(loops, qualname, super_obj, literals)
    g.update(__pv=rt, __Break=Break_, __Continue=Continue_)
    code = compile(mod, path, "exec")
    exec(code, g)
    f = g[qualname.split(".")[-1]]
    return f, meta, rt


class NoopLogger:
    def __getattr__(self, k):
        return lambda *a, **kw: None


class Unit:
    """one function under contract.

    harness(ctx, f): builds an arbitrary pre-state satisfying `requires`, calls the extracted real function `f`,
    and states `ensures` through ctx.prove(name, goal, prop=...).  Callees are the stubs placed in `globs` / on the
    stub `self` (each asserting its own `requires` as a `pre` obligation and assuming its `ensures`)."""

    def __init__(self, relpath, qualname, harness, globs=None, loops=None, super_obj=None, props=(), assumptions=(),
                 abstractions=(), name=None, replay=None, rewrite_literals=True, max_paths=2000, callee_contracts=(), literals=None, instances=None):
        self.instances = instances          # callable -> [(label, harness)]: the same contract on small CONCRETE inputs (loops run natively, ground obligations)
        self.literals = literals
        self.relpath, self.qualname, self.harness = relpath, qualname, harness
        self.globs, self.loops, self.super_obj = globs or {}, loops or {}, super_obj
        self.props, self.assumptions, self.abstractions = list(props), list(assumptions), list(abstractions)
        self.name = name or ("%s:%s" % (relpath, qualname))
        self.replay = replay
        self.rewrite_literals = rewrite_literals
        self.max_paths = max_paths
        self.callee_contracts = list(callee_contracts)

    def execute(self, cross=False):
        t0 = time.time()
        res = dict(unit=self.name, file=self.relpath, function=self.qualname, props=self.props, status="ok", scenario=bool(getattr(self, "scenario", False)),
                   assumptions=self.assumptions, abstractions=self.abstractions, obligations=[], paths=0, aborted_paths=0,
                   callee_contracts=self.callee_contracts)
        try:
            f, meta, rt = load(self.relpath, self.qualname, self.globs, self.loops, self.super_obj, self.rewrite_literals, self.literals)
        except (LookupError, SyntaxError, NotImplementedError, OSError) as e:
            res.update(status="unsupported", reason="extraction failed: %s: %s" % (type(e).__name__, e))
            res["wall_s"] = round(time.time() - t0, 3)
            return res
        res.update(meta)

        def run(c):
            self.harness(c, f)
            c.cover("exit-reachable(hypotheses-consistent)")       # vacuity guard: the path condition at the end of every completed path is satisfiable

        try:
            obls, npaths, aborted, notes = explore(run, max_paths=self.max_paths)
        except Unsupported as e:
            tb = traceback.format_exc(limit=6)
            res.update(status="unsupported", reason="Unsupported: %s" % e, traceback=tb[-1500:])
            res["wall_s"] = round(time.time() - t0, 3)
            return res
        except RecursionError as e:
            res.update(status="unsupported", reason="RecursionError")
            res["wall_s"] = round(time.time() - t0, 3)
            return res
        except Exception as e:      # an exception that escaped the harness = engine/contract problem, not a finding
            tb = traceback.format_exc(limit=8)
            res.update(status="error", reason="%s: %s" % (type(e).__name__, e), traceback=tb[-2500:])
            res["wall_s"] = round(time.time() - t0, 3)
            return res
        res["paths"], res["aborted_paths"], res["notes"] = npaths, aborted, sorted(set(notes))[:20]
        missing = [l["ordinal"] for l in meta["loops"] if l["ordinal"] not in self.loops]
        if missing:
            res["loops_without_invariant"] = missing
        # discharge; identical obligations reached on several paths keep distinct names via a path counter
        seen = {}
        out = []
        dedupe = set()
        for o in obls:
            key = (o.name, o.goal.get_id(), tuple(h.get_id() for h in o.hyps))
            if key in dedupe:
                continue
            dedupe.add(key)
            n = seen.get(o.name, 0)
            seen[o.name] = n + 1
            r = smt.discharge_one(o, cross=cross)
            r["name"] = "%s::%s%s" % (self.name, o.name, "" if n == 0 else "~%d" % n)
            r["base"] = o.name
            mo = r.pop("_model_obj", None)
            if r["status"] == "failed" and mo is not None and self.replay is not None and o.prop:
                try:
                    r["replay"] = self.replay(o, mo)
                except Exception as e:          # replay machinery failure is never a verdict
                    r["replay"] = dict(ok=False, error="%s: %s" % (type(e).__name__, e))
            out.append(r)
        # concrete instances of the same contract (bounded, never counted as proved): run in the thorough tier, and whenever a property clause of
        # this unit is not discharged - a ground counterexample (instance + column values) decides what the quantified query left open
        open_prop = [r for r in out if r.get("prop") and r["status"] != "discharged" and not (r.get("replay") or {}).get("ok")]
        if self.instances is not None and (cross or open_prop):
            inst_res = dict(checked=0, failed=0, errors=[], labels=[])
            try:
                insts = list(self.instances())
            except Exception as e:
                insts, inst_res["errors"] = [], ["%s: %s" % (type(e).__name__, e)]
            for label, hc in insts:
                try:
                    iobls, _, _, _ = explore(lambda c, hc=hc: hc(c, f), max_paths=self.max_paths)
                except BaseException as e:          # instance machinery failure is never a verdict
                    inst_res["errors"].append("%s: %s: %s" % (label, type(e).__name__, str(e)[:200]))
                    continue
                inst_res["labels"].append(label)
                idone = set()
                for o in iobls:
                    if o.kind == "cover":
                        continue
                    key = (o.name, o.goal.get_id())
                    if key in idone:
                        continue
                    idone.add(key)
                    r = smt.discharge_one(o, cross=False)
                    mo = r.pop("_model_obj", None)
                    inst_res["checked"] += 1
                    if r["status"] == "failed":
                        inst_res["failed"] += 1
                        r["name"] = "%s::%s" % (self.name, o.name)
                        r["base"] = o.name
                        r["replay"] = dict(ok=True, kind="concrete instance of the contract: the real function body run natively (no loop cutting) on this input; "
                                                         "the values below are an assignment of the columns / inputs that satisfies every hypothesis and falsifies the clause",
                                           instance=label, values=r.get("model"))
                        out.append(r)
            # every concrete instance passes: a symbolic clause that failed WITHOUT a natively confirmed input is then not reported as a violation (the contract may
            # simply no longer fit a restructured body - loop ordinals, helper locals); it stays open (UNDECIDED) and the bounded layer has the last word
            if inst_res["checked"] > 0 and inst_res["failed"] == 0 and not inst_res["errors"]:
                for r in open_prop:
                    if r["status"] == "failed" and not (r.get("replay") or {}).get("ok"):
                        r["replay"] = dict(ok=False, kind="concrete instances", instances=len(inst_res["labels"]), ground_clauses_checked=inst_res["checked"],
                                           note="the same function body run natively on every concrete instance of this contract satisfies all ground clauses")
            res["concrete_instances"] = inst_res
        res["obligations"] = out
        res["wall_s"] = round(time.time() - t0, 3)
        res["solver_time_s"] = round(sum(r["time_s"] for r in out), 3)
        return res
