"""PyVC core: symbolic proxies, path context, decision-prefix path enumeration.

The real function (extracted from /repo, loops cut) is executed by CPython on proxy values.
Every coercion of a symbolic value to bool is a decision point; feasible outcomes are explored
depth first by re-execution with a recorded decision prefix.  Obligations are collected as
(name, hypotheses, goal) triples and discharged by pyvc.smt.
"""
import itertools
import z3

INT, REAL, BOOL, STR = z3.IntSort(), z3.RealSort(), z3.BoolSort(), z3.StringSort()


class PathAbort(BaseException):
    """the current path is infeasible or intentionally ended (assume False / loop cut)"""


class Unsupported(BaseException):
    """a construct the engine cannot treat symbolically -> function is *unsupported*, never proved"""


class Obl:
    __slots__ = ("name", "hyps", "goal", "prop", "line", "kind", "info", "expect_sat")

    def __init__(self, name, hyps, goal, prop=None, line=None, kind="post", info=None, expect_sat=False):
        self.name, self.hyps, self.goal = name, hyps, goal
        self.prop, self.line, self.kind, self.info = prop, line, kind, info or {}
        self.expect_sat = expect_sat


class Ctx:
    def __init__(self, prefix=(), decide_timeout_ms=4000, max_steps=4000):
        self.prefix = list(prefix)
        self.pos = 0
        self.pc = []
        self.obls = []
        self.fresh = itertools.count()
        self.decide_timeout_ms = decide_timeout_ms
        self.steps = 0
        self.max_steps = max_steps
        self.notes = []
        self.trace = []          # textual trace of decisions (for evidence / debugging)
        self.flip_pos = len(self.prefix) - 1 if self.prefix else -1
        self.qguards = []
        self.quant_timeout_ms = 700

    # -- naming -----------------------------------------------------------------------------
    def name(self, base):
        return "%s!%d" % (base, next(self.fresh))

    def fresh_const(self, base, sort):
        return z3.Const(self.name(base), sort)

    # -- path condition ---------------------------------------------------------------------
    def _feasible(self, extra):
        import time as _t
        t0 = _t.time()
        try:
            return self._feasible0(extra)
        finally:
            self.t_feas = getattr(self, "t_feas", 0) + _t.time() - t0
            self.n_feas = getattr(self, "n_feas", 0) + 1

    def _feasible0(self, extra):
        """is pc /\\ extra satisfiable?  unknown counts as feasible (fail-safe: more paths, never fewer)"""
        qf = [h for h in self.pc if not _has_quantifier(h)]
        s = z3.Solver()
        s.set("timeout", self.decide_timeout_ms)
        s.add(*qf)
        s.add(extra)
        r = s.check()
        if r == z3.unsat:
            return False
        if len(qf) == len(self.pc) and not _has_quantifier(extra):
            return True
        s = z3.Solver()
        s.set("timeout", self.quant_timeout_ms)
        s.add(*self.pc)
        s.add(extra)
        return s.check() != z3.unsat

    def _valid(self, cond):
        import time as _t
        t0 = _t.time()
        try:
            return self._valid0(cond)
        finally:
            self.t_valid = getattr(self, "t_valid", 0) + _t.time() - t0

    def _valid0(self, cond):
        s = z3.Solver()
        s.set("timeout", self.decide_timeout_ms)
        s.add(*self.pc)
        s.add(*self.qguards)
        s.add(z3.Not(cond))
        return s.check() == z3.unsat

    def quantified(self, guard):
        """context manager: evaluate python code at a *bound* variable; decisions must be determined by pc /\\ guard"""
        c = self

        class _Q:
            def __enter__(s2):
                c.qguards.append(guard)

            def __exit__(s2, *a):
                c.qguards.pop()
                return False
        return _Q()

    def decide(self, cond, label=""):
        """cond: z3 Bool (or python bool). Returns a python bool and records the branch."""
        if isinstance(cond, bool):
            return cond
        cond = z3.simplify(cond)
        if z3.is_true(cond):
            return True
        if z3.is_false(cond):
            return False
        self.steps += 1
        if self.steps > self.max_steps:
            raise Unsupported("step budget exceeded")
        if self.qguards:
            if self._valid(cond):
                return True
            if self._valid(z3.Not(cond)):
                return False
            raise Unsupported("branching on a bound variable inside a quantified body (%s)" % label)
        if self.pos < len(self.prefix):
            d = self.prefix[self.pos]
            if self.pos == self.flip_pos and d is False:
                # the flipped branch of the previous run: check feasibility now
                if not self._feasible(z3.Not(cond)):
                    self.pos += 1
                    self.pc.append(z3.Not(cond))
                    raise PathAbort()
        else:
            d = None
            for cand in (True, False):
                if self._feasible(cond if cand else z3.Not(cond)):
                    d = cand
                    break
            if d is None:
                raise PathAbort()
            self.prefix.append(d)
        self.pos += 1
        self.pc.append(cond if d else z3.Not(cond))
        self.trace.append((label, d))
        return d

    def assume(self, c):
        if isinstance(c, Sym):
            c = c.t
        if isinstance(c, bool):
            if not c:
                raise PathAbort()
            return
        self.pc.append(c)

    def prove(self, name, goal, prop=None, line=None, kind="post", info=None):
        if isinstance(goal, Sym):
            goal = goal.t
        if isinstance(goal, bool):
            goal = z3.BoolVal(goal)
        self.obls.append(Obl(name, list(self.pc), goal, prop, line, kind, info))

    def lemma(self, name, goal, prop=None, kind="lemma", info=None):
        """prove, then use: the goal becomes a hypothesis of everything that follows (a cut); its own obligation is checked separately"""
        self.prove(name, goal, prop=prop, kind=kind, info=info)
        self.assume(goal)

    def prove_from(self, name, facts, goal, prop=None, kind="post", info=None):
        """two-stage proof that keeps the solver query small: (1) each fact follows from the path condition (usually an instance of a
        quantified hypothesis), (2) the goal follows from the facts ALONE.  Modus ponens gives pc => goal."""
        for i, fct in enumerate(facts):
            self.prove("%s:fact%d" % (name, i), fct, prop=prop, kind=kind, info=info)
        if isinstance(goal, Sym):
            goal = goal.t
        self.obls.append(Obl(name, list(facts), goal, prop, None, kind, info))

    def cover(self, name, cond=True, info=None):
        """reachability / non-vacuity: hyps /\\ cond must be satisfiable"""
        if isinstance(cond, Sym):
            cond = cond.t
        if isinstance(cond, bool):
            cond = z3.BoolVal(cond)
        self.obls.append(Obl(name, list(self.pc), cond, None, None, "cover", info, expect_sat=True))

    def note(self, s):
        self.notes.append(s)


def _has_quantifier(t):
    seen = set()
    stack = [t]
    while stack:
        e = stack.pop()
        if e.get_id() in seen:
            continue
        seen.add(e.get_id())
        if z3.is_quantifier(e):
            return True
        stack.extend(e.children())
    return False


CTX = None


def ctx():
    if CTX is None:
        raise RuntimeError("no active PyVC context")
    return CTX


# ------------------------------------------------------------------------------------------
# proxies

def lift(x):
    """python value / proxy -> z3 term"""
    if isinstance(x, Sym):
        return x.t
    if isinstance(x, z3.ExprRef):
        return x
    if isinstance(x, bool):
        return z3.BoolVal(x)
    if isinstance(x, int):
        return z3.IntVal(x)
    if isinstance(x, float):
        if x == float("inf") or x == float("-inf") or x != x:
            raise Unsupported("non-finite float in symbolic arithmetic")
        return z3.RealVal(repr(x))
    if isinstance(x, str):
        return z3.StringVal(x)
    from fractions import Fraction
    if isinstance(x, Fraction):
        return z3.RealVal(str(x))
    raise Unsupported("cannot lift %r" % type(x))


def _coerce(a, b):
    a, b = lift(a), lift(b)
    sa, sb = a.sort(), b.sort()
    if sa != sb:
        if sa == INT and sb == REAL:
            a = z3.ToReal(a)
        elif sa == REAL and sb == INT:
            b = z3.ToReal(b)
        elif sa == BOOL and sb in (INT, REAL):
            a = z3.If(a, z3.IntVal(1), z3.IntVal(0))
            return _coerce(a, b)
        elif sb == BOOL and sa in (INT, REAL):
            b = z3.If(b, z3.IntVal(1), z3.IntVal(0))
            return _coerce(a, b)
        else:
            raise Unsupported("sort mismatch %s vs %s" % (sa, sb))
    return a, b


TIMES = z3.Function("times", REAL, REAL, REAL)


def _times(a, b):
    """product of two terms.  When the active context asks for it (`mul_abstract`, set by harnesses whose claims do not depend on
    arithmetic facts about products) and neither factor is a numeral, the product is the uninterpreted `times(a, b)`: whatever is proved
    for an arbitrary binary function holds for multiplication, and the solver is spared nonlinear reasoning."""
    c = CTX
    if c is not None and getattr(c, "mul_abstract", False):
        num = lambda t: z3.is_int_value(t) or z3.is_rational_value(t)
        if not num(a) and not num(b) and a.sort() in (INT, REAL) and b.sort() in (INT, REAL):
            ra = z3.ToReal(a) if a.sort() == INT else a
            rb = z3.ToReal(b) if b.sort() == INT else b
            return TIMES(ra, rb)
    return a * b


class Sym:
    """a symbolic scalar: wraps a z3 term of sort Int / Real / Bool / String"""
    __slots__ = ("t",)

    def __init__(self, t):
        self.t = t

    # arithmetic
    def _bin(self, o, f):
        try:
            a, b = _coerce(self, o)
        except Unsupported:
            return NotImplemented
        return Sym(f(a, b))

    def _rbin(self, o, f):
        try:
            a, b = _coerce(o, self)
        except Unsupported:
            return NotImplemented
        return Sym(f(a, b))

    def __add__(s, o): return s._bin(o, lambda a, b: a + b)
    def __radd__(s, o): return s._rbin(o, lambda a, b: a + b)
    def __sub__(s, o): return s._bin(o, lambda a, b: a - b)
    def __rsub__(s, o): return s._rbin(o, lambda a, b: a - b)
    def __mul__(s, o): return s._bin(o, _times)
    def __rmul__(s, o): return s._rbin(o, _times)

    def __truediv__(s, o):
        a, b = _coerce(s, o)
        if not ctx().decide(b != 0, "div-nonzero"):
            raise ZeroDivisionError("division by zero")
        if a.sort() == INT:
            a, b = z3.ToReal(a), z3.ToReal(b)
        return Sym(a / b)

    def __rtruediv__(s, o):
        return Sym(lift(o)).__truediv__(s)

    def __floordiv__(s, o):
        a, b = _coerce(s, o)
        if a.sort() != INT:
            raise Unsupported("floor division on reals")
        if not ctx().decide(b != 0, "div-nonzero"):
            raise ZeroDivisionError("integer division by zero")
        if not ctx().decide(b > 0, "floordiv-positive-divisor"):
            raise Unsupported("floor division by a negative divisor")
        return Sym(a / b)         # z3 int division = floor for positive divisor

    def __mod__(s, o):
        a, b = _coerce(s, o)
        if a.sort() != INT:
            raise Unsupported("mod on reals")
        if not ctx().decide(b > 0, "mod-positive-divisor"):
            raise Unsupported("mod by a non-positive divisor")
        return Sym(a % b)

    def __neg__(s): return Sym(-s.t)
    def __pos__(s): return s

    def __abs__(s):
        return Sym(z3.If(s.t >= 0, s.t, -s.t))

    def __pow__(s, o):
        if isinstance(o, int) and 0 <= o <= 4:
            r = Sym(z3.IntVal(1) if s.t.sort() == INT else z3.RealVal(1))
            for _ in range(o):
                r = r * s
            return r
        raise Unsupported("symbolic power")

    def __rpow__(s, o):
        if o == 2 and s.t.sort() == INT:
            return pow2(s)
        raise Unsupported("symbolic exponent with base %r" % (o,))

    # comparisons
    def __le__(s, o): return s._bin(o, lambda a, b: a <= b)
    def __ge__(s, o): return s._bin(o, lambda a, b: a >= b)
    def __lt__(s, o): return s._bin(o, lambda a, b: a < b)
    def __gt__(s, o): return s._bin(o, lambda a, b: a > b)

    def __eq__(s, o):
        if o is None:
            return False
        try:
            a, b = _coerce(s, o)
        except Unsupported:
            return False
        return Sym(a == b)

    def __ne__(s, o):
        if o is None:
            return True
        try:
            a, b = _coerce(s, o)
        except Unsupported:
            return True
        return Sym(a != b)

    # logical (used by contract helpers; python's and/or/not go through __bool__)
    def __and__(s, o): return Sym(z3.And(s.t, lift(o)))
    def __rand__(s, o): return Sym(z3.And(lift(o), s.t))
    def __or__(s, o): return Sym(z3.Or(s.t, lift(o)))
    def __ror__(s, o): return Sym(z3.Or(lift(o), s.t))
    def __invert__(s): return Sym(z3.Not(s.t))

    def __bool__(s):
        if s.t.sort() == BOOL:
            return ctx().decide(s.t, "bool")
        if s.t.sort() == STR:
            return ctx().decide(z3.Length(s.t) > 0, "str-nonempty")
        return ctx().decide(s.t != 0, "nonzero")

    def __getitem__(s, k):
        """string slicing / indexing (z3 sequence theory); only for String-sorted proxies"""
        if s.t.sort() != STR:
            raise Unsupported("subscript of a symbolic scalar")
        n = z3.Length(s.t)
        def norm(v, default):
            if v is None:
                return default
            t = lift(v)
            if isinstance(v, int):
                return (n + v) if v < 0 else z3.IntVal(v)
            return z3.If(t < 0, n + t, t)
        def clamp(t):
            return z3.If(t < 0, z3.IntVal(0), z3.If(t > n, n, t))
        if isinstance(k, slice):
            if k.step not in (None, 1):
                raise Unsupported("string slice step")
            lo, hi = clamp(norm(k.start, z3.IntVal(0))), clamp(norm(k.stop, n))
            return Sym(z3.SubString(s.t, lo, z3.If(hi > lo, hi - lo, z3.IntVal(0))))
        i = norm(k, None)
        if not ctx().decide(z3.And(i >= 0, i < n), "str-index-in-range"):
            raise IndexError("string index out of range")
        return Sym(z3.SubString(s.t, i, 1))

    def __hash__(s):
        raise Unsupported("hash of a symbolic value (dict/set keyed by a symbolic value)")

    def __index__(s):
        raise Unsupported("symbolic value used as a concrete index")

    def __int__(s):
        if s.t.sort() == INT:
            return s
        raise Unsupported("int() of a symbolic non-integer (use intercepted int)")

    def __float__(s):
        raise Unsupported("float() of a symbolic value (use intercepted float)")

    def __format__(s, spec): return "<sym>"
    def __str__(s): return "<sym>"
    def __repr__(s): return "Sym(%s)" % (s.t,)

    def sort(s): return s.t.sort()
    def is_int(s): return s.t.sort() == INT
    def is_real(s): return s.t.sort() == REAL


def is_sym(x):
    return isinstance(x, Sym)


# -- spec-level helpers usable on proxies and on concrete values -------------------------------

POW2 = z3.Function("pow2", INT, INT)


def pow2(i):
    """2**i for symbolic integer i; definitional facts are instantiated at the term (no quantifier)"""
    if isinstance(i, int):
        return 2 ** i
    t = lift(i)
    c = ctx()
    if not c.decide(t >= 0, "pow2-exponent-nonneg"):
        raise Unsupported("2**negative")
    c.assume(POW2(z3.IntVal(0)) == 1)
    c.assume(POW2(t) >= 1)
    c.assume(POW2(t + 1) == 2 * POW2(t))
    c.assume(z3.Implies(t >= 1, POW2(t) == 2 * POW2(t - 1)))
    return Sym(POW2(t))


def implies(a, b):
    if isinstance(a, bool) and isinstance(b, bool):
        return (not a) or b
    return Sym(z3.Implies(lift(a), lift(b)))


def and_(*xs):
    if all(isinstance(x, bool) for x in xs):
        return all(xs)
    return Sym(z3.And(*[lift(x) for x in xs]))


def or_(*xs):
    if all(isinstance(x, bool) for x in xs):
        return any(xs)
    return Sym(z3.Or(*[lift(x) for x in xs]))


def not_(x):
    if isinstance(x, bool):
        return not x
    return Sym(z3.Not(lift(x)))


def ite(c, a, b):
    if isinstance(c, bool):
        return a if c else b
    x, y = _coerce(a, b)
    return Sym(z3.If(lift(c), x, y))


# ------------------------------------------------------------------------------------------
# path enumeration

def explore(run, max_paths=2000, **ctxkw):
    """run(ctx) executes one path of the function under verification.
    Returns (obligations, npaths, aborted, notes)."""
    global CTX
    allob, notes = [], []
    prefix, npaths, aborted = [], 0, 0
    while True:
        c = Ctx(prefix, **ctxkw)
        CTX = c
        try:
            run(c)
            npaths += 1
        except PathAbort:
            aborted += 1
        finally:
            CTX = None
        allob += c.obls
        notes += c.notes
        if __import__("os").environ.get("PYVC_TRACE"):
            print("  path: decisions=%d feas=%.2fs/%d valid=%.2fs obls=%d %s" % (c.pos, getattr(c, "t_feas", 0), getattr(c, "n_feas", 0), getattr(c, "t_valid", 0), len(c.obls), [l for l, d in c.trace][-6:]))
        if c.pos < len(c.prefix):
            raise Unsupported("non-deterministic replay of a decision prefix")
        p = c.prefix
        while p and p[-1] is False:
            p.pop()
        if not p:
            break
        p[-1] = False
        prefix = p
        if npaths + aborted > max_paths:
            raise Unsupported("more than %d paths" % max_paths)
    return allob, npaths, aborted, notes
