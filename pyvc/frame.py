"""Frame checker: discharges `modifies` clauses ("the caller's argument objects are never written") by a conservative
may-alias / may-mutate abstract interpretation of the real source (re-read from /repo on every run).

Abstract value = (obj, elems): `obj` the set of caller regions the value itself may be, `elems` the regions its elements /
attribute contents may be.  A region is a parameter name of the analysed constructor ("p": the object passed in, "p[]": anything
reachable inside it).  Shallow copies keep `elems`, deep copies drop everything.  Calls into the repo's own classes and methods are
analysed inline (call-string depth bounded), unknown library calls are assumed not to write their arguments unless the method name is
a known mutator.  Every write whose receiver may be a caller region is reported with its site and call chain."""
import ast
import os

REPO = os.environ.get("VERIF_REPO", "/repo")

MUTATORS = {"append", "extend", "insert", "update", "add", "discard", "remove", "pop", "clear", "sort", "setdefault", "popitem", "reverse",
            "add_edge", "add_node", "add_edges_from", "add_nodes_from", "remove_edge", "remove_node", "remove_edges_from", "remove_nodes_from",
            "add_weighted_edges_from", "__setitem__", "difference_update", "intersection_update", "symmetric_difference_update"}
DEEP = {"deepcopy"}
SHALLOW_CALLS = {"list", "dict", "set", "tuple", "sorted", "frozenset", "reversed", "copy", "union", "difference", "intersection", "keys", "values", "items",
                 "zip", "enumerate", "filter", "map"}
GRAPH_COPY = {"copy", "DiGraph", "MultiDiGraph", "Graph", "subgraph", "edge_subgraph", "reverse"}
MAXDEPTH = 7


class Val:
    """obj: caller regions this value may BE; elem: abstract value of its elements/contents (None = nothing known to be caller-owned);
    rec: contents of a caller region are again that region (p[] inside p[])"""
    __slots__ = ("obj", "elem", "rec", "fields", "cls")

    def __init__(self, obj=(), elem=None, rec=False, fields=None, cls=None):
        self.obj = frozenset(obj)
        self.elem, self.rec, self.fields, self.cls = elem, rec, fields, cls

    @property
    def elems(self):
        """all caller regions reachable strictly inside this value (flattened)"""
        out, v, d = frozenset(), self, 0
        while v is not None and d < 6:
            nxt = v.elem if v.elem is not None else (v if v.rec else None)
            if nxt is None:
                break
            out |= nxt.obj
            if nxt is v:
                break
            v, d = nxt, d + 1
        return out

    def inner(self):
        if self.elem is not None:
            return self.elem
        if self.rec:
            return self
        return EMPTY

    def shallow(self):
        i = self.inner()
        return Val((), i if (i.obj or i.elem is not None or i.rec) else None)

    def join(self, o, depth=0):
        if o is None or o is self:
            return self
        if depth > 4:
            return Val(self.obj | o.obj | self.elems | o.elems, None, True)
        a, b = self.elem, o.elem
        if a is None and self.rec:
            a = self
        if b is None and o.rec:
            b = o
        if a is None:
            e = b
        elif b is None:
            e = a
        elif a is self and b is o:
            e = None
        else:
            e = a.join(b, depth + 1)
        return Val(self.obj | o.obj, e, self.rec or o.rec, self.fields or o.fields, self.cls or o.cls)

    def holding(self, v):
        """this container after v was stored into it"""
        return Val(self.obj, v if self.elem is None and not self.rec else self.inner().join(v), self.rec, self.fields, self.cls)


def param_val(p):
    return Val((p,), Val((p + "[]",), None, True))


def flat(vals):
    """a fresh container holding the given values"""
    e = None
    for v in vals:
        e = v if e is None else e.join(v)
    return Val((), e)


EMPTY = Val()


class Repo:
    def __init__(self):
        self.modules, self.classes, self.functions = {}, {}, {}
        base = os.path.join(REPO, "flowpaths")
        for root, _, files in os.walk(base):
            for fn in files:
                if fn.endswith(".py"):
                    path = os.path.join(root, fn)
                    rel = os.path.relpath(path, REPO)
                    try:
                        tree = ast.parse(open(path, encoding="utf-8").read(), filename=path)
                    except SyntaxError:
                        continue
                    self.modules[rel] = tree
                    for n in tree.body:
                        if isinstance(n, ast.ClassDef):
                            self.classes[n.name] = (rel, n)
                        elif isinstance(n, ast.FunctionDef):
                            self.functions[n.name] = (rel, n)

    def method(self, cls, name, seen=None):
        """resolve a method on the class or its repo bases"""
        seen = seen or set()
        if cls not in self.classes or cls in seen:
            return None
        seen.add(cls)
        rel, node = self.classes[cls]
        for n in node.body:
            if isinstance(n, ast.FunctionDef) and n.name == name:
                return (rel, cls, n)
        for b in node.bases:
            bn = b.attr if isinstance(b, ast.Attribute) else getattr(b, "id", None)
            r = self.method(bn, name, seen)
            if r:
                return r
        return None

    def parent_method(self, cls, name):
        if cls not in self.classes:
            return None
        rel, node = self.classes[cls]
        for b in node.bases:
            bn = b.attr if isinstance(b, ast.Attribute) else getattr(b, "id", None)
            r = self.method(bn, name)
            if r:
                return r
        return None

    def is_property(self, cls, name):
        m = self.method(cls, name)
        if not m:
            return False
        return any((isinstance(d, ast.Name) and d.id == "property") for d in m[2].decorator_list)


class Analysis:
    def __init__(self, repo):
        self.repo = repo
        self.findings = []      # (region, file, line, what, chain)
        self.unknown_calls = set()

    def report(self, val, rel, node, what, chain):
        for r in sorted(val.obj):
            self.findings.append((r, rel, getattr(node, "lineno", 0), what, tuple(chain)))

    # ---- expressions ---------------------------------------------------------------------
    def ev(self, e, env, ctx):
        rel, cls, chain = ctx["rel"], ctx["cls"], ctx["chain"]
        if e is None:
            return EMPTY
        if isinstance(e, ast.Name):
            return env.get(e.id, EMPTY)
        if isinstance(e, ast.Constant):
            return EMPTY
        if isinstance(e, ast.Attribute):
            if isinstance(e.value, ast.Name) and e.value.id == "self":
                v = ctx["selfenv"].get(e.attr)
                if v is None and cls and self.repo.is_property(cls, e.attr):
                    m = self.repo.method(cls, e.attr)
                    return self.call_fn(m, [], {}, ctx, selfenv=ctx["selfenv"])
                return v or EMPTY
            base = self.ev(e.value, env, ctx)
            if base.fields is not None:
                return base.fields.get(e.attr, EMPTY)
            # attribute of a caller object is part of that object (G.graph, G.edges, G.nodes ...)
            i = base.inner()
            return Val(base.obj | i.obj, i if (i.obj or i.elem is not None or i.rec) else None)
        if isinstance(e, ast.Subscript):
            k = self.const_key(e)
            if k is not None and k in ctx["selfenv"]:
                return ctx["selfenv"][k]          # key-sensitive: self.X["const"] was assigned before (strong update)
            base = self.ev(e.value, env, ctx)
            self.ev(e.slice, env, ctx)
            if isinstance(e.slice, ast.Slice):
                return base.shallow()
            return base.inner()
        if isinstance(e, ast.BoolOp):
            v = EMPTY
            for x in e.values:
                v = v.join(self.ev(x, env, ctx))
            return v
        if isinstance(e, ast.IfExp):
            self.ev(e.test, env, ctx)
            return self.ev(e.body, env, ctx).join(self.ev(e.orelse, env, ctx))
        if isinstance(e, (ast.List, ast.Tuple, ast.Set)):
            return flat([self.ev(x.value if isinstance(x, ast.Starred) else x, env, ctx) for x in e.elts])
        if isinstance(e, ast.Dict):
            return flat([self.ev(x, env, ctx) for x in list(e.keys) + list(e.values) if x is not None])
        if isinstance(e, (ast.ListComp, ast.SetComp, ast.GeneratorExp, ast.DictComp)):
            env2 = dict(env)
            for g in e.generators:
                it = self.ev(g.iter, env2, ctx)
                self.bind(g.target, it.inner(), env2, ctx)
                for c in g.ifs:
                    self.ev(c, env2, ctx)
            if isinstance(e, ast.DictComp):
                v = self.ev(e.key, env2, ctx).join(self.ev(e.value, env2, ctx))
            else:
                v = self.ev(e.elt, env2, ctx)
            return flat([v])
        if isinstance(e, ast.Call):
            return self.call(e, env, ctx)
        if isinstance(e, (ast.BinOp,)):
            l, r = self.ev(e.left, env, ctx), self.ev(e.right, env, ctx)
            return flat([l.inner(), r.inner()])      # a | b, a + b build new containers (shallow)
        if isinstance(e, ast.UnaryOp):
            return self.ev(e.operand, env, ctx) and EMPTY
        if isinstance(e, ast.Compare):
            self.ev(e.left, env, ctx)
            for c in e.comparators:
                self.ev(c, env, ctx)
            return EMPTY
        if isinstance(e, ast.JoinedStr):
            return EMPTY
        if isinstance(e, ast.Lambda):
            return EMPTY
        if isinstance(e, ast.NamedExpr):
            v = self.ev(e.value, env, ctx)
            self.bind(e.target, v, env, ctx)
            return v
        if isinstance(e, ast.Starred):
            return self.ev(e.value, env, ctx)
        for ch in ast.iter_child_nodes(e):
            if isinstance(ch, ast.expr):
                self.ev(ch, env, ctx)
        return EMPTY

    def call(self, e, env, ctx):
        rel, cls, chain = ctx["rel"], ctx["cls"], ctx["chain"]
        args = [self.ev(a.value if isinstance(a, ast.Starred) else a, env, ctx) for a in e.args]
        kwargs = {k.arg: self.ev(k.value, env, ctx) for k in e.keywords}
        f = e.func
        allargs = args + list(kwargs.values())
        if isinstance(f, ast.Attribute):
            name = f.attr
            # super().__init__(...)
            if isinstance(f.value, ast.Call) and isinstance(f.value.func, ast.Name) and f.value.func.id == "super":
                m = self.repo.parent_method(cls, name)
                if m:
                    return self.call_fn(m, args, kwargs, ctx, selfenv=ctx["selfenv"], node=e)
                return EMPTY
            # self.method(...)
            if isinstance(f.value, ast.Name) and f.value.id == "self":
                m = self.repo.method(cls, name) if cls else None
                if m:
                    return self.call_fn(m, args, kwargs, ctx, selfenv=ctx["selfenv"], node=e)
                recv = ctx["selfenv"].get(name, EMPTY)      # a stored callable (e.g. self.model_type)
                return EMPTY
            recv = self.ev(f.value, env, ctx)
            # method of an object of a repo class created during the analysis
            if recv.fields is not None and recv.cls:
                m = self.repo.method(recv.cls, name)
                if m:
                    return self.call_fn(m, args, kwargs, dict(ctx, cls=recv.cls), selfenv=recv.fields, node=e)
            if name in MUTATORS:
                if recv.obj:
                    self.report(recv, rel, e, "call of mutator .%s()" % name, chain)
                # stored elements alias the arguments (update/extend/|= store the ELEMENTS of the argument)
                spread = name in ("update", "extend", "add_edges_from", "add_nodes_from", "difference_update", "intersection_update")
                nv = recv
                for a in allargs:
                    nv = nv.holding(a.inner() if spread else a)
                if allargs and isinstance(f.value, (ast.Name, ast.Attribute, ast.Subscript)):
                    self.store(f.value, nv, env, ctx, weak=True)
                return recv.inner() if name in ("pop", "popitem", "setdefault") else EMPTY
            if name in DEEP:
                return EMPTY
            if name == "copy":
                if args:                      # copy.copy(x)
                    return args[0].shallow()
                return recv.shallow() if not self.looks_like_graph(f.value) else EMPTY
            if name in ("get", "__getitem__"):
                v = recv.inner()
                for a in args[1:]:
                    v = v.join(a)
                return v
            if name in SHALLOW_CALLS:
                return flat([recv.inner()] + [a.inner() for a in allargs])
            # repo class constructor through a module alias: mod.Class(...)
            if name in self.repo.classes and name[0].isupper() or (name in self.repo.classes and name[0] in "sk"):
                return self.construct(name, args, kwargs, ctx, e)
            if name in self.repo.functions and isinstance(f.value, (ast.Name, ast.Attribute)):
                relf, fn = self.repo.functions[name]
                return self.call_fn((relf, None, fn), args, kwargs, ctx, selfenv=None, node=e)
            if name in GRAPH_COPY:
                return EMPTY
            # unknown method on a caller object: reads assumed (views hand out node / edge names and attribute dicts)
            return flat([recv.inner()]) if name in ("edges", "nodes", "out_edges", "in_edges", "successors", "predecessors", "neighbors", "get_edge_data") else EMPTY
        if isinstance(f, ast.Name):
            name = f.id
            if name in DEEP:
                return EMPTY
            if name in SHALLOW_CALLS:
                return flat([a.inner() for a in allargs])
            if name in self.repo.classes:
                return self.construct(name, args, kwargs, ctx, e)
            if name in self.repo.functions:
                relf, fn = self.repo.functions[name]
                return self.call_fn((relf, None, fn), args, kwargs, ctx, selfenv=None, node=e)
            if name in env and env[name].cls and env[name].cls in self.repo.classes:
                return self.construct(env[name].cls, args, kwargs, ctx, e)
            return EMPTY
        self.ev(f, env, ctx)
        return EMPTY

    @staticmethod
    def const_key(e):
        """self.X["literal"]  ->  'X[literal]'"""
        v = e.value
        if isinstance(v, ast.Attribute) and isinstance(v.value, ast.Name) and v.value.id == "self" and isinstance(e.slice, ast.Constant) and isinstance(e.slice.value, str):
            return "%s[%s]" % (v.attr, e.slice.value)
        return None

    def looks_like_graph(self, node):
        s = ast.unparse(node) if hasattr(ast, "unparse") else ""
        return s.endswith("G") or "graph" in s.lower() or s.endswith("G_internal")

    def construct(self, cname, args, kwargs, ctx, node):
        m = self.repo.method(cname, "__init__")
        fields = {}
        if m and len(ctx["chain"]) < MAXDEPTH:
            self.call_fn(m, args, kwargs, dict(ctx, cls=cname), selfenv=fields, node=node)
        return Val((), None, False, fields, cname)

    def call_fn(self, m, args, kwargs, ctx, selfenv, node=None):
        rel, cls, fn = m
        key = (rel, cls, fn.name)
        if key in ctx["stack"] or len(ctx["chain"]) >= MAXDEPTH:
            return EMPTY
        env = {}
        params = [a.arg for a in fn.args.args]
        if params and params[0] == "self":
            params = params[1:]
        defaults = fn.args.defaults
        nd = len(defaults)
        for i, p in enumerate(params):
            env[p] = EMPTY
            di = i - (len(params) - nd)
            if di >= 0 and isinstance(defaults[di], (ast.List, ast.Dict, ast.Set)) and not ctx.get("entry"):
                # a mutable default object is shared by every call that omits the argument: a region of its own
                env[p] = param_val("<shared default of %s%s(%s)>" % ((cls + ".") if cls else "", fn.name, p))
        for p, a in zip(params, args):
            env[p] = a
        for k, v in kwargs.items():
            if k is None:
                continue
            env[k] = v
        for a in fn.args.kwonlyargs:
            env.setdefault(a.arg, kwargs.get(a.arg, EMPTY))
        if fn.args.kwarg:
            env[fn.args.kwarg.arg] = flat([v for k, v in kwargs.items() if k not in params])
        line = getattr(node, "lineno", fn.lineno)
        sub = dict(entry=False, rel=rel, cls=cls if cls else ctx.get("cls") if selfenv is ctx.get("selfenv") and cls is None else cls,
                   chain=ctx["chain"] + ["%s:%d -> %s%s" % (ctx["rel"], line, (cls + ".") if cls else "", fn.name)],
                   stack=ctx["stack"] | {key}, selfenv=selfenv if selfenv is not None else {}, ret=[])
        if cls is None:
            sub["cls"] = None
        # the class used for self.method resolution is the DYNAMIC class of self
        if selfenv is not None and ctx.get("selfenv") is selfenv:
            sub["cls"] = ctx.get("dyncls", ctx.get("cls"))
            sub["dyncls"] = sub["cls"]
            sub["defcls"] = cls
        elif cls:
            sub["dyncls"] = ctx.get("cls") if selfenv is ctx.get("selfenv") else cls
        self.block(fn.body, env, sub)
        v = EMPTY
        for r in sub["ret"]:
            v = v.join(r)
        return v

    # ---- statements ----------------------------------------------------------------------
    def bind(self, target, val, env, ctx):
        if isinstance(target, ast.Name):
            env[target.id] = val
        elif isinstance(target, (ast.Tuple, ast.List)):
            for t in target.elts:
                self.bind(t.value if isinstance(t, ast.Starred) else t, val.inner(), env, ctx)
        else:
            self.store(target, val, env, ctx)

    def store(self, target, val, env, ctx, weak=False):
        rel, chain = ctx["rel"], ctx["chain"]
        if isinstance(target, ast.Name):
            env[target.id] = val if not weak else env.get(target.id, EMPTY).join(val)
        elif isinstance(target, ast.Attribute):
            if isinstance(target.value, ast.Name) and target.value.id == "self":
                if not weak:
                    for kk in [kk for kk in ctx["selfenv"] if kk.startswith(target.attr + "[")]:
                        del ctx["selfenv"][kk]
                old = ctx["selfenv"].get(target.attr)
                ctx["selfenv"][target.attr] = val if (old is None or not weak) else old.join(val)
                return
            base = self.ev(target.value, env, ctx)
            if base.fields is not None:
                base.fields[target.attr] = val
                return
            if base.obj and not weak:
                self.report(base, rel, target, "attribute assignment .%s = ..." % target.attr, chain)
        elif isinstance(target, ast.Subscript):
            k = self.const_key(target)
            if k is not None and not weak:
                ctx["selfenv"][k] = val
            base = self.ev(target.value, env, ctx)
            if base.obj and not weak:
                self.report(base, rel, target, "item assignment [...] = ...", chain)
            # the container now holds val
            nv = base.holding(val)
            if isinstance(target.value, (ast.Name, ast.Attribute, ast.Subscript)):
                self.store(target.value, nv, env, ctx, weak=True)
        elif isinstance(target, (ast.Tuple, ast.List)):
            for t in target.elts:
                self.store(t, val.inner(), env, ctx, weak)

    def block(self, stmts, env, ctx):
        for st in stmts:
            self.stmt(st, env, ctx)

    def stmt(self, st, env, ctx):
        if isinstance(st, ast.Assign):
            v = self.ev(st.value, env, ctx)
            for t in st.targets:
                self.store(t, v, env, ctx) if not isinstance(t, ast.Name) else env.__setitem__(t.id, v)
        elif isinstance(st, ast.AnnAssign):
            if st.value is not None:
                self.store(st.target, self.ev(st.value, env, ctx), env, ctx)
        elif isinstance(st, ast.AugAssign):
            v = self.ev(st.value, env, ctx)
            cur = self.ev(st.target, env, ctx)
            # `x += <container-looking expression>` mutates a list/set/dict in place; with a numeric-looking right-hand side
            # (constant, subscript, arithmetic) it rebinds an immutable number (assumption stated in the evidence)
            if cur.obj and isinstance(st.op, (ast.Add, ast.BitOr, ast.Sub, ast.BitAnd)) and \
                    isinstance(st.value, (ast.List, ast.Set, ast.Dict, ast.ListComp, ast.SetComp, ast.DictComp, ast.Tuple)) or \
                    (cur.obj and isinstance(st.value, ast.Call) and not (isinstance(st.value.func, ast.Name) and st.value.func.id in ("sum", "len", "max", "min", "abs", "int", "float", "round"))):
                self.report(cur, ctx["rel"], st, "augmented assignment (in place for list/set/dict)", ctx["chain"])
            if isinstance(st.target, (ast.Name, ast.Attribute)) and (v.obj or v.elem is not None):
                self.store(st.target, cur.holding(v.inner()), env, ctx, weak=True)
        elif isinstance(st, ast.Expr):
            self.ev(st.value, env, ctx)
        elif isinstance(st, ast.Return):
            ctx["ret"].append(self.ev(st.value, env, ctx))
        elif isinstance(st, ast.If):
            self.ev(st.test, env, ctx)
            e1, e2 = dict(env), dict(env)
            se = ctx["selfenv"]
            snap = dict(se)
            self.block(st.body, e1, ctx)
            s1 = dict(se)
            se.clear()
            se.update(snap)
            self.block(st.orelse, e2, ctx)
            s2 = dict(se)
            for k in set(s1) | set(s2):
                a, b = s1.get(k), s2.get(k)
                se[k] = a.join(b) if (a is not None and b is not None) else (a or b)
            for k in set(e1) | set(e2):
                env[k] = (e1.get(k) or EMPTY).join(e2.get(k))
        elif isinstance(st, (ast.For, ast.AsyncFor)):
            it = self.ev(st.iter, env, ctx)
            for _ in range(2):
                self.bind(st.target, it.inner(), env, ctx)
                self.block(st.body, env, ctx)
            self.block(st.orelse, env, ctx)
        elif isinstance(st, ast.While):
            for _ in range(2):
                self.ev(st.test, env, ctx)
                self.block(st.body, env, ctx)
            self.block(st.orelse, env, ctx)
        elif isinstance(st, ast.Try):
            self.block(st.body, env, ctx)
            for h in st.handlers:
                self.block(h.body, env, ctx)
            self.block(st.orelse, env, ctx)
            self.block(st.finalbody, env, ctx)
        elif isinstance(st, ast.With):
            for it in st.items:
                v = self.ev(it.context_expr, env, ctx)
                if it.optional_vars is not None:
                    self.bind(it.optional_vars, v, env, ctx)
            self.block(st.body, env, ctx)
        elif isinstance(st, ast.Delete):
            for t in st.targets:
                if isinstance(t, ast.Subscript):
                    base = self.ev(t.value, env, ctx)
                    if base.obj:
                        self.report(base, ctx["rel"], t, "del [...]", ctx["chain"])
        elif isinstance(st, (ast.FunctionDef, ast.ClassDef, ast.Import, ast.ImportFrom, ast.Pass, ast.Raise, ast.Assert, ast.Global, ast.Nonlocal, ast.Break, ast.Continue)):
            if isinstance(st, ast.Raise) and st.exc is not None:
                self.ev(st.exc, env, ctx)
        else:
            for ch in ast.iter_child_nodes(st):
                if isinstance(ch, ast.expr):
                    self.ev(ch, env, ctx)


def analyse_class(cname, methods=("__init__", "solve", "get_solution", "get_objective_value", "is_valid_solution")):
    """returns dict(params=[...], findings=[{param, file, line, what, chain, method}], meta)"""
    repo = Repo()
    if cname not in repo.classes:
        raise LookupError(cname)
    init = repo.method(cname, "__init__")
    if not init:
        raise LookupError(cname + ".__init__")
    rel, cls, fn = init
    params = [a.arg for a in fn.args.args if a.arg != "self"] + [a.arg for a in fn.args.kwonlyargs]
    an = Analysis(repo)
    selfenv = {}
    out = []
    for mname in methods:
        m = repo.method(cname, mname)
        if not m:
            continue
        before = len(an.findings)
        ctx = dict(rel=m[0], cls=cname, dyncls=cname, chain=["%s.%s" % (cname, mname)], stack=frozenset(), selfenv=selfenv, ret=[], entry=(mname == "__init__"))
        if mname == "__init__":
            args = {p: param_val(p) for p in params}
            an.call_fn(m, [], args, ctx, selfenv=selfenv)
        else:
            an.call_fn(m, [], {}, ctx, selfenv=selfenv)
        for f in an.findings[before:]:
            out.append(dict(param=f[0], file=f[1], line=f[2], what=f[3], chain=list(f[4]), method=mname))
    # de-duplicate by (param, file, line)
    seen, uniq = set(), []
    for f in out:
        k = (f["param"], f["file"], f["line"])
        if k not in seen:
            seen.add(k)
            uniq.append(f)
    return dict(cls=cname, file=rel, params=params, findings=uniq)


if __name__ == "__main__":
    import sys
    for c in sys.argv[1:]:
        r = analyse_class(c)
        print(c, r["params"])
        for f in r["findings"]:
            print("   %-28s %s:%d  %s   via %s" % (f["param"], f["file"], f["line"], f["what"], " | ".join(f["chain"][-2:])))
