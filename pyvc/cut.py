"""Loop cutter: the only textual transformation applied to the real function.

  for T in IT: BODY      ->  if IT is concrete: the original loop, natively
                             else: invariant-cut form (assert inv; arbitrary iteration | exit)
  while C: BODY          ->  invariant-cut form
  [E for T in IT if P]   ->  __pv.comp(kind, lambda T: E, IT, lambda T: P)   (single generator only)
  break / continue       ->  raise __Break / __Continue inside a cut loop (native inside a concrete loop)
  {} / [] literals       ->  __pv.new_dict() / __pv.new_list()  (engine containers accepting symbolic keys)

Loops are numbered in source order (pre-order) per function; the ordinal keys the sidecar invariant.
"""
import ast
import copy


class _BC(ast.NodeTransformer):
    """rewrite break/continue belonging to the *current* loop (not nested loops / defs)"""

    def visit_For(self, n): return n
    def visit_While(self, n): return n
    def visit_FunctionDef(self, n): return n
    def visit_Lambda(self, n): return n

    def visit_Break(self, n):
        return ast.copy_location(ast.Raise(ast.Call(ast.Name("__Break", ast.Load()), [], []), None), n)

    def visit_Continue(self, n):
        return ast.copy_location(ast.Raise(ast.Call(ast.Name("__Continue", ast.Load()), [], []), None), n)


def _stored_names(nodes):
    out = set()
    for b in nodes:
        for n in ast.walk(b):
            if isinstance(n, ast.Name) and isinstance(n.ctx, ast.Store):
                out.add(n.id)
    return out


MUTATORS = {"append", "extend", "insert", "update", "add", "discard", "remove", "pop", "clear", "sort", "setdefault", "popitem", "reverse"}


def _root_name(e):
    """x, x[i], x.a, x[i].a[j] ... -> 'x'"""
    while isinstance(e, (ast.Subscript, ast.Attribute)):
        e = e.value
    return e.id if isinstance(e, ast.Name) else None


def _mutated_names(nodes):
    """local names whose object (or anything reachable from it by subscripts/attributes) may be mutated in place inside the loop body:
    x[k] = v, x[k][j] = v, x.append(v), x[k].append(v), del x[k], x[a:b] = ..., x += ..."""
    out = set()
    for b in nodes:
        for n in ast.walk(b):
            r = None
            if isinstance(n, ast.Subscript) and isinstance(n.ctx, (ast.Store, ast.Del)):
                r = _root_name(n.value)
            elif isinstance(n, ast.Attribute) and isinstance(n.ctx, (ast.Store, ast.Del)):
                r = _root_name(n.value)
            elif isinstance(n, ast.Call) and isinstance(n.func, ast.Attribute) and n.func.attr in MUTATORS:
                r = _root_name(n.func.value)
            elif isinstance(n, ast.AugAssign):
                r = _root_name(n.target)
            if r:
                out.add(r)
    out.discard("self")
    return out


def _parse_stmts(src):
    return ast.parse(src).body


class Cutter(ast.NodeTransformer):
    def __init__(self, rewrite_literals=True):
        self.k = -1
        self.loops = []          # (ordinal, kind, lineno)
        self.rewrite_literals = rewrite_literals
        self.comps = 0

    # ---- loops ---------------------------------------------------------------------------
    def _havoc_stmts(self, k, names):
        src = "".join(
            "if __pv.defined(%r, locals()):\n    %s = __pv.havoc1(%d, %r, %s)\n" % (n, n, k, n, n) for n in sorted(names))
        src += "__pv.havoc_fields(%d, locals())\n" % k
        return _parse_stmts(src)

    def visit_For(self, node):
        self.k += 1
        k = self.k
        self.loops.append((k, "for", node.lineno))
        if node.orelse:
            raise NotImplementedError("for/else is outside the supported subset")
        node = self.generic_visit(node)
        native = copy.deepcopy(node)
        assigned = _stored_names(node.body) | _stored_names([node.target]) | _mutated_names(node.body)
        body_cut = [_BC().visit(copy.deepcopy(s)) for s in node.body]
        tmpl = _parse_stmts(
            f"__seq{k} = __pv.begin({k}, __IT__, locals())\n"
            f"if __pv.concrete(__seq{k}):\n"
            f"    __NATIVE__\n"
            f"else:\n"
            f"    __pv.assert_inv({k}, 'init', locals(), __seq{k}, 0)\n"
            f"    __brk{k} = False\n"
            f"    if __pv.nondet({k}):\n"
            f"        __HAVOC__\n"
            f"        __j{k} = __pv.fresh_index({k}, __seq{k})\n"
            f"        __pv.assume_inv({k}, locals(), __seq{k}, __j{k})\n"
            f"        __TARGET__ = __pv.elem({k}, __seq{k}, __j{k})\n"
            f"        __pv.enter_body({k})\n"
            f"        try:\n"
            f"            __BODY__\n"
            f"        except __Break:\n"
            f"            __brk{k} = True\n"
            f"        except __Continue:\n"
            f"            pass\n"
            f"        __pv.leave_body({k}, locals())\n"
            f"        if not __brk{k}:\n"
            f"            __pv.assert_inv({k}, 'step', locals(), __seq{k}, __j{k} + 1)\n"
            f"            __pv.stop()\n"
            f"        else:\n"
            f"            __pv.at_break({k}, locals(), __seq{k}, __j{k})\n"
            f"    else:\n"
            f"        __HAVOC__\n"
            f"        __pv.assume_inv({k}, locals(), __seq{k}, __pv.length(__seq{k}))\n"
            f"        if __pv.bind_last({k}, __seq{k}):\n"
            f"            __TARGET__ = __pv.elem({k}, __seq{k}, __pv.length(__seq{k}) - 1)\n"
            f"        __pv.at_exit({k}, locals(), __seq{k})\n"
        )
        havoc = self._havoc_stmts(k, assigned)

        class Fill(ast.NodeTransformer):
            def visit_Name(s2, n):
                if n.id == "__IT__":
                    return node.iter
                return n

            def visit_Expr(s2, n):
                if isinstance(n.value, ast.Name):
                    if n.value.id == "__HAVOC__":
                        return copy.deepcopy(havoc)
                    if n.value.id == "__BODY__":
                        return body_cut
                    if n.value.id == "__NATIVE__":
                        nat = copy.deepcopy(native)
                        nat.iter = ast.Call(ast.Attribute(ast.Name("__pv", ast.Load()), "native_iter", ast.Load()),
                                            [ast.Name(f"__seq{k}", ast.Load())], [])
                        return nat
                return s2.generic_visit(n)

            def visit_Assign(s2, n):
                if isinstance(n.targets[0], ast.Name) and n.targets[0].id == "__TARGET__":
                    return ast.Assign([copy.deepcopy(node.target)], n.value)
                return s2.generic_visit(n)

        out = []
        for t in tmpl:
            r = Fill().visit(t)
            out += r if isinstance(r, list) else [r]
        for o in out:
            ast.copy_location(o, node)
            for sub in ast.walk(o):
                if not hasattr(sub, "lineno"):
                    ast.copy_location(sub, node)
        return out

    def visit_While(self, node):
        self.k += 1
        k = self.k
        self.loops.append((k, "while", node.lineno))
        if node.orelse:
            raise NotImplementedError("while/else is outside the supported subset")
        node = self.generic_visit(node)
        assigned = _stored_names(node.body) | _mutated_names(node.body)
        body_cut = [_BC().visit(copy.deepcopy(s)) for s in node.body]
        tmpl = _parse_stmts(
            f"__pv.begin({k}, None, locals())\n"
            f"__pv.assert_inv({k}, 'init', locals(), None, 0)\n"
            f"__brk{k} = False\n"
            f"if __pv.nondet({k}):\n"
            f"    __HAVOC__\n"
            f"    __pv.assume_inv({k}, locals(), None, 0)\n"
            f"    if __COND__:\n"
            f"        __pv.enter_body({k})\n"
            f"        try:\n"
            f"            __BODY__\n"
            f"        except __Break:\n"
            f"            __brk{k} = True\n"
            f"        except __Continue:\n"
            f"            pass\n"
            f"        __pv.leave_body({k}, locals())\n"
            f"        if not __brk{k}:\n"
            f"            __pv.assert_inv({k}, 'step', locals(), None, 1)\n"
            f"            __pv.stop()\n"
            f"        else:\n"
            f"            __pv.at_break({k}, locals(), None, 0)\n"
            f"    else:\n"
            f"        __pv.stop()\n"
            f"else:\n"
            f"    __HAVOC__\n"
            f"    __pv.assume_inv({k}, locals(), None, 0)\n"
            f"    if __COND__:\n"
            f"        __pv.stop()\n"
            f"    __pv.at_exit({k}, locals(), None)\n"
        )
        havoc = self._havoc_stmts(k, assigned)

        class Fill(ast.NodeTransformer):
            def visit_Name(s2, n):
                if n.id == "__COND__":
                    return copy.deepcopy(node.test)
                return n

            def visit_Expr(s2, n):
                if isinstance(n.value, ast.Name):
                    if n.value.id == "__HAVOC__":
                        return copy.deepcopy(havoc)
                    if n.value.id == "__BODY__":
                        return body_cut
                return s2.generic_visit(n)

        out = []
        for t in tmpl:
            r = Fill().visit(t)
            out += r if isinstance(r, list) else [r]
        # concrete instances of a contract may ask for the loop to run natively (rt.native_while): the original `while`, uncut
        tick = ast.Expr(ast.Call(ast.Attribute(ast.Name("__pv", ast.Load()), "native_tick", ast.Load()), [ast.Constant(k)], []))
        native = ast.While(test=copy.deepcopy(node.test), body=[tick] + copy.deepcopy(node.body), orelse=[])
        out = [ast.If(test=ast.Call(ast.Attribute(ast.Name("__pv", ast.Load()), "native_while", ast.Load()), [ast.Constant(k)], []), body=[native], orelse=out)]
        for o in out:
            ast.copy_location(o, node)
            for sub in ast.walk(o):
                if not hasattr(sub, "lineno"):
                    ast.copy_location(sub, node)
        return out

    # ---- comprehensions ------------------------------------------------------------------
    class _BoolOps(ast.NodeTransformer):
        """inside comprehension bodies: `a and b`, `a or b`, `not a` -> engine calls that stay symbolic when an operand is a proxy
        evaluated at a bound variable (python's own operators would force a branch there)"""
        def visit_BoolOp(self, n):
            n = self.generic_visit(n)
            lams = [ast.Lambda(ast.arguments(posonlyargs=[], args=[], kwonlyargs=[], kw_defaults=[], defaults=[]), v) for v in n.values]
            return ast.copy_location(ast.Call(ast.Attribute(ast.Name("__pv", ast.Load()), "bool_and" if isinstance(n.op, ast.And) else "bool_or", ast.Load()),
                                              [ast.List(lams, ast.Load())], []), n)

        def visit_UnaryOp(self, n):
            n = self.generic_visit(n)
            if isinstance(n.op, ast.Not):
                return ast.copy_location(ast.Call(ast.Attribute(ast.Name("__pv", ast.Load()), "bool_not", ast.Load()), [n.operand], []), n)
            return n

        def visit_Compare(self, n):
            n = self.generic_visit(n)
            if len(n.ops) == 1 and isinstance(n.ops[0], (ast.In, ast.NotIn)):
                return ast.copy_location(ast.Call(ast.Attribute(ast.Name("__pv", ast.Load()), "contains", ast.Load()),
                                                  [n.left, n.comparators[0], ast.Constant(isinstance(n.ops[0], ast.NotIn))], []), n)
            return n

        def visit_IfExp(self, n):
            n = self.generic_visit(n)
            lam = lambda v: ast.Lambda(ast.arguments(posonlyargs=[], args=[], kwonlyargs=[], kw_defaults=[], defaults=[]), v)
            return ast.copy_location(ast.Call(ast.Attribute(ast.Name("__pv", ast.Load()), "if_exp", ast.Load()), [n.test, lam(n.body), lam(n.orelse)], []), n)

        def visit_Lambda(self, n): return n
        def visit_ListComp(self, n): return n
        def visit_GeneratorExp(self, n): return n
        def visit_SetComp(self, n): return n
        def visit_DictComp(self, n): return n

    def _lam(self, target, body):
        if isinstance(body, ast.expr) and not isinstance(body, ast.Lambda):
            body = self._BoolOps().visit(body)
        return self._lam0(target, body)

    def _lam0(self, target, body):
        if isinstance(target, ast.Name):
            args = ast.arguments(posonlyargs=[], args=[ast.arg(target.id)], kwonlyargs=[], kw_defaults=[], defaults=[])
            return ast.Lambda(args, body)
        # tuple target: lambda __x: (lambda a, b: BODY)(*__x)
        if isinstance(target, ast.Tuple) and all(isinstance(e, ast.Name) for e in target.elts):
            inner = ast.Lambda(ast.arguments(posonlyargs=[], args=[ast.arg(e.id) for e in target.elts], kwonlyargs=[],
                                             kw_defaults=[], defaults=[]), body)
            outer = ast.Lambda(ast.arguments(posonlyargs=[], args=[ast.arg("__x")], kwonlyargs=[], kw_defaults=[], defaults=[]),
                               ast.Call(inner, [ast.Starred(ast.Name("__x", ast.Load()), ast.Load())], []))
            return outer
        raise NotImplementedError("comprehension target shape")

    def _comp(self, node, kind, elt):
        node = self.generic_visit(node)
        if len(node.generators) == 2 and kind in ("list", "gen") and not any(g.is_async or g.ifs for g in node.generators):
            # [elt for a in it1 for b in it2(a)]: a product index list; kept lazy when an iterable is abstract
            g1, g2 = node.generators
            try:
                fn = self._lam(g1.target, self._lam(g2.target, node.elt))
                it2 = self._lam(g1.target, g2.iter)
            except NotImplementedError:
                return node
            self.comps += 1
            return ast.copy_location(ast.Call(ast.Attribute(ast.Name("__pv", ast.Load()), "comp2", ast.Load()), [ast.Constant(kind), fn, g1.iter, it2], []), node)
        if len(node.generators) != 1 or node.generators[0].is_async:
            return node                       # other nested generators: run natively (concrete iterables only)
        g = node.generators[0]
        if kind == "dict":
            elt = ast.Tuple([node.key, node.value], ast.Load())
        else:
            elt = node.elt
        try:
            lam = self._lam(g.target, elt)
            if g.ifs:
                cond = g.ifs[0] if len(g.ifs) == 1 else ast.BoolOp(ast.And(), list(g.ifs))
                flt = self._lam(g.target, cond)
            else:
                flt = ast.Constant(None)
        except NotImplementedError:
            return node
        self.comps += 1
        call = ast.Call(ast.Attribute(ast.Name("__pv", ast.Load()), "comp", ast.Load()),
                        [ast.Constant(kind), lam, g.iter, flt], [])
        return ast.copy_location(call, node)

    def visit_GeneratorExp(self, node): return self._comp(node, "gen", None)
    def visit_ListComp(self, node): return self._comp(node, "list", None)
    def visit_SetComp(self, node): return self._comp(node, "set", None)
    def visit_DictComp(self, node): return self._comp(node, "dict", None)

    # ---- literals ------------------------------------------------------------------------
    def visit_Dict(self, node):
        node = self.generic_visit(node)
        if self.rewrite_literals and not node.keys:
            return ast.copy_location(ast.Call(ast.Attribute(ast.Name("__pv", ast.Load()), "new_dict", ast.Load()), [], []), node)
        return node

    def visit_Set(self, node):
        node = self.generic_visit(node)
        if self.rewrite_literals:
            return ast.copy_location(ast.Call(ast.Attribute(ast.Name("__pv", ast.Load()), "new_set", ast.Load()), [ast.List(list(node.elts), ast.Load())], []), node)
        return node

    def visit_List(self, node):
        node = self.generic_visit(node)
        if self.rewrite_literals and not node.elts and isinstance(node.ctx, ast.Load):
            return ast.copy_location(ast.Call(ast.Attribute(ast.Name("__pv", ast.Load()), "new_list", ast.Load()), [], []), node)
        if self.rewrite_literals and node.elts and isinstance(node.ctx, ast.Load) and not any(isinstance(e, ast.Starred) for e in node.elts):
            # a non-empty list display: a plain python list unless the sidecar supplies a factory (`literals["list_of"]`)
            return ast.copy_location(ast.Call(ast.Attribute(ast.Name("__pv", ast.Load()), "new_list_of", ast.Load()), [ast.List(list(node.elts), ast.Load())], []), node)
        return node
