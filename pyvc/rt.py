"""Runtime support for cut loops / comprehensions and proxy-aware builtins (bound as the function's globals)."""
import builtins as _b
import z3
from . import core
from .core import Sym, lift, Unsupported, PathAbort, INT, REAL, BOOL, STR, ctx
from .heap import SymSeq, SymRange, SymMap, LazyMap, BigSum, shape_of, SInt, SReal, Shape


class Break_(BaseException):
    pass


class Continue_(BaseException):
    pass


class Tracked:
    """base of stub objects: attribute writes inside a cut loop body are logged (soundness of havoc)"""

    def __setattr__(self, k, v):
        log_write(self, k)
        object.__setattr__(self, k, v)


def log_write(obj, key):
    """record a heap write made inside a cut loop body; objects whose first write happens inside the body are fresh (created there)"""
    c = core.CTX
    if c is None:
        return
    epoch = getattr(c, "loop_epoch", 0)
    d = getattr(obj, "__dict__", None)
    if d is not None and "_born" not in d:
        d["_born"] = epoch if getattr(c, "loop_depth", 0) > 0 else -1
    if getattr(c, "loop_depth", 0) > 0:
        born = d.get("_born", -1) if d is not None else -1
        c.writes.append((id(obj), type(obj).__name__, key, born))


class TrackedDict(dict):
    def __setitem__(self, k, v):
        log_write(self, k)
        dict.__setitem__(self, k, v)


def _as_clauses(r):
    """an invariant may be a dict name->term, a list of terms, or a single term"""
    if isinstance(r, dict):
        return [(k, lift(v)) for k, v in r.items()]
    if isinstance(r, (list, tuple)):
        return [("c%d" % i, lift(v)) for i, v in enumerate(r)]
    return [("inv", lift(r))]


class RT:
    def __init__(self, loops=None, fname="f", super_obj=None, literals=None):
        self.literals = literals or {}
        self.loops = loops or {}
        self.fname = fname
        self.super_obj = super_obj
        self.seen_loops = set()

    def spec(self, k):
        return self.loops.get(k, {})

    # ---- iterables -----------------------------------------------------------------------
    def begin(self, k, it, ns=None):
        self.seen_loops.add(k)
        h = self.spec(k).get("on_entry")
        if h is not None and ns is not None:
            h(ns, it)
        if isinstance(it, (SymSeq, SymRange)):
            return it
        if isinstance(it, SymMap):
            return it.enum()
        if isinstance(it, LazyMap):
            return it.to_seq()
        conv = self.spec(k).get("iterable")
        if conv is not None:
            return conv(it)
        if self.spec(k).get("cut_concrete") and isinstance(it, (list, tuple, range)):
            return concrete_to_seq(list(it))          # treat a concrete list like an abstract one: the loop is cut at its invariant anyway
        return it

    def concrete(self, seq):
        return not isinstance(seq, (SymSeq, SymRange))

    def native_iter(self, seq):
        return seq

    def length(self, seq):
        return seq.length()

    def native_while(self, k):
        """True: run this `while` loop natively, uncut (only concrete instances of a contract ask for it: everything the loop touches is concrete there)"""
        return bool(getattr(self, "native_whiles", False) or self.spec(k).get("native"))

    def native_tick(self, k):
        """a natively run loop of CHANGED code need not terminate: the checker must (an instance that exceeds the budget is an instance error, never a verdict)"""
        n = self._ticks = getattr(self, "_ticks", 0) + 1
        if n > int(getattr(self, "native_budget", 20000)):
            self._ticks = 0
            raise Unsupported("natively run loop %d exceeded its iteration budget" % k)

    def nondet(self, k):
        c = ctx()
        return c.decide(z3.Bool(c.name("loop%d.iterate" % k)), "loop%d" % k)

    def defined(self, name, ns):
        return name in ns

    def bind_last(self, k, seq):
        """python leaves the loop variable bound to the last element after a loop that ran at least once.  Opt-in per loop
        (spec key `bind_target_at_exit`): it costs one decision (sequence non-empty?) at every loop exit."""
        if not self.spec(k).get("bind_target_at_exit"):
            return False
        return ctx().decide(lift(seq.length()) > 0, "loop%d-ran-at-least-once" % k)

    def havoc1(self, k, name, old):
        sp = self.spec(k)
        if name in sp.get("keep", ()):            # declared loop-local temporaries dead at the loop head
            return old
        h = sp.get("havoc", {}).get(name)
        nm = "%s@loop%d" % (name, k)
        if h is not None:
            return h(old)
        if isinstance(old, (SymSeq, SymMap)):
            return old.havoc(nm)
        if old is None:
            return None
        try:
            sh = shape_of(old)
        except Unsupported:
            raise Unsupported("loop %d assigns `%s` (a %s): no havoc rule in the sidecar" % (k, name, type(old).__name__))
        return sh.fresh(nm)

    def havoc_fields(self, k, ns):
        for path, factory in self.spec(k).get("modifies", []):
            obj = ns[path[0]]
            for a in path[1:-1]:
                obj = getattr(obj, a)
            old = getattr(obj, path[-1])
            nm = ".".join(path) + "@loop%d" % k
            if factory is not None:
                new = factory(old)
            elif isinstance(old, (SymSeq, SymMap)):
                new = old.havoc(nm)
            else:
                new = shape_of(old).fresh(nm)
            object.__setattr__(obj, path[-1], new)

    def fresh_index(self, k, seq):
        c = ctx()
        j = c.fresh_const("j%d" % k, INT)
        c.assume(z3.And(j >= 0, j < lift(seq.length())))
        return Sym(j)

    def elem(self, k, seq, j):
        return seq.at(j)

    # ---- invariants ----------------------------------------------------------------------
    def _inv(self, k, ns, seq, done):
        f = self.spec(k).get("inv")
        if f is None:
            return []
        return _as_clauses(f(ns, seq, Sym(lift(done))))

    def assert_inv(self, k, kind, ns, seq, done):
        c = ctx()
        props = self.spec(k).get("prop", {})
        for nm, t in self._inv(k, ns, seq, done):
            pr = props(nm) if callable(props) else (props.get(nm) if isinstance(props, dict) else props)
            c.prove("loop%d:inv-%s:%s" % (k, kind, nm), t, prop=pr, kind="inv-" + kind)

    def assume_inv(self, k, ns, seq, done):
        c = ctx()
        for nm, t in self._inv(k, ns, seq, done):
            c.assume(t)

    def enter_body(self, k):
        c = ctx()
        c.loop_depth = getattr(c, "loop_depth", 0) + 1
        c.loop_epoch = getattr(c, "loop_epoch", 0) + 1
        if not hasattr(c, "epoch_stack"):
            c.epoch_stack = []
        c.epoch_stack.append(c.loop_epoch)
        if not hasattr(c, "writes"):
            c.writes = []
        c.cover("loop%d:body-reachable" % k)

    def leave_body(self, k, ns):
        c = ctx()
        c.loop_depth -= 1
        my_epoch = c.epoch_stack.pop()
        allowed = set()
        for path, _ in self.spec(k).get("modifies", []):
            obj = ns.get(path[0])
            try:
                for a in path[1:-1]:
                    obj = getattr(obj, a)
                allowed.add((id(obj), path[-1]))
                allowed.add((id(getattr(obj, path[-1])), "*"))
            except AttributeError:
                pass
        fresh_ok = self.spec(k).get("fresh_ok", ())
        for oid, tname, key, born in c.writes:
            if (oid, key) in allowed or (oid, "*") in allowed or tname in fresh_ok or born >= my_epoch:
                continue
            raise Unsupported("loop %d body writes %s.%s which is not in loop_modifies" % (k, tname, key))
        if c.loop_depth == 0:
            c.writes = []

    def at_break(self, k, ns, seq, j):
        h = self.spec(k).get("at_break")
        if h:
            h(ns, seq, j)

    def at_exit(self, k, ns, seq):
        h = self.spec(k).get("at_exit")
        if h:
            h(ns, seq)

    def stop(self):
        raise PathAbort()

    # ---- boolean operators inside comprehension bodies -----------------------------------------
    def _bool_chain(self, thunks, is_and):
        c = ctx()
        acc = []
        last = None
        for th in thunks:
            v = th()
            last = v
            if isinstance(v, Sym) and v.t.sort() == BOOL and c.qguards:
                acc.append(v.t)                      # at a bound variable: no branch, keep the term (both operands are total on proxies)
                continue
            truth = _b.bool(v)                       # concrete value, or a proxy outside quantified mode (an ordinary decision)
            if is_and and not truth:
                return v if not acc else Sym(z3.BoolVal(False))
            if not is_and and truth:
                return v if not acc else Sym(z3.BoolVal(True))
        if not acc:
            return last
        return Sym(z3.And(*acc) if is_and else z3.Or(*acc))

    def bool_and(self, thunks):
        return self._bool_chain(thunks, True)

    def bool_or(self, thunks):
        return self._bool_chain(thunks, False)

    def contains(self, item, container, negate):
        """`item in container` inside a comprehension body: containers that can answer symbolically (method sym_contains) do so at a
        bound variable; everything else uses python's operator"""
        if ctx().qguards and hasattr(container, "sym_contains"):
            t = lift(container.sym_contains(item))
            return Sym(z3.Not(t) if negate else t)
        r = item in container
        return (not r) if negate else r

    def if_exp(self, test, then, orelse):
        """`a if test else b` inside a comprehension body: at a bound variable with a symbolic test both arms are evaluated and joined
        by an if-then-else term (scalar arms only)"""
        if isinstance(test, Sym) and test.t.sort() == BOOL and ctx().qguards:
            a, b = then(), orelse()
            ta, tb = lift(a), lift(b)
            if ta.sort() != tb.sort():
                if ta.sort() == INT and tb.sort() == REAL:
                    ta = z3.ToReal(ta)
                elif ta.sort() == REAL and tb.sort() == INT:
                    tb = z3.ToReal(tb)
                else:
                    raise Unsupported("conditional expression with arms of different sorts")
            return Sym(z3.If(test.t, ta, tb))
        return then() if test else orelse()

    def bool_not(self, v):
        if isinstance(v, Sym) and v.t.sort() == BOOL and ctx().qguards:
            return Sym(z3.Not(v.t))
        return not v

    # ---- comprehensions / literals -------------------------------------------------------
    def comp2(self, kind, fn, it1, it2fn):
        """[fn(a)(b) for a in it1 for b in it2fn(a)]"""
        from .heap import LazyProduct
        if isinstance(it1, (SymSeq, SymRange, SymMap, LazyMap)):
            return LazyProduct(kind, fn, it1, it2fn)
        xs = list(it1)
        inner = [it2fn(a) for a in xs]
        if any(isinstance(b, (SymSeq, SymRange, SymMap, LazyMap)) for b in inner):
            return LazyProduct(kind, fn, xs, it2fn)
        if kind == "gen":
            return (fn(a)(b) for a, bs in zip(xs, inner) for b in bs)
        return [fn(a)(b) for a, bs in zip(xs, inner) for b in bs]

    def comp(self, kind, fn, it, flt):
        from .heap import LazyProduct
        if isinstance(it, LazyProduct):            # a comprehension over a product index list stays lazy (consumers decide what it means)
            return LazyMap(kind, fn, it, flt)
        if isinstance(it, SymMap):
            it = it.enum()
        if isinstance(it, LazyMap):
            it = it.to_seq()
        if kind == "dict" and hasattr(it, "dictcomp_source") and self.literals.get("dictcomp"):
            return self.literals["dictcomp"](fn, it, flt)
        if isinstance(it, (SymSeq, SymRange)):
            if kind == "dict":
                f = self.literals.get("dictcomp")
                if f is None:
                    raise Unsupported("dict comprehension over an abstract iterable")
                return f(fn, it, flt)
            lm = LazyMap(kind, fn, it, flt)
            if kind == "list" and flt is None:
                return lm.to_seq()
            return lm
        if flt is None:
            g = (fn(x) for x in it)
        else:
            g = (fn(x) for x in it if flt(x))
        if kind == "list":
            return list(g)
        if kind == "set":
            return set(g)
        if kind == "dict":
            return dict(g)
        return g

    def new_dict(self):
        f = self.literals.get("dict")
        return f() if f else SymDict()

    def new_set(self, elts):
        """set display {a, b}: a real set when every element is concrete, else the sidecar's set factory"""
        f = self.literals.get("set")
        if f is not None and any(isinstance(x, Sym) or (isinstance(x, tuple) and any(isinstance(y, Sym) for y in x)) for x in elts):
            return f(elts)
        return set(elts)

    def new_list(self):
        f = self.literals.get("list")
        return f() if f else SymList()

    def new_list_of(self, elts):
        f = self.literals.get("list_of")
        return f(elts) if f else _b.list(elts)

    def super_(self, obj):
        if self.super_obj is None:
            raise Unsupported("super() without a parent stub in the sidecar")
        return self.super_obj(obj) if callable(self.super_obj) else self.super_obj


def concrete_to_seq(xs):
    if not xs:
        return SymSeq(z3.IntVal(0), lambda j: Sym(z3.IntVal(0)), SInt, "list")
    sh = shape_of(xs[0])

    def at(j):
        j = lift(j)
        r = xs[-1]
        for i in range(len(xs) - 2, -1, -1):
            r = sh.ite(j == i, xs[i], r)
        return r
    return SymSeq(z3.IntVal(len(xs)), at, sh, "list")


class SymDict(dict):
    """`{}` literal: a real dict while all keys are concrete; switches to a SymMap on the first symbolic key"""

    def __init__(self):
        dict.__init__(self)
        self.sym = None

    def _symbolic(self, k):
        return self.sym is not None or isinstance(k, Sym) or (isinstance(k, tuple) and any(isinstance(x, Sym) for x in k))

    def _promote(self, k, v):
        if self.sym is None:
            if len(self):
                raise Unsupported("dict with both concrete and symbolic keys")
            self.sym = SymMap.empty(shape_of(k), None)

    def __setitem__(self, k, v):
        if self._symbolic(k):
            self._promote(k, v)
            self.sym[k] = v
        else:
            log_write(self, k)
            dict.__setitem__(self, k, v)

    def __getitem__(self, k):
        if self._symbolic(k):
            if self.sym is None:
                raise KeyError(k)
            return self.sym[k]
        return dict.__getitem__(self, k)

    def __contains__(self, k):
        if self._symbolic(k):
            return self.sym is not None and (k in self.sym)
        return dict.__contains__(self, k)

    def get(self, k, d=None):
        if self._symbolic(k):
            return d if self.sym is None else self.sym.get(k, d)
        return dict.get(self, k, d)


class SymList(list):
    """`[]` literal: a real list; converts to nothing else (abstract lists come from stubs / havoc rules)"""

    def append(self, x):
        log_write(self, "append")
        list.append(self, x)


# ------------------------------------------------------------------------------------------
# proxy-aware builtins

def len_(x):
    if isinstance(x, (SymSeq, SymRange)):
        return x.length()
    if isinstance(x, SymMap):
        return Sym(x.enum().n)
    if isinstance(x, SymDict) and x.sym is not None:
        return Sym(x.sym.enum().n)
    if isinstance(x, LazyMap):
        if x.flt is not None:        # filtered comprehension: some number of elements between 0 and the length of the source
            c = ctx()
            n = c.fresh_const("filtered_len", INT)
            c.assume(z3.And(n >= 0, n <= lift(x.seq.length())))
            return Sym(n)
        return x.to_seq().length()
    if isinstance(x, Sym) and x.t.sort() == STR:
        return Sym(z3.Length(x.t))
    return _b.len(x)


def range_(*a):
    if all(isinstance(x, int) for x in a):
        return _b.range(*a)
    if len(a) == 1:
        return SymRange(0, a[0])
    if len(a) == 2:
        return SymRange(a[0], a[1])
    if len(a) == 3 and isinstance(a[2], int) and a[2] >= 1:
        return SymRange(a[0], a[1], a[2])
    raise Unsupported("range() with a symbolic or non-positive step")


def list_(x=()):
    if isinstance(x, SymRange):
        return SymSeq(lift(x.length()), x.at, SInt, "range")
    if isinstance(x, SymSeq):
        return x.copy()
    if isinstance(x, LazyMap):
        return x.to_seq()
    if isinstance(x, SymMap):
        return x.enum()
    return _b.list(x)


def float_(x=0.0):
    if isinstance(x, Sym):
        if x.t.sort() == INT:
            return Sym(z3.ToReal(x.t))
        if x.t.sort() == REAL:
            return x
        if x.t.sort() == BOOL:
            return Sym(z3.If(x.t, z3.RealVal(1), z3.RealVal(0)))
        raise Unsupported("float() of a symbolic string")
    return _b.float(x)


def int_(x=0, *a):
    if isinstance(x, Sym):
        if x.t.sort() == INT:
            return x
        if x.t.sort() == REAL:
            return Sym(z3.If(x.t >= 0, z3.ToInt(x.t), -z3.ToInt(-x.t)))
        if x.t.sort() == BOOL:
            return Sym(z3.If(x.t, z3.IntVal(1), z3.IntVal(0)))
        raise Unsupported("int() of a symbolic string")
    return _b.int(x, *a)


ROUND = z3.Function("pyround", REAL, INT)


def round_(x, nd=None):
    if isinstance(x, Sym):
        if nd is not None:
            raise Unsupported("round(x, ndigits) on a symbolic value")
        if x.t.sort() == INT:
            return x
        r = ROUND(x.t)
        ctx().assume(z3.And(x.t - z3.ToReal(r) <= z3.RealVal("1/2"), z3.ToReal(r) - x.t <= z3.RealVal("1/2")))
        return Sym(r)
    return _b.round(x) if nd is None else _b.round(x, nd)


def abs_(x):
    return _b.abs(x)


def _real_types(T):
    """the globals of an extracted function bind str/int/float/list to proxy-aware functions: map them back to the types"""
    back = {"str_": str, "int_": int, "float_": float, "list_": list}
    ts = T if isinstance(T, tuple) else (T,)
    out = tuple(back.get(getattr(t, "__name__", ""), t) if not isinstance(t, type) else t for t in ts)
    return out if isinstance(T, tuple) else out[0]


def isinstance_(x, T):
    T = _real_types(T)
    if isinstance(x, Sym):
        ts = T if isinstance(T, tuple) else (T,)
        s = x.t.sort()
        py = {INT: (int,), REAL: (float,), BOOL: (bool, int), STR: (str,)}.get(s, ())
        return any(t in py or t is object for t in ts)
    if isinstance(x, (SymSeq,)):
        ts = T if isinstance(T, tuple) else (T,)
        return any(t in (list, object) for t in ts)
    if isinstance(x, SymMap):
        ts = T if isinstance(T, tuple) else (T,)
        return any(t in (dict, object) for t in ts)
    return _b.isinstance(x, T)


def _seq_of(x):
    if isinstance(x, LazyMap):
        return x.to_seq()
    if isinstance(x, SymMap):
        return x.enum()
    if isinstance(x, SymRange):
        return list_(x)
    return x


def _extreme(args, kw, is_max):
    nat = _b.max if is_max else _b.min
    if len(args) == 1:
        s = _seq_of(args[0])
        if isinstance(s, SymSeq):
            c = ctx()
            if not c.decide(s.n > 0, "extreme-nonempty"):
                if "default" in kw:
                    return kw["default"]
                raise ValueError("max()/min() arg is an empty sequence")
            e0 = lift(s.at(z3.IntVal(0)))
            m = c.fresh_const("max" if is_max else "min", e0.sort())
            w = c.fresh_const("argext", INT)
            j = z3.Int(c.name("jm"))
            ej = lift(s.at(j))
            c.assume(z3.ForAll([j], z3.Implies(z3.And(j >= 0, j < s.n), (ej <= m) if is_max else (ej >= m))))
            c.assume(z3.And(w >= 0, w < s.n, lift(s.at(w)) == m))
            r = Sym(m)
            return r
        xs = _b.list(s)
    else:
        xs = _b.list(args)
    if not any(isinstance(x, Sym) for x in xs):
        return nat(xs, **kw) if kw else nat(xs)
    if not xs:
        raise ValueError("max()/min() arg is an empty sequence")
    r = xs[0]
    for y in xs[1:]:
        a, b = core._coerce(r, y)
        r = Sym(z3.If((b > a) if is_max else (b < a), b, a))
    return r


def max_(*args, **kw):
    return _extreme(args, kw, True)


def min_(*args, **kw):
    return _extreme(args, kw, False)


def sum_(x, start=0):
    s = _seq_of(x)
    if isinstance(s, SymSeq):
        c = ctx()
        jq = z3.Int(c.name("js"))
        with c.quantified(z3.And(jq >= 0, jq < s.n)):
            e0 = lift(s.at(jq))
        bs = BigSum(s.n, lambda j: s.at(j), e0.sort() if e0.sort() in (INT, REAL) else REAL, "sum")
        if not hasattr(c, "sums"):
            c.sums = []
        c.sums.append(bs)
        return bs.value + start if not (isinstance(start, int) and start == 0) else bs.value
    xs = _b.list(s)
    r = start
    for y in xs:
        r = r + y
    return r


def _quant(x, is_all):
    if isinstance(x, LazyMap) or isinstance(x, SymSeq):
        if isinstance(x, LazyMap):
            seq, fn, flt = x.seq, x.fn, x.flt
        else:
            seq, fn, flt = x, (lambda v: v), None
        c = ctx()
        j = z3.Int(c.name("q"))
        # evaluate the body on the bound variable; decisions inside must be determined by the guard
        guard = z3.And(j >= 0, j < lift(seq.length()))
        with c.quantified(guard):
            el = seq.at(j)
            if flt is not None:
                guard = z3.And(guard, lift(flt(el)))
        with c.quantified(guard):
            body = lift(fn(el))
        if is_all:
            return Sym(z3.ForAll([j], z3.Implies(guard, body)))
        return Sym(z3.Exists([j], z3.And(guard, body)))
    xs = _b.list(x)
    if not any(isinstance(v, Sym) for v in xs):
        return _b.all(xs) if is_all else _b.any(xs)
    ts = [lift(v) if isinstance(v, Sym) else z3.BoolVal(_b.bool(v)) for v in xs]
    ts = [t if t.sort() == BOOL else (t != 0) for t in ts]
    return Sym(z3.And(*ts) if is_all else z3.Or(*ts))


def all_(x):
    return _quant(x, True)


def any_(x):
    return _quant(x, False)


def enumerate_(x, start=0):
    s = _seq_of(x)
    if isinstance(s, SymSeq):
        from .heap import STuple
        sh = STuple(SInt, s.elem_shape) if s.elem_shape is not None else None
        return SymSeq(s.n, lambda j: (Sym(lift(j) + start), s.at(j)), sh, s.name + ".enum")
    return _b.enumerate(s, start)


def bool_(x=False):
    return _b.bool(x)


def str_(x=""):
    if isinstance(x, Sym):
        if x.t.sort() == STR:
            return x
        return "<sym>"
    return _b.str(x)


class _Math:
    """proxy-aware subset of the `math` module (mathematical reals; concrete arguments are delegated to the real module)"""
    import math as _m
    inf, pi, e, nan = _m.inf, _m.pi, _m.e, _m.nan

    def __getattr__(self, k):
        real = getattr(self._m, k)
        def g(*a, **kw):
            if any(isinstance(x, Sym) for x in a) or any(isinstance(x, Sym) for x in kw.values()):
                raise Unsupported("math.%s of a symbolic value" % k)
            return real(*a, **kw)
        return g

    def isclose(self, a, b, *, rel_tol=1e-09, abs_tol=0.0):
        if not (isinstance(a, Sym) or isinstance(b, Sym)):
            return self._m.isclose(a, b, rel_tol=rel_tol, abs_tol=abs_tol)
        ta, tb = lift(float_(a) if isinstance(a, Sym) else Sym(z3.RealVal(repr(float(a))))), lift(float_(b) if isinstance(b, Sym) else Sym(z3.RealVal(repr(float(b)))))
        ab = lambda t: z3.If(t >= 0, t, -t)
        mx = lambda x, y: z3.If(x >= y, x, y)
        rt_, at_ = z3.RealVal(repr(float(rel_tol))), z3.RealVal(repr(float(abs_tol)))
        return Sym(z3.Or(ta == tb, ab(ta - tb) <= mx(rt_ * mx(ab(ta), ab(tb)), at_)))

    def floor(self, x):
        if isinstance(x, Sym):
            return Sym(z3.ToInt(lift(float_(x))))
        return self._m.floor(x)

    def ceil(self, x):
        if isinstance(x, Sym):
            return Sym(-z3.ToInt(-lift(float_(x))))
        return self._m.ceil(x)


BUILTINS = dict(math=_Math(), len=len_, range=range_, list=list_, float=float_, int=int_, round=round_, isinstance=isinstance_,
                max=max_, min=min_, sum=sum_, all=all_, any=any_, enumerate=enumerate_, str=str_)
