#!/usr/bin/env bash
# runs every claimed check (quick tier) and prints one summary line + any VIOLATION per property
cd "$(dirname "$0")/.."
for p in C01 C02 C03 C04 C05 C06 C07 C08 C09 C10 C11 C12 C13 C14 C15 C16 C17 C18 C19 C20; do
  out=$(VERIF_SEED=${VERIF_SEED:-1} ./check $p --tier ${1:-quick} 2>&1); rc=$?
  echo "$out" | grep "^== " | cut -c1-170 | sed "s/$/  [exit $rc]/"
  echo "$out" | grep "^VIOLATION" | cut -c1-220
done
