#!/usr/bin/env bash
# usage: vf/runsome.sh <tier> Cxx...   -- like runall.sh for a subset
cd "$(dirname "$0")/.."
T=$1; shift
for p in "$@"; do
  out=$(VERIF_SEED=${VERIF_SEED:-1} ./check $p --tier $T 2>&1); rc=$?
  echo "$out" | grep "^== " | cut -c1-170 | sed "s/$/  [exit $rc]/"
  echo "$out" | grep "^VIOLATION" | cut -c1-220
done
