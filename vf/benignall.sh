#!/usr/bin/env bash
# usage: vf/benignall.sh <dir> "<props>" [<dir> "<props>" ...]: runs vf/benigncheck.sh on every b*/ under dir for the listed properties
while [ $# -ge 2 ]; do d=$1; props=$2; shift 2; for b in $d/b*; do [ -f $b/patch.diff ] && vf/benigncheck.sh $b $props; done; done
