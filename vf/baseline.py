"""Runs the repository's pinned test suite (guard off) and compares with /root/.vp/BASELINE.json stable_pass. usage: python vf/baseline.py [repo]"""
import json, subprocess, sys, tempfile, os, xml.etree.ElementTree as ET
repo = sys.argv[1] if len(sys.argv) > 1 else "/repo"
base = json.load(open("/root/.vp/BASELINE.json"))
x = tempfile.mktemp(suffix=".xml")
subprocess.run(["/venv/bin/python", "-m", "pytest", "-q", "-p", "no:cacheprovider", "--timeout=900", "--continue-on-collection-errors", "--junitxml=" + x],
               cwd=repo, stdout=subprocess.DEVNULL, stderr=subprocess.DEVNULL)
passed = set()
for tc in ET.parse(x).getroot().iter("testcase"):
    if not any(ch.tag in ("failure", "error", "skipped") for ch in tc):
        passed.add("%s::%s" % (tc.get("classname"), tc.get("name")))
os.unlink(x)
missing = [t for t in base["stable_pass"] if t not in passed]
print("stable_pass: %d, passed now: %d, missing: %s" % (len(base["stable_pass"]), len(passed), missing))
sys.exit(1 if missing else 0)
