#!/usr/bin/env bash
# usage: vf/benigncheck.sh <dir with patch.diff> [Cxx ...]   -- applies a behaviour-preserving edit in a scratch worktree and runs the checks
# against it: any VIOLATION line is a false alarm of the machinery.  Prints one summary line per property.
set -u
D=$(realpath "$1"); shift
PROPS=${@:-C01 C02 C03 C04 C05 C06 C07 C08 C09 C10 C11 C12 C13 C14 C15 C16 C17 C18 C19 C20}
WT=/tmp/bc_$$; rm -rf $WT
git -C /repo worktree add -f --detach $WT HEAD -q >/dev/null 2>&1
git -C $WT apply $D/patch.diff 2>/dev/null || { echo "PATCH DOES NOT APPLY: $D"; git -C /repo worktree remove --force $WT; exit 9; }
HERE=$(cd "$(dirname "$0")/.." && pwd); cd $HERE
[ -x .venv/bin/python ] || ./setup.sh >/dev/null 2>&1
for P in $PROPS; do
  VERIF_REPO=$WT ./check $P --tier quick > /tmp/bc_$$.out 2>&1; rc=$?
  nv=$(grep -c "^VIOLATION" /tmp/bc_$$.out); nu=$(grep -c "^UNDECIDED" /tmp/bc_$$.out)
  echo "$(basename $(dirname $D))/$(basename $D) $P exit=$rc violations=$nv undecided=$nu $(grep '^== ' /tmp/bc_$$.out | cut -c1-110)"
  grep "^VIOLATION" /tmp/bc_$$.out | cut -c1-300
  grep "^UNDECIDED" /tmp/bc_$$.out | cut -c1-260 | head -4
done
rm -f /tmp/bc_$$.out
git -C /repo worktree remove --force $WT
