#!/usr/bin/env bash
# usage: vf/seedcheck.sh <dir with patch.diff demo.py meta.json> <Cxx> [--tests]
# confirms the seeded change in a scratch worktree (demo passes at HEAD, fails with the patch), then runs ./check <Cxx> against the patched copy.
set -u
D=$(realpath "$1"); P=$2; T=${3:-}
WT=/tmp/sc_$$; rm -rf $WT
git -C /repo worktree add -f --detach $WT HEAD -q >/dev/null 2>&1
( cd $WT && PYTHONPATH=$WT /venv/bin/python $D/demo.py >/dev/null 2>&1 ); base=$?
git -C $WT apply $D/patch.diff 2>/dev/null || git -C $WT apply --3way $D/patch.diff 2>/dev/null || { echo "PATCH DOES NOT APPLY"; git -C /repo worktree remove --force $WT; exit 9; }
( cd $WT && PYTHONPATH=$WT /venv/bin/python $D/demo.py >/dev/null 2>&1 ); mutd=$?
echo "demo: HEAD exit=$base  patched exit=$mutd"
if [ "$T" = "--tests" ]; then ( cd /verif && .venv/bin/python vf/baseline.py $WT ); fi
( cd /verif && VERIF_REPO=$WT ./check $P --tier quick > /tmp/sc_$$.out 2>&1; echo "check exit=$?" >> /tmp/sc_$$.out ); grep -v "^UNDECIDED" /tmp/sc_$$.out | cut -c1-260 | head -6; tail -1 /tmp/sc_$$.out; rm -f /tmp/sc_$$.out
git -C /repo worktree remove --force $WT
