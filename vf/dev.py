"""dev helper: python -m vf.dev <Cxx> <substring-of-unit-name> [-v]"""
import sys, json, warnings
warnings.filterwarnings("ignore")
sys.path.insert(0, "/verif")
import os
if os.environ.get("VERIF_REPO"): sys.path.insert(0, os.environ["VERIF_REPO"])
import importlib
pid, pat = sys.argv[1], sys.argv[2]
verbose = "-v" in sys.argv
m = importlib.import_module("props.%s" % pid)
for u in m.units("quick"):
    if pat in u.name:
        r = u.execute()
        print(u.name, r["status"], r.get("reason"), "paths", r.get("paths"), "aborted", r.get("aborted_paths"), "wall", r.get("wall_s"))
        if r.get("traceback"): print(r["traceback"])
        for o in r["obligations"]:
            if o["status"] != "discharged" or verbose:
                print("  ", o["status"], o["base"], o["kind"], o["time_s"], o["backend"][:30])
                if o.get("model") and o["status"] == "failed":
                    for k, v in sorted(o["model"].items()):
                        print("        ", k, "=", v[:150])
                if o.get("replay"): print("      replay:", o["replay"])
