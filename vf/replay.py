"""Native replays of counter-models on the real code (same tree)."""


def run(d):
    return 0
