"""Native replays: a counter-model of a failed property obligation is decoded to concrete inputs and the clause is evaluated on the
REAL function (imported from the same /repo tree) with the real HiGHS back end.  ok=True means: falsified natively (a real violation)."""
import json
import math
from fractions import Fraction

import z3


def _decl(model, prefix):
    best = None
    for d in model.decls():
        n = d.name()
        if n == prefix or n.startswith(prefix + "!"):
            best = d
            break
    return best


def _num(v):
    if v is None:
        return None
    if z3.is_int_value(v):
        return v.as_long()
    if z3.is_rational_value(v):
        return float(Fraction(v.numerator_as_long(), v.denominator_as_long()))
    if z3.is_algebraic_value(v):
        return float(v.approx(12).as_fraction())
    if z3.is_true(v):
        return True
    if z3.is_false(v):
        return False
    try:
        return float(str(v))
    except ValueError:
        return None


def mconst(model, prefix, default=None):
    d = _decl(model, prefix)
    if d is None:
        return default
    v = _num(model.eval(d(), model_completion=True)) if d.arity() == 0 else None
    return default if v is None else v


def mfun(model, prefix, *args, default=None):
    d = _decl(model, prefix)
    if d is None:
        return default
    if d.arity() == 0:      # array-valued constant
        t = d()
        for a in args:
            t = t[a]
    else:
        t = d(*[z3.IntVal(a) if isinstance(a, int) else a for a in args])
    v = _num(model.eval(t, model_completion=True))
    return default if v is None else v


def _sw():
    import flowpaths.utils.solverwrapper as sw
    return sw.SolverWrapper(external_solver="highs", log_to_console="false", threads=1)


def _opt(s, expr, sense):
    s.set_objective(expr, sense=sense)
    s.optimize()
    st = s.get_model_status()
    return st, (s.get_objective_value() if st == "kOptimal" else None)


def native_product_check(kind, lb, ub, xval, cval, tol=1e-6):
    """rows of the real helper must force p = x*c: min p = max p = x*c with x, c fixed; returns (ok_exact, detail)"""
    out = {}
    for sense in ("minimize", "maximize"):
        s = _sw()
        if kind == "binary":
            X = s.add_variables([0], "x", lb=0, ub=1, var_type="integer")[0]
        else:
            X = s.add_variables([0], "x", lb=0, ub=max(0, math.floor(ub)), var_type="integer")[0]
        C = s.add_variables([0], "c", lb=lb, ub=ub, var_type="continuous")[0]
        big = 4 * (abs(lb) + abs(ub) + 1) * (abs(ub) + 2)
        Pv = s.add_variables([0], "p", lb=-big, ub=big, var_type="continuous")[0]
        if kind == "binary":
            s.add_binary_continuous_product_constraint(X, C, Pv, lb, ub, "t")
        else:
            s.add_integer_continuous_product_constraint(X, C, Pv, lb, ub, "t")
        s.add_constraint(X == xval, name="fx")
        s.add_constraint(C == cval, name="fc")
        out[sense] = _opt(s, Pv + 0, sense)
    want = xval * cval
    exact = all(st == "kOptimal" and abs(v - want) <= tol * (1 + abs(want)) for st, v in out.values())
    return exact, dict(lb=lb, ub=ub, x=xval, c=cval, expected_product=want, observed=out)


def replay_binary_product(model):
    lb, ub, b, c = (mconst(model, k, 0.0) for k in ("lb", "ub", "b", "c"))
    exact, det = native_product_check("binary", lb, ub, int(round(b)), c)
    return dict(ok=not exact, function="SolverWrapper.add_binary_continuous_product_constraint", **det)


def replay_integer_product(model):
    lb, ub, x, c = mconst(model, "lb", 0.0), mconst(model, "ub", 1.0), mconst(model, "X", 0), mconst(model, "C", 0.0)
    exact, det = native_product_check("integer", lb, ub, int(x), c)
    return dict(ok=not exact, function="SolverWrapper.add_integer_continuous_product_constraint", **det)


def native_piecewise_check(ranges, constants, t, x, tol=1e-6):
    out = {}
    for sense in ("minimize", "maximize"):
        s = _sw()
        lo = min(r[0] for r in ranges) - 1
        hi = max(r[1] for r in ranges) + 1
        X = s.add_variables([0], "x", lb=lo, ub=hi, var_type="continuous")[0]
        cl, ch = min(constants) - 1, max(constants) + 1
        Y = s.add_variables([0], "y", lb=cl, ub=ch, var_type="continuous")[0]
        s.add_piecewise_constant_constraint(X, Y, ranges, constants, "pw")
        s.add_constraint(X == x, name="fx")
        out[sense] = _opt(s, Y + 0, sense)
    want = constants[t]
    exact = all(st == "kOptimal" and abs(v - want) <= tol * (1 + abs(want)) for st, v in out.values())
    return exact, dict(ranges=ranges, constants=constants, x=x, expected_y=want, observed=out)


def replay_piecewise(model):
    n = int(mconst(model, "ranges.len", 0))
    if not (1 <= n <= 12):
        return dict(ok=False, error="counter-model has %d ranges; not concretised" % n)
    ranges = [(mfun(model, "ranges.at.0", i, default=0.0), mfun(model, "ranges.at.1", i, default=0.0)) for i in range(n)]
    constants = [mfun(model, "constants.at.0", i, default=0.0) for i in range(n)]
    t, x = int(mconst(model, "t", 0)), mconst(model, "x", 0.0)
    exact, det = native_piecewise_check(ranges, constants, t, x)
    return dict(ok=not exact, function="SolverWrapper.add_piecewise_constant_constraint", **det)


def native_bound_queue(cols, order=None):
    """cols: list of dict(lb, ub, fix=None|v, lower=None|v).  Applies the queues through the real wrapper, reads the bounds back."""
    import numpy as np
    s = _sw()
    n = len(cols)
    vs = s.add_variables(list(range(n)), "v", lb=[c["lb"] for c in cols], ub=[c["ub"] for c in cols], var_type="continuous")
    for i, c in enumerate(cols):
        if c.get("fix") is not None:
            s.queue_fix_variable(vs[i], c["fix"])
    lowers = [i for i, c in enumerate(cols) if c.get("lower") is not None]
    for i in (order if order else lowers):
        s.queue_set_var_lower_bound(vs[i], cols[i]["lower"])
    s._apply_pending_bound_updates()
    st, nn, cost, lower, upper, nnz = s.solver.getCols(n, np.arange(n, dtype=np.int32))
    obs = [dict(lb=float(lower[i]), ub=float(upper[i])) for i in range(n)]
    bad = []
    for i, c in enumerate(cols):
        elb = c["lower"] if c.get("lower") is not None else (c["fix"] if c.get("fix") is not None else c["lb"])
        eub = c["fix"] if c.get("fix") is not None else c["ub"]
        if abs(obs[i]["lb"] - elb) > 1e-9 or abs(obs[i]["ub"] - eub) > 1e-9:
            bad.append(dict(col=i, expected=dict(lb=elb, ub=eub), observed=obs[i]))
    queues_empty = not (s._pending_fix_vars or s._pending_fix_vals or s._pending_lb_vars or s._pending_lb_vals)
    return bad, obs, queues_empty


def replay_bound_queue(model):
    """decode up to three queued lower bounds (in queue order, keeping the relative order of their columns) and one fix"""
    nl = int(mconst(model, "lbq.vars.len", 1) or 1)
    k = max(1, min(3, nl))
    entries = []
    for q in range(k):
        li = mfun(model, "lbq.vars.at.1", q, default=q)
        lv = mfun(model, "lbq.vals.at.0", q, default=1.0)
        entries.append((li, lv, mfun(model, "lb0", int(li), default=0.0), mfun(model, "ub0", int(li), default=5.0)))
    rank = {c: r for r, c in enumerate(sorted(set(e[0] for e in entries)))}
    if len(rank) < len(entries):
        entries = entries[:1]
        rank = {entries[0][0]: 0}
    cols = [dict(lb=0.0, ub=7.0) for _ in range(len(rank))] + [dict(lb=0.0, ub=9.0, fix=2.0)]
    order = []
    for li, lv, lb0, ub0 in entries:
        if not (ub0 >= lv):
            ub0 = lv + abs(lv) + 1
        if lb0 > ub0:
            lb0 = ub0 - 1
        cols[rank[li]] = dict(lb=lb0, ub=ub0, lower=lv)
        order.append(rank[li])
    bad, obs, qe = native_bound_queue(cols, order)
    return dict(ok=bool(bad) or not qe, function="SolverWrapper._apply_pending_bound_updates", columns=cols, queue_order=order, mismatches=bad, observed=obs, queues_empty=qe)


def run(d):
    """./check <id> --replay <file>: re-run the stored inputs natively"""
    rp = d.get("replay") or d.get("failure", {}).get("replay")
    if d.get("kind") == "pyvc-obligation" and rp:
        fn = rp.get("function", "")
        if "piecewise" in fn:
            exact, det = native_piecewise_check([tuple(r) for r in rp["ranges"]], rp["constants"], rp["constants"].index(rp["expected_y"]), rp["x"])
            print("REPLAY piecewise exact=%s %s" % (exact, json.dumps(det, default=str)))
            return 0 if exact else 1
        if "_apply_pending_bound_updates" in fn:
            bad, obs, qe = native_bound_queue(rp["columns"], rp.get("queue_order"))
            print("REPLAY bound queue mismatches=%s queues_empty=%s" % (bad, qe))
            return 1 if (bad or not qe) else 0
        if "product" in fn:
            kind = "binary" if "binary" in fn else "integer"
            exact, det = native_product_check(kind, rp["lb"], rp["ub"], rp["x"], rp["c"])
            print("REPLAY product exact=%s %s" % (exact, json.dumps(det, default=str)))
            return 0 if exact else 1
    if d.get("kind") == "bounded":
        # a failing case of a bounded stand-in: run the stored case through the same harness again, natively, on the current tree
        import importlib
        pid, case = d.get("property"), (rp or {}).get("case")
        modname = ("symmilp.s_%s" if "symmilp" in str(d.get("harness")) else "rc.p_%s") % pid
        try:
            mod = importlib.import_module(modname)
            r = mod.check(case) if case is not None and hasattr(mod, "check") else None
        except Exception as e:      # noqa
            print("REPLAY: could not re-run the stored case (%s: %s)" % (type(e).__name__, e))
            return 0
        if r is not None:
            print("REPLAY %s.check(case): ok=%s fingerprint=%s | %s" % (modname, r.get("ok"), r.get("fingerprint"), str(r.get("what"))[:600]))
            return 1 if r.get("ok") is False else 0
    if d.get("kind") == "pyvc-obligation" and rp and "ok" in rp:
        print("REPLAY (recorded when the obligation failed): natively confirmed=%s | %s" % (rp.get("ok"), json.dumps({k: v for k, v in rp.items() if k != "values"}, default=str)[:800]))
        return 1 if rp.get("ok") else 0
    print("REPLAY: no native replay recorded for this file (obligation-level evidence only)")
    return 0


def _frac(model, prefix, *args):
    d = _decl(model, prefix)
    if d is None:
        return None
    v = model.eval(d(*[z3.IntVal(a) for a in args]), model_completion=True)
    if z3.is_int_value(v):
        return Fraction(v.as_long())
    if z3.is_rational_value(v):
        return Fraction(v.numerator_as_long(), v.denominator_as_long())
    return None


def _range_values(model, prefix, limit=60):
    """the finitely many values a counter-model gives to a unary Int function (entries and else-branch constants)"""
    d = _decl(model, prefix)
    out = []
    if d is None:
        return out
    fi = model[d]
    try:
        for k in range(fi.num_entries()):
            v = fi.entry(k).value()
            if z3.is_int_value(v):
                out.append(v.as_long())
        ev = fi.else_value()
        if z3.is_int_value(ev):
            out.append(ev.as_long())
        else:                                        # an if-then-else tree: collect its integer leaves
            todo = [ev]
            while todo and len(out) < limit:
                t = todo.pop()
                if z3.is_int_value(t):
                    out.append(t.as_long())
                elif z3.is_app(t):
                    todo += list(t.children())
    except Exception:
        pass
    return list(dict.fromkeys(out))[:limit]


def replay_flow_conservation(o, model):
    """two-edge graph p -> v -> q carrying the in- and out-sums the counter-model gives to a node: the real check_flow_conservation must
    answer True exactly when the two sums are equal (exact rational comparison).  Tries the values scaled to integers and as floats."""
    import networkx as nx
    from flowpaths.utils import graphutils
    tried = []
    for v in _range_values(model, "node_at"):
        od, idg = mfun(model, "out_degree", v, default=0), mfun(model, "in_degree", v, default=0)
        if not od or not idg:
            continue
        a, b = _frac(model, "out_prefix_sum", v, int(od)), _frac(model, "in_prefix_sum", v, int(idg))
        if a is None or b is None:
            continue
        den = a.denominator * b.denominator // math.gcd(a.denominator, b.denominator)
        for mode, conv in (("integers", lambda x: int(x * den)), ("floats", float)):
            G = nx.DiGraph()
            G.add_edge("p", "v", flow=conv(b))
            G.add_edge("v", "q", flow=conv(a))
            want = Fraction(G["p"]["v"]["flow"]) == Fraction(G["v"]["q"]["flow"])
            got = graphutils.check_flow_conservation(G, "flow")
            rec = dict(mode=mode, edges=[(x, y, d.get("flow")) for x, y, d in G.edges(data=True)], expected=want, observed=got)
            if bool(got) != want:
                return dict(ok=True, function="graphutils.check_flow_conservation", **rec)
            tried.append(rec)
    return dict(ok=False, function="graphutils.check_flow_conservation", tried=tried[:6])


def replay_expanded_additional(which):
    """native replay for NodeExpandedDiGraph.get_expanded_additional_starts/ends: node names from the counter-model when it gives printable
    ones (else 'x', 'y'); a node-weighted two-node graph is expanded by the real class and the real method is asked for the expansion."""
    def run(o, model):
        import networkx as nx
        from flowpaths.nodeexpandeddigraph import NodeExpandedDiGraph
        names = []
        n = mconst(model, "additional.len", 0) or 0
        d = _decl(model, "additional.at.0")
        for j in range(min(int(n), 3)):
            try:
                v = model.eval(d(z3.IntVal(j)), model_completion=True).as_string() if d is not None else None
            except Exception:
                v = None
            if v and v.isprintable() and "\\" not in v and v not in names:
                names.append(v)
        names = names or ["x", "y"]
        G = nx.DiGraph()
        prev = None
        for i, nm in enumerate(names + ["zz_tail"]):
            G.add_node(nm, flow=i + 1)
            if prev is not None:
                G.add_edge(prev, nm)
            prev = nm
        ne = NodeExpandedDiGraph(G, node_flow_attr="flow")
        got = getattr(ne, "get_expanded_additional_%s" % which)(list(names))
        want = [str(nm) + (".0" if which == "starts" else ".1") for nm in names]
        return dict(ok=list(got) != want, function="NodeExpandedDiGraph.get_expanded_additional_%s" % which, input=names, expected=want, observed=list(got))
    return run


def replay_fix_zero(dag):
    """native replay for _apply_safety_optimizations_fix_zero_edges: the real method runs on a stand-in `self` (real stDAG / stDiGraph, recording
    solver) for every small graph of a fixed family and every list of <= 3 of its edges; the set of (edge, layer) pairs it fixes to 0 is compared
    with the contract (fixed only if not listed, not behind the last node, not before the first node, bridging no gap), the reachability sets
    being the real graph object's own answers."""
    def run(o, model):
        import itertools
        import networkx as nx
        import flowpaths as fp
        if dag:
            from flowpaths.abstractpathmodeldag import AbstractPathModelDAG as A
            attr, mk = "paths_to_fix", fp.stDAG
            shapes = [[("a", "b"), ("b", "c"), ("a", "c"), ("c", "d")], [("a", "b"), ("a", "c"), ("b", "d"), ("c", "d"), ("d", "e")],
                      [("a", "b"), ("b", "c"), ("c", "d"), ("a", "d"), ("b", "d")]]
        else:
            from flowpaths.abstractwalkmodeldigraph import AbstractWalkModelDiGraph as A
            attr, mk = "walks_to_fix", fp.stDiGraph
            shapes = [[("a", "b"), ("b", "c"), ("c", "b"), ("c", "d")], [("s", "a"), ("a", "b"), ("b", "a"), ("b", "c"), ("a", "c")],
                      [("s", "a"), ("a", "b"), ("b", "b"), ("b", "c"), ("c", "a"), ("c", "d")]]
        fn = A._apply_safety_optimizations_fix_zero_edges
        tried = 0

        class Tok:
            def __init__(self, k): self.k = k
            def __eq__(self, other): return ("fix", self.k, other)
            __hash__ = None

        class EV:
            def __getitem__(self, k): return Tok(k)

        class Rec:
            def __init__(self): self.rows = []
            def add_constraint(self, row, name=None): self.rows.append(row)
            def queue_fix_variable(self, var, value): self.rows.append(("fix", var.k, value))

        class Me:
            pass
        for E in shapes:
            g = nx.DiGraph()
            g.add_edges_from(E)
            G = mk(g)
            edges = list(G.edges())
            reach = {x: set(G.nodes_reachable(x)) if hasattr(G, "nodes_reachable") else set(G.reachable_nodes_from[x]) for x in G.nodes()}
            for n in (1, 2, 3):
                for lst in itertools.permutations(edges, n):
                    lst = [tuple(e) for e in lst]
                    me = Me()
                    setattr(me, attr, [lst])
                    me.k, me.G, me.solver, me.edge_vars, me.edges_set_to_zero, me.solve_statistics = 1, G, Rec(), EV(), {}, {}
                    tried += 1
                    try:
                        fn(me)
                    except Exception as e:      # noqa
                        return dict(ok=True, function=fn.__qualname__, graph=E, safe_list=lst, observed="raised %s: %s" % (type(e).__name__, e))
                    for row in me.solver.rows:
                        if not (isinstance(row, tuple) and row[0] == "fix"):
                            continue
                        (u, v, i), val = row[1], row[2]
                        may = ((u, v) in lst or u in reach[lst[-1][1]] or lst[0][0] in reach[v] or
                               any((not dag or lst[q][1] != lst[q + 1][0]) and u in reach[lst[q][1]] and lst[q + 1][0] in reach[v] for q in range(n - 1)))
                        if may or val != 0:
                            return dict(ok=True, function=fn.__qualname__, graph=E, safe_list=lst, fixed=[u, v, i], value=val,
                                        expected="not fixed: a route containing the list in order can use this edge" if may else "fixed to 0")
        return dict(ok=False, function=fn.__qualname__, tried=tried)
    return run


def replay_read_graph(o, model):
    """native replay for graphutils.read_graph: blocks are assembled from line DESCRIPTIONS (id line, '#S' lines, blanks, count line, edge lines, malformed
    lines), so what the block means is known by construction; the real read_graph is run on each and compared with that meaning (id, constraints as
    consecutive pairs of each distinct '#S' line with >= 2 nodes, edges with the weight of their last line, n/m stored = counts of the returned graph,
    ValueError exactly for a malformed edge line, a non-numeric weight / count, or a constraint edge that is no edge)."""
    import itertools
    from flowpaths.utils import graphutils as gu
    S_POOL = [["a", "b", "c"], ["a", "b"], ["a"], ["b", "d"], ["a", "c"]]
    BODY = [("edge", "a", "b", "1"), ("edge", "b", "c", "2.5"), ("edge", "a", "b", "7"), ("edge", "a", "c", "4"), ("blank",), ("bad", "a b"), ("bad", "a c x"), ("bad", "a b 1 2")]
    tried = 0
    heads = [()] + [(s,) for s in range(len(S_POOL))] + [(s, t) for s in range(len(S_POOL)) for t in range(len(S_POOL))]
    bodies = [b for n in (0, 1, 2, 3) for b in itertools.product(range(len(BODY)), repeat=n)]
    for hi, head in enumerate(heads):
        for idpos in (0, len(head)):
            for count in ("3", "0", "x", None):
                for bi, body in enumerate(bodies):
                    if (hi * 7 + bi) % 5 and len(body) == 3:
                        continue
                    lines, k = [], 0
                    for pos in range(len(head) + 1):
                        if pos == idpos:
                            lines.append("# block one\n")
                        if pos < len(head):
                            lines.append(" #S " + " ".join(S_POOL[head[pos]]) + "\n")
                    lines.append("\n")
                    if count is not None:
                        lines.append(count + "\n")
                    for b in body:
                        d = BODY[b]
                        lines.append("\n" if d[0] == "blank" else ((" ".join(d[1:]) if d[0] == "edge" else d[1]) + "\n"))
                    # meaning
                    cons, seen = [], set()
                    for s in head:
                        key = tuple(S_POOL[s])
                        if key not in seen:
                            seen.add(key)
                            if len(key) >= 2:
                                cons.append(list(zip(key, key[1:])))
                    edges, bad = {}, count in ("x", None)
                    if not bad and count != "0":
                        for b in body:
                            d = BODY[b]
                            if d[0] == "bad":
                                bad = True
                                break
                            if d[0] == "edge":
                                edges[(d[1], d[2])] = float(d[3])
                        if not bad and any(e not in edges for c in cons for e in c):
                            bad = True
                    if not bad and count != "0" and (not edges or not _has_source_and_sink(edges)):
                        continue        # outside C20's domain (the stored width needs a graph with a source and a sink)
                    tried += 1
                    try:
                        G = gu.read_graph(list(lines))
                        got = ("graph", G.graph.get("id"), G.graph.get("constraints"), {(u, v): d.get("flow") for u, v, d in G.edges(data=True)},
                               (G.graph.get("n"), G.graph.get("m")) if G.number_of_edges() else None, (G.number_of_nodes(), G.number_of_edges()) if G.number_of_edges() else None)
                    except ValueError as e:
                        got = ("ValueError",)
                    except Exception as e:      # noqa
                        got = ("raised", type(e).__name__, str(e)[:120])
                    want = ("ValueError",) if bad else ("graph", "block one", cons, edges if count != "0" else {}, None, None)
                    same = got[0] == want[0] and (got[0] != "graph" or (got[1] == want[1] and got[2] == want[2] and got[3] == want[3] and got[4] == got[5]))
                    if not same:
                        return dict(ok=True, function="graphutils.read_graph", block=lines, expected=repr(want)[:400], observed=repr(got)[:400])
    return dict(ok=False, function="graphutils.read_graph", tried=tried)


def _has_source_and_sink(edges):
    nodes = {x for e in edges for x in e}
    return any(all(v != n for (_, v) in edges) for n in nodes) and any(all(u != n for (u, _) in edges) for n in nodes)


def replay_expanded_constraints(kind):
    """native replay for NodeExpandedDiGraph._get_expanded_subpath_constraints_nodes / _edges: the real class expands every pair of constraints
    (paths of <= 3 nodes / <= 2 edges of a small node-weighted graph, plus one naming an absent element) and the result is compared with the contract."""
    def run(o, model):
        import itertools
        import networkx as nx
        from flowpaths.nodeexpandeddigraph import NodeExpandedDiGraph
        G = nx.DiGraph()
        for n in ("x", "y", "z", "w"):
            G.add_node(n, flow=2)
        G.add_edges_from([("x", "y"), ("y", "z"), ("x", "z"), ("z", "w")])
        H = NodeExpandedDiGraph(G, node_flow_attr="flow")
        if kind == "nodes":
            pool = [["x"], ["x", "y"], ["x", "y", "z"], ["y", "z", "w"], ["x", "q"]]
            want1 = lambda c: [(n + ".0", n + ".1") for n in c]
            bad = lambda c: any(n not in G for n in c)
            fn = H._get_expanded_subpath_constraints_nodes
        else:
            pool = [[("x", "y")], [("x", "y"), ("y", "z")], [("y", "z"), ("z", "w")], [("x", "z"), ("z", "w")], [("x", "w")]]
            def want1(c):
                out = []
                for (u, v) in c:
                    out += [(u + ".0", u + ".1"), (u + ".1", v + ".0")]
                return out + [(c[-1][1] + ".0", c[-1][1] + ".1")]
            bad = lambda c: any(not G.has_edge(*e) for e in c)
            fn = H._get_expanded_subpath_constraints_edges
        tried = 0
        for cs in itertools.chain(([c] for c in pool), itertools.permutations(pool, 2)):
            cs = [list(c) for c in cs]
            tried += 1
            try:
                got = fn(cs)
            except ValueError:
                got = "ValueError"
            except Exception as e:      # noqa
                got = "raised %s" % type(e).__name__
            want = "ValueError" if any(bad(c) for c in cs) else [want1(c) for c in cs]
            if got != want:
                return dict(ok=True, function=fn.__qualname__, constraints=cs, expected=want, observed=got)
        return dict(ok=False, function=fn.__qualname__, tried=tried)
    return run


def replay_solver_init(o, model):
    """native replay for SolverWrapper.__init__: real wrappers are created with the default and with two explicit tolerances and the option values HiGHS
    actually holds are read back (getOptionValue): both MIP gaps must be at most the wrapper's tolerance."""
    import flowpaths.utils.solverwrapper as sw
    tried = []
    for kw in ({}, {"tolerance": 1e-6}, {"tolerance": 1e-9}):
        w = sw.SolverWrapper(**kw)
        tol = kw.get("tolerance", sw.SolverWrapper.tolerance)
        rec = dict(kwargs=kw, tolerance=tol)
        bad = False
        for k in ("mip_abs_gap", "mip_rel_gap"):
            r = w.solver.getOptionValue(k)
            v = r[1] if isinstance(r, (tuple, list)) else r
            rec[k] = v
            bad = bad or not (0 <= float(v) <= float(tol) * (1 + 1e-12))
        if bad:
            return dict(ok=True, function="SolverWrapper.__init__", expected="mip_abs_gap and mip_rel_gap <= tolerance", **rec)
        tried.append(rec)
    return dict(ok=False, function="SolverWrapper.__init__", tried=tried)


def replay_stdigraph_width(o, model):
    """native replay for stDiGraph.get_width: the real method on real stDiGraph objects of two small digraphs with bundles of parallel inter-SCC edges; the weight
    function it hands to the antichain routine (recorded) is compared with: bundle -> multiplicity minus ignored edges, node edge -> 0 iff every member edge of a
    non-trivial SCC is ignored."""
    import itertools
    import networkx as nx
    import flowpaths as fp
    tried = 0
    for E in ([("s", "a"), ("a", "b"), ("b", "a"), ("a", "t"), ("b", "t")], [("s", "a"), ("a", "b"), ("b", "c"), ("c", "a"), ("a", "t"), ("b", "t"), ("c", "t")]):
        g = nx.DiGraph(E)
        for ign in [[]] + [[e] for e in E] + [list(p) for p in itertools.combinations(E, 2)]:
            H = fp.stDiGraph(g)
            calls = []
            H._condensation_expanded.compute_max_edge_antichain = lambda get_antichain=False, weight_function=None, calls=calls: (calls.append(dict(weight_function)) or 1)
            tried += 1
            try:
                H.get_width(edges_to_ignore=[tuple(e) for e in ign])
            except Exception as e:      # noqa
                return dict(ok=True, function="stDiGraph.get_width", edges=E, ignore=ign, observed="raised %s: %s" % (type(e).__name__, e))
            if len(calls) != 1:
                return dict(ok=True, function="stDiGraph.get_width", edges=E, ignore=ign, observed="%d calls of the antichain routine" % len(calls))
            C, igs, want = H._condensation, set(map(tuple, ign)), {}
            for (c1, c2) in C.edges():
                bundle = [(u, v) for (u, v) in H.edges() if C.graph["mapping"][u] == c1 and C.graph["mapping"][v] == c2]
                want[H._condensation_edge_to_condensation_expanded_edge(c1, c2)] = len(bundle) - len([e for e in bundle if e in igs])
            for node in C.nodes():
                members = [(u, v) for (u, v) in H.edges() if C.graph["mapping"][u] == node and C.graph["mapping"][v] == node]
                want[(str(node), H._expanded(node))] = 0 if (members and all(e in igs for e in members)) else 1
            got = {e: w for e, w in calls[0].items() if e in want or w != 0}
            if got != want:
                return dict(ok=True, function="stDiGraph.get_width", edges=E, ignore=ign, observed=str(sorted(got.items())), expected=str(sorted(want.items())))
    return dict(ok=False, function="stDiGraph.get_width", tried=tried)


def replay_subgraph_scanning(o, model):
    """native replay for MinFlowDecomp._get_lowerbound_with_subgraph_scanning: long narrow DAGs (23-29 nodes: the window of 20 nodes really slides), with and without an
    ignored diamond on a window boundary; MinFlowDecomp with use_subgraph_scanning_lowerbound=True must be solved with the same number of paths as without the option."""
    import networkx as nx
    import flowpaths as fp
    tried = []
    def chain(n, diamonds, ignore_at=None):
        G, ign = nx.DiGraph(), []
        for i in range(n):
            if i in diamonds:
                G.add_edge("v%d" % i, "v%d" % (i + 1), flow=3)
                G.add_edge("v%d" % i, "x%d" % i, flow=2)
                G.add_edge("x%d" % i, "v%d" % (i + 1), flow=2)
                if ignore_at == i:
                    ign = [("v%d" % i, "v%d" % (i + 1)), ("v%d" % i, "x%d" % i), ("x%d" % i, "v%d" % (i + 1))]
            else:
                G.add_edge("v%d" % i, "v%d" % (i + 1), flow=5)
        return G, ign
    for n, diamonds, ignore_at in ((21, (19,), 19), (21, (19,), None), (26, (5, 19), 19), (26, (18, 22), None), (23, (0, 20), 20)):
        G, ign = chain(n, diamonds, ignore_at)
        got = {}
        for scan in (False, True):
            try:
                m = fp.MinFlowDecomp(G, flow_attr="flow", weight_type=int, elements_to_ignore=list(ign), optimization_options={"use_subgraph_scanning_lowerbound": scan})
                m.solve()
                got[scan] = len(m.get_solution()["paths"]) if m.is_solved() else "unsolved"
            except Exception as e:      # noqa
                got[scan] = "raised %s: %s" % (type(e).__name__, str(e)[:80])
        rec = dict(nodes=n + 1, diamonds=list(diamonds), ignored_diamond=ignore_at, without_option=got[False], with_option=got[True])
        if got[False] != got[True]:
            return dict(ok=True, function="MinFlowDecomp (use_subgraph_scanning_lowerbound)", **rec)
        tried.append(rec)
    return dict(ok=False, function="MinFlowDecomp (use_subgraph_scanning_lowerbound)", tried=tried)


def replay_lowerbound_k(o, model):
    """native replay for MinFlowDecomp.get_lowerbound_k: on small DAG flows (some with ignored flow-carrying edges) MinFlowDecomp - default options, with the
    min-gen-set bound, with an explicit lowerbound_k option - must return as many paths as the smallest k for which kFlowDecomp is feasible (found by trying k = 1, 2, ...)."""
    import networkx as nx
    import flowpaths as fp
    INST = [
        ([("s", "a", 3), ("a", "t", 3)], []),
        ([("s", "a", 2), ("s", "b", 1), ("a", "t", 2), ("b", "t", 1)], []),
        ([("s", "a", 5), ("a", "b", 3), ("a", "c", 2), ("b", "t", 3), ("c", "t", 2)], [("a", "c")]),
        ([("s", "a", 7), ("a", "b", 1), ("a", "c", 2), ("a", "d", 4), ("b", "t", 1), ("c", "t", 2), ("d", "t", 4)], [("a", "b"), ("a", "c")]),
        ([("s", "a", 6), ("a", "b", 2), ("a", "c", 4), ("b", "d", 2), ("c", "d", 4), ("d", "e", 5), ("d", "f", 1), ("e", "t", 5), ("f", "t", 1)], []),
        ([("s", "a", 1), ("s", "b", 2), ("s", "c", 4), ("a", "t", 1), ("b", "t", 2), ("c", "t", 4)], [("s", "b"), ("b", "t")]),
        ([("x", "z", 1), ("y", "z", 2)], []),
        ([("x", "y", 3), ("y", "z", 1), ("y", "w", 2)], []),
        ([("x", "m", 1), ("y", "m", 2), ("m", "z", 1), ("m", "w", 2)], [("x", "m")]),
    ]
    tried = []
    for E, ign in INST:
        def build():
            G = nx.DiGraph()
            for a, b, w in E:
                G.add_edge(a, b, flow=w)
            return G
        true_min = None
        for k in range(1, len(E) + 1):
            m = fp.kFlowDecomp(build(), flow_attr="flow", k=k, weight_type=int, elements_to_ignore=list(ign), optimization_options={"optimize_with_greedy": False})
            m.solve()
            if m.is_solved():
                true_min = k
                break
        for opts in ({}, {"use_min_gen_set_lowerbound": True}, {"lowerbound_k": 1}, {"optimize_with_greedy": False}):
            try:
                m = fp.MinFlowDecomp(build(), flow_attr="flow", weight_type=int, elements_to_ignore=list(ign), optimization_options=dict(opts))
                m.solve()
                got = len(m.get_solution()["paths"]) if m.is_solved() else "unsolved"
            except Exception as e:      # noqa
                got = "raised %s: %s" % (type(e).__name__, str(e)[:80])
            rec = dict(edges=E, ignored=ign, options=opts, paths=got, smallest_feasible_k=true_min)
            if got != true_min:
                return dict(ok=True, function="MinFlowDecomp (get_lowerbound_k)", **rec)
            tried.append(rec)
    return dict(ok=False, function="MinFlowDecomp (get_lowerbound_k)", tried=len(tried))


def replay_lowerbound_k_cycles(o, model):
    """native replay for MinFlowDecompCycles.get_lowerbound_k: on small digraphs with cycles (one with ignored edges; the edge-weighted class rejects additional starts / ends) the number of walks
    MinFlowDecompCycles returns - default options and with the min-gen-set bound - must be the smallest k for which kFlowDecompCycles is feasible."""
    import networkx as nx
    import flowpaths as fp
    INST = [
        ([("s", "a", 2), ("a", "b", 3), ("b", "a", 1), ("b", "t", 2)], [], [], []),
        ([("s", "a", 3), ("a", "a", 2), ("a", "t", 3)], [], [], []),
        ([("s", "a", 2), ("s", "b", 1), ("a", "c", 2), ("b", "c", 1), ("c", "d", 4), ("d", "c", 1), ("d", "t", 3)], [("s", "b"), ("b", "c")], [], []),
        ([("s", "a", 1), ("a", "b", 2), ("b", "c", 2), ("c", "a", 1), ("c", "t", 1)], [], [], []),
        ([("s", "a", 6), ("a", "c1", 2), ("c1", "a", 2), ("a", "b", 6), ("b", "c2", 3), ("c2", "b", 3), ("b", "t", 6)], [], [], []),
    ]
    tried = []
    for E, ign, starts, ends in INST:
        def build():
            G = nx.DiGraph()
            for a, b, w in E:
                G.add_edge(a, b, flow=w)
            return G
        kw = dict(flow_attr="flow", weight_type=int, elements_to_ignore=list(ign))
        if starts:
            kw["additional_starts"] = list(starts)
        if ends:
            kw["additional_ends"] = list(ends)
        true_min = None
        for k in range(1, len(E) + 1):
            try:
                m = fp.kFlowDecompCycles(build(), k=k, **kw)
                m.solve()
                if m.is_solved():
                    true_min = k
                    break
            except Exception:      # noqa
                break
        if true_min is None:
            continue
        for opts in ({}, {"use_min_gen_set_lowerbound": True}, {"lowerbound_k": 1}):
            try:
                m = fp.MinFlowDecompCycles(build(), optimization_options=dict(opts), **kw)
                m.solve()
                got = len(m.get_solution()["walks"]) if m.is_solved() else "unsolved"
            except Exception as e:      # noqa
                got = "raised %s: %s" % (type(e).__name__, str(e)[:80])
            rec = dict(edges=E, ignored=ign, starts=starts, ends=ends, options=opts, walks=got, smallest_feasible_k=true_min)
            if got != true_min:
                return dict(ok=True, function="MinFlowDecompCycles (get_lowerbound_k)", **rec)
            tried.append(rec)
    return dict(ok=False, function="MinFlowDecompCycles (get_lowerbound_k)", tried=len(tried))
