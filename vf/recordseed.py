"""usage: recordseed.py <src dir> <Cxx-mN> <detected_by text>  -- copies a confirmed seeded change into /verif/seeded with the bookkeeping fields"""
import json, os, shutil, sys
src, name, det = sys.argv[1], sys.argv[2], sys.argv[3]
dst = os.path.join(os.path.dirname(os.path.dirname(os.path.abspath(__file__))), "seeded", name)
os.makedirs(dst, exist_ok=True)
for f in ("patch.diff", "demo.py"):
    shutil.copy(os.path.join(src, f), os.path.join(dst, f))
m = json.load(open(os.path.join(src, "meta.json")))
m.setdefault("property", name.split("-")[0])
m["origin"] = "independent sub-agent given only the property text and a scratch worktree"
m["confirmed"] = "vf/seedcheck.sh: demo exits 0 at HEAD and 1 with the patch (scratch worktree); the sub-agent ran the full pytest suite on a patched copy (only the known pre-existing example failures)"
m["detected_by"] = det
m["ran"] = "vf/seedcheck.sh seeded/%s %s" % (name, name.split("-")[0])
json.dump(m, open(os.path.join(dst, "meta.json"), "w"), indent=1)
print("recorded", dst)
