"""Driver: ./check <Cxx> --tier quick|thorough   |   ./check <Cxx> --replay <file>   |   ./check --relock

Per property: runs the PyVC units (deductive, unbounded), the frame units, and the bounded stand-ins
(SymMILP / RC), writes evidence/<id>.json, prints UNDECIDED / KNOWN-FINDING / VIOLATION lines.
Exit codes: 0 held (possibly with UNDECIDED notes), 1 violation, 2 nothing decidable, 3 checker crash.
"""
import argparse
import importlib
import json
import multiprocessing as mp
import os
import sys
import time
import traceback
import warnings

warnings.filterwarnings("ignore", category=SyntaxWarning)

ROOT = os.path.dirname(os.path.dirname(os.path.abspath(__file__)))
sys.path.insert(0, ROOT)
if os.environ.get("VERIF_REPO") and os.path.abspath(os.environ["VERIF_REPO"]) != "/repo":
    sys.path.insert(0, os.environ["VERIF_REPO"])        # self-test on a scratch copy: import flowpaths from there, too
_SCRATCH = bool(os.environ.get("VERIF_REPO")) and os.path.abspath(os.environ["VERIF_REPO"]) != "/repo"
# a self-test against a scratch copy must not overwrite the evidence / replay files of /repo itself
EVID = os.path.join(ROOT, "evidence_scratch" if _SCRATCH else "evidence")
REPLAY = os.path.join(ROOT, "replay_scratch" if _SCRATCH else "replay")
LOCK = os.path.join(ROOT, "contracts", "OBLIGATIONS.lock")
KNOWN = os.path.join(ROOT, "known_findings.json")
ALL_PROPS = ["C%02d" % i for i in range(1, 21)]


def load_prop(pid):
    return importlib.import_module("props.%s" % pid)


# ---- worker side ---------------------------------------------------------------------------

def _work(task):
    warnings.filterwarnings("ignore")
    kind, pid, idx, tier, seed = task
    t0 = time.time()
    try:
        mod = load_prop(pid)
        if kind == "unit":
            u = mod.units(tier)[idx]
            r = u.execute(cross=(tier == "thorough"))
            r["_kind"] = "unit"
            return r
        else:
            b = mod.bounded(tier, seed)[idx]
            r = b.run()
            r["_kind"] = "bounded"
            r.setdefault("wall_s", round(time.time() - t0, 3))
            return r
    except BaseException as e:      # noqa
        return dict(_kind=kind, status="crash", unit="%s[%d]" % (pid, idx), name="%s[%d]" % (pid, idx),
                    reason="%s: %s" % (type(e).__name__, e), traceback=traceback.format_exc()[-3000:])


def run_tasks(tasks, procs):
    if not tasks:
        return []
    if procs <= 1 or len(tasks) == 1:
        return [_work(t) for t in tasks]
    # a worker that dies (killed by a signal, out of memory) must not hang the check: futures of a broken pool raise, and are recorded as crashes
    from concurrent.futures import ProcessPoolExecutor
    ctxm = mp.get_context("fork")
    out = [None] * len(tasks)
    with ProcessPoolExecutor(max_workers=min(procs, len(tasks)), mp_context=ctxm) as ex:
        futs = [ex.submit(_work, t) for t in tasks]
        for i, (t, fu) in enumerate(zip(tasks, futs)):
            try:
                out[i] = fu.result(timeout=int(os.environ.get("VERIF_TASK_TIMEOUT_S", "7200")))
            except BaseException as e:      # noqa  (BrokenProcessPool, TimeoutError, ...)
                out[i] = dict(_kind=t[0], status="crash", unit="%s[%s]" % (t[1], t[2]), name="%s[%s]" % (t[1], t[2]),
                              reason="worker failed: %s: %s" % (type(e).__name__, e), traceback="")
    return out


# ---- known findings ------------------------------------------------------------------------

def load_known():
    try:
        d = json.load(open(KNOWN))
    except FileNotFoundError:
        return dict(open=[], fixed=[])
    d.setdefault("open", [])
    d.setdefault("fixed", [])
    return d


def match_known(pid, fingerprint, known):
    for k in known["open"]:
        if k.get("property") == pid and k.get("fingerprint") and k["fingerprint"] in fingerprint:
            return k
    return None


def load_lock():
    try:
        return json.load(open(LOCK))
    except FileNotFoundError:
        return {}


# ---- main ----------------------------------------------------------------------------------

def check_property(pid, tier, seed, procs, relock=False):
    t0 = time.time()
    mod = load_prop(pid)
    units = mod.units(tier) if hasattr(mod, "units") else []
    bnd = mod.bounded(tier, seed) if hasattr(mod, "bounded") else []
    tasks = [("unit", pid, i, tier, seed) for i in range(len(units))] + [("bounded", pid, i, tier, seed) for i in range(len(bnd))]
    results = run_tasks(tasks, procs)
    ures = [r for r in results if r.get("_kind") == "unit"]
    bres = [r for r in results if r.get("_kind") == "bounded"]
    crashes = [r for r in results if r.get("status") == "crash"]
    known = load_known()
    lock = load_lock().get(pid, {})

    lines, violations, undecided, known_hits = [], [], [], []
    n_obl = n_dis = n_prop = n_prop_dis = n_scen = n_scen_dis = 0
    functions, samples, solver_time = [], [], 0.0
    backends = {}
    seen_prop_obls = set()
    os.makedirs(REPLAY, exist_ok=True)

    for r in ures:
        fn = dict(function="%s:%s" % (r.get("file"), r.get("function")), sha256=r.get("sha256"), lines=[r.get("first_line"), r.get("last_line")],
                  status=r["status"], paths=r.get("paths"), loops=r.get("loops"), obligations=len(r.get("obligations", [])),
                  discharged=sum(1 for o in r.get("obligations", []) if o["status"] == "discharged"),
                  solver_time_s=r.get("solver_time_s"), abstractions=r.get("abstractions"), callee_contracts=r.get("callee_contracts"))
        if r["status"] == "crash":
            continue
        if r["status"] != "ok":
            fn["reason"] = r.get("reason")
            undecided.append(dict(obligation=r["unit"], reason="%s: %s" % (r["status"], r.get("reason"))))
            if r["status"] == "error":
                fn["traceback"] = r.get("traceback")
        functions.append(fn)
        scen = bool(r.get("scenario"))      # a unit that runs the extracted function on CONCRETE scenarios: its clauses are bounded checks, counted as such
        fn["concrete_scenarios_only"] = scen
        for o in r.get("obligations", []):
            solver_time += o.get("time_s", 0)
            isprop = bool(o.get("prop")) and pid in str(o["prop"]).split(",")      # a clause may belong to several properties ("C10,C03")
            if isprop:
                seen_prop_obls.add(o["name"].split("~")[0])
            if scen:
                n_scen += 1
                n_scen_dis += int(o["status"] == "discharged")
            else:
                n_obl += 1
                backends[o["backend"].split(" ")[0]] = backends.get(o["backend"].split(" ")[0], 0) + 1
                if isprop:
                    n_prop += 1
            if o["status"] == "discharged":
                if not scen:
                    n_dis += 1
                    if isprop:
                        n_prop_dis += 1
                if len(samples) < 6 and isprop:
                    samples.append(dict(obligation=o["name"], status="discharged", backend=o["backend"], time_s=o["time_s"]))
                continue
            if o["status"] == "unknown":
                undecided.append(dict(obligation=o["name"], reason="solver unknown/timeout or solver disagreement", cross=o.get("cross")))
                continue
            # failed
            if not isprop:
                undecided.append(dict(obligation=o["name"], reason="auxiliary obligation failed (%s); not a property clause" % o["kind"],
                                      model=o.get("model")))
                continue
            rp = o.get("replay")
            if rp is not None and rp.get("ok") is False and "error" not in rp:
                undecided.append(dict(obligation=o["name"], reason="counter-model did not falsify the clause natively (spurious)", replay=rp))
                continue
            fp = o["name"].split("~")[0]
            kf = match_known(pid, fp, known)
            path = os.path.join(REPLAY, "%s-%s.json" % (pid, fp.replace("/", "_").replace(":", "_")[-120:]))
            json.dump(dict(property=pid, kind="pyvc-obligation", obligation=o["name"], function=fn["function"], sha256=fn["sha256"],
                           solver_output=dict(status="sat (negated goal)", backend=o["backend"], model=o.get("model")),
                           replay=rp), open(path, "w"), indent=1, default=str)
            confirmed = bool(rp and rp.get("ok"))
            if kf:
                msg = "KNOWN-FINDING: property=%s %s" % (pid, kf["what_fails"])
                if msg not in known_hits:
                    known_hits.append(msg)
            elif any(("obligation=%s " % fp) in v or v.endswith("obligation=%s" % fp) for v in violations):
                pass        # same obligation reached on another path: one VIOLATION line per obligation
            else:
                o = dict(o, name=fp)
                violations.append("VIOLATION property=%s replay=%s obligation=%s%s" % (
                    pid, os.path.relpath(path, ROOT), o["name"], "" if confirmed else " no-failing-input-found"))

    bounded_summ = []
    seen_fp = set()
    evaluations = nontrivial = 0
    evaluations += n_scen           # clauses of concrete-scenario units are bounded evaluations, not discharged obligations
    exhaustive_all = True
    for r in bres:
        if r.get("status") == "crash":
            continue
        evaluations += r.get("evaluations", 0)
        nontrivial += r.get("distinct_nontrivial", 0)
        exhaustive_all = exhaustive_all and bool(r.get("exhaustive"))
        bounded_summ.append({k: r.get(k) for k in ("name", "engine", "evaluations", "distinct_nontrivial", "rule", "bounds", "exhaustive",
                                                   "wall_s", "notes", "skipped")})
        for s in r.get("samples", [])[:3]:
            if len(samples) < 14:
                samples.append(dict(bounded=r.get("name"), case=s))
        per_fp = {}
        for f in r.get("failures", []):
            per_fp[f.get("fingerprint", "")] = per_fp.get(f.get("fingerprint", ""), 0) + 1
        seen_fp_here = set()
        for f in r.get("failures", []):
            fp = f.get("fingerprint", "")
            if fp in seen_fp or fp in seen_fp_here:
                continue        # one VIOLATION line per failing clause (fingerprint); all instances are in the evidence
            seen_fp_here.add(fp)
            kf = match_known(pid, fp, known)
            if kf:
                msg = "KNOWN-FINDING: property=%s %s" % (pid, kf["what_fails"])
                if msg not in known_hits:
                    known_hits.append(msg)
                continue
            path = os.path.join(REPLAY, "%s-%s-%d.json" % (pid, r.get("name", "bounded").replace("/", "_"), len(violations)))
            json.dump(dict(property=pid, kind="bounded", harness=r.get("name"), failure=f), open(path, "w"), indent=1, default=str)
            seen_fp.add(fp)
            violations.append("VIOLATION property=%s replay=%s clause=[%s] first-instance: %s" % (pid, os.path.relpath(path, ROOT), fp, f.get("what", "")[:160]))
        for u in r.get("undecided", []):
            undecided.append(dict(obligation="%s:%s" % (r.get("name"), u.get("case", "")), reason=u.get("reason", "")))

    # obligation lock: every locked property obligation must have been generated in this run
    if relock:
        return dict(pid=pid, prop_obligations=sorted(seen_prop_obls))
    missing = [n for n in lock.get("property_obligations", []) if n not in seen_prop_obls]
    for n in missing:
        undecided.append(dict(obligation=n, reason="locked property obligation was not generated in this run (function unsupported or contract skipped)"))
    for cr in crashes:
        undecided.append(dict(obligation=cr.get("unit"), reason="checker crash: %s" % cr.get("reason"), traceback=cr.get("traceback")))

    proof_complete = (n_prop > 0 and n_prop == n_prop_dis and not missing and not violations and not known_hits
                      and not [u for u in undecided if "auxiliary" not in u["reason"]])
    claimed = getattr(mod, "LEVEL", "other")
    level = "proof" if (claimed == "proof" and proof_complete and n_obl == n_dis) else ("other" if claimed in ("proof", "other") else claimed)
    wall = round(time.time() - t0, 2)
    assumptions = list(getattr(mod, "ASSUMPTIONS", []))
    for r in ures:
        for a in r.get("assumptions", []):
            if a not in assumptions:
                assumptions.append(a)
    for r in bres:
        for a in r.get("assumptions", []) or []:
            if a not in assumptions:
                assumptions.append(a)
    explanation = getattr(mod, "EXPLANATION", "")
    cov = dict(
        obligations=n_obl, discharged=n_dis, property_obligations=n_prop, property_obligations_discharged=n_prop_dis,
        concrete_scenario_clauses=n_scen, concrete_scenario_clauses_passed=n_scen_dis,
        checker_cmd="./check %s --tier %s  (PyVC path executor over the real functions of /repo; z3 %s in-process, /usr/bin/cvc5 on unknown%s)" % (
            pid, tier, __import__("z3").get_version_string(), "; every obligation re-run on cvc5 1.0.3 and z3 4.8.12" if tier == "thorough" else ""),
        trusted_base=list(getattr(mod, "TRUSTED", [])) + ["CPython 3.12 (executes the extracted function)", "PyVC engine (/verif/pyvc: proxies, loop cutter, stubs)",
                                                          "z3 5.1.0 / cvc5 1.0.3"],
        functions_under_contract=functions, backends=backends, solver_time_s=round(solver_time, 3),
        undecided=undecided[:60], undecided_count=len(undecided),
        bounded=bounded_summ, evaluations=max(evaluations, 0), distinct_nontrivial=nontrivial,
        rule=getattr(mod, "RULE", "see bounded[*].rule; bounded counts are never added to `discharged`"),
        samples=samples or [dict(note="no property obligation discharged in this run")],
        exhaustive=bool(bres) and exhaustive_all,
        explanation=explanation + (" | this run: %d/%d obligations discharged (%d/%d property clauses), %d bounded evaluations, %d undecided, %d known findings." % (
            n_dis, n_obl, n_prop_dis, n_prop, evaluations, len(undecided), len(known_hits))),
        known_findings=known_hits,
    )
    if evaluations == 0:
        cov.pop("evaluations")
        cov.pop("distinct_nontrivial")
    ev = dict(property_id=pid, tier=tier, seed=seed, level=level, coverage=cov, assumptions=assumptions, wall_s=wall, violations=len(violations))
    os.makedirs(EVID, exist_ok=True)
    tmp = os.path.join(EVID, "%s.json.tmp" % pid)
    json.dump(ev, open(tmp, "w"), indent=1, default=str)
    os.replace(tmp, os.path.join(EVID, "%s.json" % pid))

    print("== %s [%s] level=%s: %d/%d obligations discharged (%d/%d property clauses) over %d functions; bounded evaluations=%d; wall %.1fs" % (
        pid, tier, level, n_dis, n_obl, n_prop_dis, n_prop, len(functions), evaluations, wall))
    for u in undecided[:40]:
        print("UNDECIDED obligation=%s reason=%s" % (u["obligation"], str(u["reason"])[:300]))
    for k in known_hits:
        print(k)
    for v in violations:
        print(v)
    if violations:
        return 1
    if crashes and not ures and not bres:
        return 3
    if n_obl == 0 and evaluations == 0:
        print("UNDECIDED nothing could be decided for %s" % pid)
        return 2
    return 0


def main():
    ap = argparse.ArgumentParser()
    ap.add_argument("prop", nargs="?")
    ap.add_argument("--tier", default=os.environ.get("VERIF_TIER", "quick"), choices=["quick", "thorough"])
    ap.add_argument("--replay")
    ap.add_argument("--relock", action="store_true")
    ap.add_argument("--procs", type=int, default=int(os.environ.get("VERIF_PROCS", "16")))
    a = ap.parse_args()
    try:
        seed = int(os.environ.get("VERIF_SEED", "0"))
    except ValueError:
        seed = 0
    try:
        if a.relock:
            lock = load_lock()
            for pid in ([a.prop] if a.prop else ALL_PROPS):
                try:
                    load_prop(pid)
                except ModuleNotFoundError:
                    continue
                r = check_property(pid, "quick", seed, a.procs, relock=True)
                lock[pid] = dict(property_obligations=r["prop_obligations"])
                print("locked %s: %d property obligations" % (pid, len(r["prop_obligations"])))
            json.dump(lock, open(LOCK, "w"), indent=1, sort_keys=True)
            return 0
        if a.replay:
            mod = load_prop(a.prop)
            return mod.replay(a.replay) if hasattr(mod, "replay") else generic_replay(a.replay)
        return check_property(a.prop, a.tier, seed, a.procs)
    except SystemExit:
        raise
    except BaseException:      # noqa
        traceback.print_exc()
        return 3


def generic_replay(path):
    d = json.load(open(path))
    print(json.dumps(d, indent=1)[:4000])
    from vf import replay as rp
    return rp.run(d)


if __name__ == "__main__":
    sys.exit(main())
