"""prints the per-property status table of DESIGN.md section 7.2 from the committed evidence files"""
import glob, json, os
ROOT = os.path.dirname(os.path.dirname(os.path.abspath(__file__)))
kf = json.load(open(os.path.join(ROOT, "known_findings.json")))
openf = {}
for f in kf["open"]:
    openf.setdefault(f["property"], []).append(f["fingerprint"])
print("| id | level | functions under contract | obligations discharged (property clauses) | back ends | solver s | bounded evaluations | open known findings |")
print("|---|---|---|---|---|---|---|---|")
for f in sorted(glob.glob(os.path.join(ROOT, "evidence", "C*.json"))):
    e = json.load(open(f))
    c = e["coverage"]
    fns = c.get("functions_under_contract", [])
    names = sorted({(x.get("function") or "").split(".")[-1] for x in fns})
    be = ", ".join("%s:%d" % (k.replace("-5.1.0", "").replace("-1.0.3(cli)", ""), v) for k, v in (c.get("backends") or {}).items())
    print("| %s | %s | %d units: %s | %d/%d (%d/%d) | %s | %.0f | %d | %s |" % (
        e["property_id"], e["level"], len(fns), ", ".join(names)[:150], c["discharged"], c["obligations"], c.get("property_obligations_discharged", 0), c.get("property_obligations", 0),
        be, c.get("solver_time_s", 0), c.get("evaluations", 0), "; ".join(openf.get(e["property_id"], [])) or "-"))
