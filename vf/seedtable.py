"""prints the table of DESIGN.md section 7.5 from seeded/*/meta.json"""
import glob, json, os, re
ROOT = os.path.dirname(os.path.dirname(os.path.abspath(__file__)))
rows = []
for d in sorted(glob.glob(os.path.join(ROOT, "seeded", "C*-m*")), key=lambda p: (os.path.basename(p).split("-")[0], int(os.path.basename(p).split("-m")[1]))):
    m = json.load(open(os.path.join(d, "meta.json")))
    name = os.path.basename(d)
    summ = re.sub(r"\s+", " ", str(m.get("summary", ""))).replace("|", "/")
    summ = summ[:170] + ("…" if len(summ) > 170 else "")
    det = re.sub(r"\s+", " ", str(m.get("detected_by", ""))).replace("|", "/")
    first = "strengthened" if re.search(r"MISSED|missed|\*\*missed\*\*|then ", det) else "caught"
    if re.match(r"not by ", det) and first == "caught":
        first = "other property"
    det = det[:260] + ("…" if len(det) > 260 else "")
    rows.append("| %s | %s | %s | %s |" % (name, summ, det, first))
print("| seed | change | caught by | first run |")
print("|---|---|---|---|")
print("\n".join(rows))
n = len(rows)
s = sum(1 for r in rows if r.endswith("| strengthened |"))
o = sum(1 for r in rows if r.endswith("| other property |"))
print("\n%d seeded changes: %d caught on the first run by the check of the property they were aimed at, %d not by that check but on the first run by the check of "
      "the property that owns the broken mechanism, %d missed at first and answered by a stronger check." % (n, n - s - o, o, s))
