"""Regenerates MANIFEST.json from the props/ modules (each declares MANIFEST dict) — run by hand, result committed."""
import importlib, json, os, sys
ROOT = os.path.dirname(os.path.dirname(os.path.abspath(__file__)))
sys.path.insert(0, ROOT)
ALL = ["C%02d" % i for i in range(1, 21)]
checks, na = [], []
for pid in ALL:
    try:
        m = importlib.import_module("props.%s" % pid)
    except ModuleNotFoundError:
        na.append(dict(property_id=pid, reason="check not built yet in this session (planned in DESIGN.md section 3); no claim is made"))
        continue
    mf = getattr(m, "MANIFEST", None)
    if mf is None or getattr(m, "NOT_APPLICABLE", None):
        na.append(dict(property_id=pid, reason=getattr(m, "NOT_APPLICABLE", "no claim")))
        continue
    checks.append(dict(
        property_id=pid,
        quick_cmd="./check %s --tier quick" % pid,
        thorough_cmd="./check %s --tier thorough" % pid,
        evidence_file="evidence/%s.json" % pid,
        replay_cmd_template="./check %s --replay {path}" % pid,
        engine=mf.get("engine", "pyvc"),
        level_claimed=dict(category=mf["category"], text=mf["text"], design_ref=mf.get("design_ref", "DESIGN.md section 3")),
        level_note=mf["note"],
        technique=mf["technique"]))
man = dict(
    version=1,
    setup_cmd="./setup.sh",
    hooks=dict(guard="FLOWPATHS_VERIF", enable="no hook is needed: contracts, recording back end and fault injection are attached from outside /repo",
               baseline_off_cmd="cd /repo && /venv/bin/python -m pytest -ra -q -p no:cacheprovider --timeout=900 --continue-on-collection-errors",
               source_commits=[], add_only=True),
    engines=[
        dict(name="pyvc", path="pyvc/", serves_properties=[c["property_id"] for c in checks],
             kind_free_text="contract-cut path executor: the real function is re-read from /repo on every run, loops are cut at sidecar invariants, "
                            "CPython runs it on z3-backed proxies, every pre/inv/post clause is an obligation for z3 (cvc5 on unknown)"),
        dict(name="pyvc.frame", path="pyvc/frame.py", serves_properties=["C18"], kind_free_text="conservative may-alias/may-mutate analysis discharging `modifies` clauses"),
        dict(name="symmilp", path="symmilp/", serves_properties=sorted(f[2:5] for f in os.listdir(os.path.join(ROOT, "symmilp")) if f.startswith("s_C") and f.endswith(".py")),
             kind_free_text="bounded stand-in: the real encoders build the model on the real HiGHS object, the LP is read back and z3 decides forall-solver-outcome obligations per instance"),
        dict(name="rc", path="rc/", serves_properties=sorted(set(f[2:5] for f in os.listdir(os.path.join(ROOT, "rc")) if f.startswith("p_C") and f.endswith(".py")) | {"C13"}),
             kind_free_text="bounded stand-in: executable contracts on the real API over an exhaustive small universe vs brute-force oracles (solver calls capped at 120 s; a capped case is UNDECIDED)"),
    ],
    checks=checks,
    not_applicable=na,
    notes="Technique family: contract-based deductive verification of the real code (DESIGN.md). Bounded stand-ins are labelled bounded in every evidence file and never counted as discharged obligations.")
json.dump(man, open(os.path.join(ROOT, "MANIFEST.json"), "w"), indent=1)
print("checks:", [c["property_id"] for c in checks], "not_applicable:", len(na))
