"""Bounded stand-ins (never counted as proved).  A Bounded task runs in a worker process and returns
dict(name, engine, evaluations, distinct_nontrivial, rule, bounds, exhaustive, samples, failures=[{fingerprint, what, replay}], undecided=[...])."""
import time
import traceback


class Bounded:
    def __init__(self, name, fn, **kw):
        self.name, self.fn, self.kw = name, fn, kw

    def run(self):
        t0 = time.time()
        try:
            r = self.fn(**self.kw)
        except (Exception, SystemExit) as e:       # a crash of the harness is never a verdict
            r = dict(evaluations=0, distinct_nontrivial=0, failures=[], samples=[],
                     undecided=[dict(case="harness", reason="harness crashed: %s: %s | %s" % (type(e).__name__, e, traceback.format_exc()[-800:]))])
        r.setdefault("name", self.name)
        r.setdefault("engine", "rc")
        r.setdefault("failures", [])
        r.setdefault("samples", [])
        r.setdefault("exhaustive", False)
        r["wall_s"] = round(time.time() - t0, 2)
        return r
