"""Bounded stand-ins (never counted as proved).  A Bounded task runs in a worker process and returns
dict(name, engine, evaluations, distinct_nontrivial, rule, bounds, exhaustive, samples, failures=[{fingerprint, what, replay}], undecided=[...])."""
import os
import time
import traceback

_CAP = dict(installed=False, hit=0)


def install_solver_cap():
    """Every SolverWrapper created inside a bounded harness gets a finite HiGHS time limit unless the harness (or the library) already set one: a CHANGED
    library may build a model that HiGHS cannot finish (seeded change C01-m11 kept one check busy for over half an hour).  A solve that ends at this
    cap is counted in _CAP['hit']; run_cases turns the case in which that happened into UNDECIDED - never into a verdict.  On the unchanged tree the
    instances of the universes solve in milliseconds to seconds, the cap (default 120 s, VERIF_SOLVER_CAP_S) is never reached."""
    if _CAP["installed"]:
        return
    _CAP["installed"] = True
    try:
        import flowpaths.utils.solverwrapper as sw
    except Exception:      # noqa  (harnesses that never touch the library)
        return
    cap = float(os.environ.get("VERIF_SOLVER_CAP_S", "120"))
    init0, opt0 = sw.SolverWrapper.__init__, sw.SolverWrapper.optimize

    def init(self, *a, **kw):
        mine = kw.get("time_limit", float("inf")) == float("inf") and kw.get("external_solver", "highs") == "highs"
        if mine:
            kw["time_limit"] = cap
        init0(self, *a, **kw)
        self._verif_cap = mine

    def optimize(self, *a, **kw):
        t0 = time.time()
        r = opt0(self, *a, **kw)
        try:
            # a genuine run into the cap (not a status injected by a fault-injection harness): the call really lasted that long
            if getattr(self, "_verif_cap", False) and time.time() - t0 >= 0.9 * cap and self.get_model_status() == "kTimeLimit":
                _CAP["hit"] += 1
        except Exception:      # noqa
            pass
        return r
    sw.SolverWrapper.__init__, sw.SolverWrapper.optimize = init, optimize


class Bounded:
    def __init__(self, name, fn, **kw):
        self.name, self.fn, self.kw = name, fn, kw

    def run(self):
        t0 = time.time()
        try:
            r = self.fn(**self.kw)
        except (Exception, SystemExit) as e:       # a crash of the harness is never a verdict
            r = dict(evaluations=0, distinct_nontrivial=0, failures=[], samples=[],
                     undecided=[dict(case="harness", reason="harness crashed: %s: %s | %s" % (type(e).__name__, e, traceback.format_exc()[-800:]))])
        r.setdefault("name", self.name)
        r.setdefault("engine", "rc")
        r.setdefault("failures", [])
        r.setdefault("samples", [])
        r.setdefault("exhaustive", False)
        r["wall_s"] = round(time.time() - t0, 2)
        return r


def run_cases(cases, check, chunk=0, nchunks=1, rule="", bounds="", engine="rc", exhaustive=True, max_samples=3, time_budget_s=None, assumptions=None):
    """cases: iterable of JSON-able case descriptions (deterministic order); check(case) -> dict(ok=bool|None, nontrivial=bool, fingerprint, what, detail).
    ok=None means undecided for that case (e.g. oracle gave no certified answer)."""
    ev = nt = 0
    failures, samples, undecided = [], [], []
    t0 = time.time()
    complete = True
    install_solver_cap()
    for idx, case in enumerate(cases):
        if idx % nchunks != chunk:
            continue
        if time_budget_s is not None and time.time() - t0 > time_budget_s:
            complete = False
            break
        ev += 1
        hit0 = _CAP["hit"]
        try:
            r = check(case)
        except (Exception, SystemExit) as e:
            r = dict(ok=None, nontrivial=False, what="harness exception %s: %s | %s" % (type(e).__name__, e, traceback.format_exc()[-500:]))
        if _CAP["hit"] != hit0:
            r = dict(ok=None, nontrivial=False, what="a solver call ended at the harness' own time cap (VERIF_SOLVER_CAP_S): no verdict from this case; outcome was %s" % str(r.get("fingerprint") or r.get("ok"))[:200])
        if r.get("nontrivial"):
            nt += 1
        if r.get("ok") is False:
            failures.append(dict(fingerprint=r.get("fingerprint", "unclassified"), what=r.get("what", ""), replay=dict(case=case, detail=r.get("detail"))))
        elif r.get("ok") is None:
            undecided.append(dict(case=str(case)[:200], reason=r.get("what", "undecided")[:600]))
        if len(samples) < max_samples:
            samples.append(dict(case=case, result={k: r.get(k) for k in ("ok", "detail") if k in r}))
    return dict(engine=engine, evaluations=ev, distinct_nontrivial=nt, failures=failures, samples=samples, undecided=undecided[:20],
                rule=rule, bounds=bounds + ("" if complete else " (time budget hit: enumeration truncated)"), exhaustive=bool(exhaustive and complete),
                assumptions=assumptions or [])
