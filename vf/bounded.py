"""Bounded stand-ins (never counted as proved).  A Bounded task runs in a worker process and returns
dict(name, engine, evaluations, distinct_nontrivial, rule, bounds, exhaustive, samples, failures=[{fingerprint, what, replay}], undecided=[...])."""
import time
import traceback


class Bounded:
    def __init__(self, name, fn, **kw):
        self.name, self.fn, self.kw = name, fn, kw

    def run(self):
        t0 = time.time()
        try:
            r = self.fn(**self.kw)
        except (Exception, SystemExit) as e:       # a crash of the harness is never a verdict
            r = dict(evaluations=0, distinct_nontrivial=0, failures=[], samples=[],
                     undecided=[dict(case="harness", reason="harness crashed: %s: %s | %s" % (type(e).__name__, e, traceback.format_exc()[-800:]))])
        r.setdefault("name", self.name)
        r.setdefault("engine", "rc")
        r.setdefault("failures", [])
        r.setdefault("samples", [])
        r.setdefault("exhaustive", False)
        r["wall_s"] = round(time.time() - t0, 2)
        return r


def run_cases(cases, check, chunk=0, nchunks=1, rule="", bounds="", engine="rc", exhaustive=True, max_samples=3, time_budget_s=None, assumptions=None):
    """cases: iterable of JSON-able case descriptions (deterministic order); check(case) -> dict(ok=bool|None, nontrivial=bool, fingerprint, what, detail).
    ok=None means undecided for that case (e.g. oracle gave no certified answer)."""
    ev = nt = 0
    failures, samples, undecided = [], [], []
    t0 = time.time()
    complete = True
    for idx, case in enumerate(cases):
        if idx % nchunks != chunk:
            continue
        if time_budget_s is not None and time.time() - t0 > time_budget_s:
            complete = False
            break
        ev += 1
        try:
            r = check(case)
        except (Exception, SystemExit) as e:
            r = dict(ok=None, nontrivial=False, what="harness exception %s: %s | %s" % (type(e).__name__, e, traceback.format_exc()[-500:]))
        if r.get("nontrivial"):
            nt += 1
        if r.get("ok") is False:
            failures.append(dict(fingerprint=r.get("fingerprint", "unclassified"), what=r.get("what", ""), replay=dict(case=case, detail=r.get("detail"))))
        elif r.get("ok") is None:
            undecided.append(dict(case=str(case)[:200], reason=r.get("what", "undecided")[:600]))
        if len(samples) < max_samples:
            samples.append(dict(case=case, result={k: r.get(k) for k in ("ok", "detail") if k in r}))
    return dict(engine=engine, evaluations=ev, distinct_nontrivial=nt, failures=failures, samples=samples, undecided=undecided[:20],
                rule=rule, bounds=bounds + ("" if complete else " (time budget hit: enumeration truncated)"), exhaustive=bool(exhaustive and complete),
                assumptions=assumptions or [])
