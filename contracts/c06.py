"""Sidecar contracts for C06 (proof piece): safetypathcovers.safe_paths.process_edge (the nested function that builds the safe path of an edge).

ensures  the result is a contiguous path of edges of G that contains e; every edge placed BEFORE e enters a node of in-degree 1, every edge
         placed AFTER e leaves a node of out-degree 1.   (Safety of such a path for {e} is then the two-line argument: any route through e
         must enter u through its only in-edge and leave v through its only out-edge - A4, not proved here.)
Termination of the two extension loops (needs acyclicity) is not proved."""
import z3
from pyvc import core
from pyvc.core import Sym, lift, INT, BOOL, Unsupported
from pyvc.heap import SymSeq, SInt, STuple
from pyvc.unit import Unit, NoopLogger
from pyvc.rt import Tracked
from contracts.stubs import UtilsStub


def min_(a, b):
    a, b = lift(a), lift(b)
    return Sym(z3.If(a <= b, a, b))

P = "C06"
EDGE = z3.Function("is_edge", INT, INT, BOOL)
INDEG, OUTDEG = z3.Function("in_degree", INT, INT), z3.Function("out_degree", INT, INT)
PRED, SUCC = z3.Function("the_predecessor", INT, INT), z3.Function("the_successor", INT, INT)
ESH = STuple(SInt, SInt)


class _It:
    def __init__(self, kind, v):
        self.kind, self.v = kind, v


def next_(it):
    if isinstance(it, _It):
        c = core.ctx()
        v = lift(it.v)
        if it.kind == "pred":
            if not c.decide(INDEG(v) >= 1, "has-a-predecessor"):
                raise StopIteration
            c.assume(EDGE(PRED(v), v))
            return Sym(PRED(v))
        if not c.decide(OUTDEG(v) >= 1, "has-a-successor"):
            raise StopIteration
        c.assume(EDGE(v, SUCC(v)))
        return Sym(SUCC(v))
    return next(it)


class G:
    @staticmethod
    def in_degree(v): return Sym(INDEG(lift(v)))
    @staticmethod
    def out_degree(v): return Sym(OUTDEG(lift(v)))
    @staticmethod
    def predecessors(v): return _It("pred", v)
    @staticmethod
    def successors(v): return _It("succ", v)


def u_process_edge():
    st = {}

    def as_seq(p):
        if isinstance(p, SymSeq):
            return p
        from pyvc.rt import concrete_to_seq
        return concrete_to_seq(list(p)) if len(p) else SymSeq(z3.IntVal(0), lambda j: (Sym(z3.IntVal(0)), Sym(z3.IntVal(0))), ESH)

    def inv_back(ns, seq, done):
        p = as_seq(ns["path"])
        u = lift(ns["u"])
        j = z3.Int("jb")
        a = lambda q: lift(p._at(q)[0])
        b = lambda q: lift(p._at(q)[1])
        n = p.n
        return {"backward-chain-starts-at-the-tail-of-e-and-is-contiguous(reversed)": z3.And(
                    z3.Implies(n > 0, b(0) == st["u0"]), z3.ForAll([j], z3.Implies(z3.And(j >= 1, j < n), b(j) == a(j - 1))),
                    u == z3.If(n > 0, a(n - 1), st["u0"])),
                "every-prepended-edge-is-an-edge-entering-a-node-of-in-degree-1": z3.ForAll([j], z3.Implies(z3.And(j >= 0, j < n), z3.And(EDGE(a(j), b(j)), INDEG(b(j)) == 1)))}

    def on_entry_fwd(ns, it=None):
        st["k"] = as_seq(ns["path"]).n - 1                 # position of e in the final path

    def inv_fwd(ns, seq, done):
        p = as_seq(ns["path"])
        v = lift(ns["v"])
        j = z3.Int("jf")
        a = lambda q: lift(p._at(q)[0])
        b = lambda q: lift(p._at(q)[1])
        n, k = p.n, st["k"]
        return {"path-is-contiguous-and-ends-at-the-current-node": z3.And(n >= 1, k >= 0, k < n, z3.ForAll([j], z3.Implies(z3.And(j >= 0, j < n - 1), b(j) == a(j + 1))), v == b(n - 1)),
                "e-sits-at-its-position": z3.And(a(k) == st["u0"], b(k) == st["v0"]),
                "edges-before-e-enter-in-degree-1-nodes": z3.ForAll([j], z3.Implies(z3.And(j >= 0, j < k), z3.And(EDGE(a(j), b(j)), INDEG(b(j)) == 1))),
                "edges-after-e-leave-out-degree-1-nodes": z3.ForAll([j], z3.Implies(z3.And(j > k, j < n), z3.And(EDGE(a(j), b(j)), OUTDEG(a(j)) == 1)))}

    def h(c, f):
        u0, v0 = z3.Ints("e_tail e_head")
        c.assume(EDGE(u0, v0))
        st.update(u0=u0, v0=v0)
        try:
            res = f((Sym(u0), Sym(v0)))
        except StopIteration:
            c.prove("xpost:next()-is-only-called-on-a-non-empty-neighbourhood", False, prop=P, kind="xpost")
            return
        p = as_seq(res)
        j = z3.Int("jp")
        a = lambda q: lift(p._at(q)[0])
        b = lambda q: lift(p._at(q)[1])
        k = st["k"]
        c.prove("post:contiguous-path-of-edges-containing-e", z3.And(p.n >= 1, k >= 0, k < p.n, a(k) == u0, b(k) == v0,
                                                                      z3.ForAll([j], z3.Implies(z3.And(j >= 0, j < p.n - 1), b(j) == a(j + 1))),
                                                                      z3.ForAll([j], z3.Implies(z3.And(j >= 0, j < p.n, j != k), EDGE(a(j), b(j))))), prop=P)
        c.prove("post:left-extension-only-through-unique-in-edges", z3.ForAll([j], z3.Implies(z3.And(j >= 0, j < k), INDEG(b(j)) == 1)), prop=P)
        c.prove("post:right-extension-only-through-unique-out-edges", z3.ForAll([j], z3.Implies(z3.And(j > k, j < p.n), OUTDEG(a(j)) == 1)), prop=P)

    hv = lambda old: SymSeq.fresh("path", ESH)
    loops = {0: dict(inv=inv_back, prop=P, havoc={"path": hv}, keep=("x",)),
             1: dict(inv=inv_fwd, prop=P, on_entry=on_entry_fwd, havoc={"path": hv}, keep=("x",))}
    return Unit("flowpaths/utils/safetypathcovers.py", "safe_paths.process_edge", h, globs=dict(G=G, no_duplicates=False, next=next_), loops=loops, props=[P],
                assumptions=["a node of in-degree (out-degree) >= 1 has a predecessor (successor) edge; next(G.predecessors(u)) returns one",
                             "A4 (not proved): a path extended only through unique in-/out-edges is safe for {e}", "termination of the extension loops not proved"],
                abstractions=["nested function extracted on its own; its free variables G and no_duplicates are bound in the sidecar"])


REACH = z3.Function("reaches", INT, INT, BOOL)          # REACH(a, b): b is reachable from a (what stDAG / stDiGraph reachability queries answer; C17)
HASEDGE = z3.Function("G_has_edge", INT, INT, BOOL)


class _NodeSet:
    """result of a reachability query: only membership is used"""
    def __init__(self, pred): self.pred = pred
    def __contains__(self, x): return bool(Sym(self.pred(lift(x))))


class _ProtSet:
    """the set of protected edges: membership predicate over (tail, head)"""
    def __init__(self, pred): self.pred = pred
    def add(self, e):
        u, v, old = lift(e[0]), lift(e[1]), self.pred
        self.pred = lambda a, b: z3.Or(old(a, b), z3.And(a == u, b == v))
    def __contains__(self, e): return bool(Sym(self.pred(lift(e[0]), lift(e[1]))))
    @classmethod
    def fresh(cls, name="protected"):
        f = z3.Function(core.ctx().name(name), INT, INT, BOOL)
        return cls(lambda a, b: f(a, b))


def u_fix_zero_edges(relpath, qualname, attr, dag):
    """_apply_safety_optimizations_fix_zero_edges (DAG and walk model): the pruning step of C06.
    ensures (SOUND, property clause): an edge variable of layer i is fixed to 0 ONLY IF the edge is not in the safe list of layer i, its tail is
        not reachable from the last node of the list, its head does not reach the first node, and it bridges no gap of the list (tail reachable
        from the head of one listed edge and head reaching the tail of the next; DAG model: only where the two listed edges are not adjacent).
        With the graph lemma below every route that contains the list in order uses only edges outside the fixed set.
    ensures (auxiliary): every edge fixed is an edge of G and the layer index is below min(len(lists), k)."""
    st = {}
    PT, PH = z3.Function("list_edge_tail", INT, INT, INT), z3.Function("list_edge_head", INT, INT, INT)     # (layer, position)
    PLEN = z3.Function("list_length", INT, INT)
    ET, EH = z3.Function("G_edge_tail", INT, INT), z3.Function("G_edge_head", INT, INT)

    def gap(i, idx):
        return z3.BoolVal(True) if not dag else PH(i, idx) != PT(i, idx + 1)

    def mayuse(i, u, v):
        j, g = z3.Ints("mj mg")
        n = PLEN(i)
        return z3.Or(z3.Exists([j], z3.And(j >= 0, j < n, PT(i, j) == u, PH(i, j) == v)),
                     REACH(PH(i, n - 1), u), REACH(v, PT(i, 0)),
                     z3.Exists([g], z3.And(g >= 0, g < n - 1, gap(i, g), REACH(PH(i, g), u), REACH(v, PT(i, g + 1)))))

    class Var:
        def __init__(self, u, v, i): self.k = (lift(u), lift(v), lift(i))
        def __eq__(self, o): return Row(self.k, o)
        __hash__ = None

    class Row:
        def __init__(self, k, rhs): self.k, self.rhs = k, rhs

    class EdgeVars:
        def __getitem__(self, key): return Var(*key)

    class SolverStub:
        def add_constraint(self, row, name=None):
            c = core.ctx()
            if not isinstance(row, Row):
                raise Unsupported("add_constraint with an expression other than edge_vars[...] == constant")
            u, v, i = row.k
            c.prove("row:the-right-hand-side-is-0", lift(row.rhs) == 0, prop=P, kind="xpost")
            c.prove("row:fixed-to-0-only-if-no-route-containing-the-safe-list-of-the-layer-can-use-the-edge", z3.Not(mayuse(i, u, v)), prop=P, kind="xpost")
            q = z3.Int("eq")
            c.prove("row(auxiliary):the-fixed-variable-belongs-to-an-edge-of-G-and-a-layer-that-has-a-list",
                    z3.And(z3.Exists([q], z3.And(q >= 0, q < st["nE"], ET(q) == u, EH(q) == v)), i >= 0, i < st["nL"], i < st["k"]), prop=None, kind="xpost")

    class Sink(dict):
        def __setitem__(self, k, v): pass

    def edges_seq():
        return SymSeq(st["nE"], lambda q: (Sym(ET(lift(q))), Sym(EH(lift(q)))), ESH, "G.edges")

    class GStub:
        @property
        def edges(self): return edges_seq()
        def has_edge(self, u, v): return Sym(HASEDGE(lift(u), lift(v)))
        def nodes_reachable(self, x): x = lift(x); return _NodeSet(lambda u: REACH(x, u))
        def nodes_reaching(self, x): x = lift(x); return _NodeSet(lambda v: REACH(v, x))
        class _RF:
            def __getitem__(self, x): x = lift(x); return _NodeSet(lambda u: REACH(x, u))
        reachable_nodes_from = _RF()

    def list_at(i):
        i = lift(i)
        return SymSeq(PLEN(i), lambda j: (Sym(PT(i, lift(j))), Sym(PH(i, lift(j)))), ESH, "safe_list")

    def set_(x):
        # set(<generator over the list, filtered by has_edge>): membership = some listed edge equal to it that is an edge of G
        i = st["i"]()
        j = z3.Int("sj")
        return _ProtSet(lambda a, b: z3.Exists([j], z3.And(j >= 0, j < PLEN(i), PT(i, j) == a, PH(i, j) == b, HASEDGE(a, b))))

    # -- invariants.  E[q] = q-th edge of G;  i = current layer
    def grows(ns, key):
        a, b = z3.Ints("ga gb")
        old = st[key]
        return z3.ForAll([a, b], z3.Implies(old(a, b), ns["protected_edges"].pred(a, b)))

    def enter(key):
        def f(ns, it=None):
            st[key] = ns["protected_edges"].pred
        return f

    def inv_ends(ns, seq, done):
        i, q = lift(ns["i"]), z3.Int("q1")
        pr = ns["protected_edges"].pred
        n = PLEN(i)
        return {"edges-after-the-last-node-or-before-the-first-node-seen-so-far-are-protected":
                    z3.ForAll([q], z3.Implies(z3.And(q >= 0, q < lift(done), z3.Or(REACH(PH(i, n - 1), ET(q)), REACH(EH(q), PT(i, 0)))), pr(ET(q), EH(q)))),
                "protection-only-grows": grows(ns, "p1"),
                "first-and-last-node": z3.And(lift(ns["first_node"]) == PT(i, 0), lift(ns["last_node"]) == PH(i, n - 1))}

    def inv_gaps(ns, seq, done):
        i, g, w = lift(ns["i"]), z3.Int("g2"), z3.Int("w2")
        gp = ns["gap_pairs"]
        ga = lambda x: lift(gp._at(x)[0])
        gb = lambda x: lift(gp._at(x)[1])
        return {"every-gap-seen-so-far-is-recorded":
                    z3.ForAll([g], z3.Implies(z3.And(g >= 0, g < lift(done), gap(i, g)),
                                              z3.Exists([w], z3.And(w >= 0, w < gp.n, ga(w) == PH(i, g), gb(w) == PT(i, g + 1)))))}

    def bridged(ns, upto_gap, upto_edge_at_current=None):
        gp = ns["gap_pairs"] if "gap_pairs" in ns else st["gp"]
        pr = ns["protected_edges"].pred
        ga = lambda x: lift(gp._at(x)[0])
        gb = lambda x: lift(gp._at(x)[1])
        w, q = z3.Ints("w3 q3")
        full = z3.ForAll([w, q], z3.Implies(z3.And(w >= 0, w < upto_gap, q >= 0, q < st["nE"], REACH(ga(w), ET(q)), REACH(EH(q), gb(w))), pr(ET(q), EH(q))))
        if upto_edge_at_current is None:
            return full
        cur_a, cur_b, d = upto_edge_at_current
        part = z3.ForAll([q], z3.Implies(z3.And(q >= 0, q < d, REACH(cur_a, ET(q)), REACH(EH(q), cur_b)), pr(ET(q), EH(q))))
        return z3.And(full, part)

    def inv_bridge_outer(ns, seq, done):
        st["od"] = lift(done)
        return {"edges-bridging-a-gap-handled-so-far-are-protected": bridged(ns, lift(done)), "protection-only-grows": grows(ns, "p3")}

    def enter_inner(ns, it=None):
        st["p4"] = ns["protected_edges"].pred
        st["g_done"] = st["od"]

    def inv_bridge_inner(ns, seq, done):
        gd = st["g_done"]
        return {"edges-bridging-the-gaps-handled-so-far-and-the-current-gap-up-to-here-are-protected":
                    bridged(ns, gd, (lift(ns["current_last"]), lift(ns["current_start"]), lift(done))),
                "protection-only-grows": grows(ns, "p4")}

    def h(c, f):
        nE, nL, k = c.fresh_const("n_edges", INT), c.fresh_const("n_lists", INT), c.fresh_const("k", INT)
        c.assume(z3.And(nE >= 0, nL >= 0))
        q, a = z3.Ints("hq ha")
        c.assume(z3.ForAll([q], z3.Implies(z3.And(q >= 0, q < nE), HASEDGE(ET(q), EH(q)))))        # G.has_edge is true of the edges G.edges lists
        c.assume(z3.ForAll([a], PLEN(a) >= 0))
        st.update(nE=nE, nL=nL, k=k)
        class Me(Tracked):
            pass
        me = Me()
        setattr(me, attr, SymSeq(nL, lambda i: list_at(i), None, attr))
        me.k = Sym(k)
        me.G = GStub()
        me.solver = SolverStub()
        me.edge_vars = EdgeVars()
        me.edges_set_to_zero = Sink()
        me.solve_statistics = {}
        st["me"] = me
        f(me)

    prot = lambda old: _ProtSet.fresh()
    gaps = lambda old: SymSeq.fresh("gap_pairs", ESH)
    lst = lambda old: old
    tmp = ("u", "v", "idx", "end_prev", "start_next", "current_last", "current_start")

    def outer_entry(ns, it=None):
        pass

    def enter_bridge(ns, it=None):
        st["p3"] = ns["protected_edges"].pred

    loops = {0: dict(inv=lambda ns, seq, done: (st.__setitem__("i_cur", lift(done)) or {}), prop=P,
                     havoc={"protected_edges": prot, "gap_pairs": gaps, "path": lst, "walk": lst}, keep=tmp + ("first_node", "last_node")),
             1: dict(inv=inv_ends, prop=P, on_entry=enter("p1"), havoc={"protected_edges": prot}, keep=tmp),
             2: dict(inv=inv_gaps, prop=P, havoc={"gap_pairs": gaps}, keep=tmp),
             3: dict(inv=inv_bridge_outer, prop=P, on_entry=enter_bridge, havoc={"protected_edges": prot}, keep=tmp),
             4: dict(inv=inv_bridge_inner, prop=P, on_entry=enter_inner, havoc={"protected_edges": prot}, keep=tmp),
             5: dict(inv=lambda ns, seq, done: {}, prop=P, keep=tmp)}
    st["i"] = lambda: st["i_cur"]
    empty = lambda: SymSeq(z3.IntVal(0), lambda j: (Sym(z3.IntVal(0)), Sym(z3.IntVal(0))), ESH, "gap_pairs")
    from vf.replay import replay_fix_zero
    return Unit(relpath, qualname, h, globs=dict(utils=UtilsStub, set=set_, hasattr=hasattr, min=min_), loops=loops, props=[P], literals=dict(list=empty), replay=replay_fix_zero(dag),
                assumptions=["reachability queries of G answer one fixed relation `reaches` (C17 checks them against the graph)",
                             "A4' (graph lemma, not proved here): a source-to-sink route that contains the edges of the safe list in order uses, besides them, only edges "
                             "whose head reaches the first listed tail, whose tail is reachable from the last listed head, or that lie between two consecutive listed edges "
                             "(DAG: only when these are not adjacent, otherwise there would be a cycle)",
                             "G.has_edge is true of every edge G.edges lists"],
                abstractions=["node names are integers compared by ==", "safe lists, G.edges: abstract sequences of arbitrary length", "the set of protected edges is its membership predicate"])


def u_apply_safety_walk():
    """AbstractWalkModelDiGraph._apply_safety_optimizations: what the walk models do with the safe sequences.
    ensures (property clauses, 'prune soundly'):
      * a lower bound / a row  x[(u,v,i)] >= m  is installed only for an edge that occurs in the safe list of layer i, with m <= number of its
        occurrences in that list (auxiliary: an SCC edge, m exactly that number);
      * a variable is fixed to 1 / a row  x[(u,v,i)] == 1  only for a non-SCC edge that occurs in the safe list of layer i;
      * with safety-as-subset-constraints the safe lists (and nothing else) are appended to the subset constraints, no variable is touched;
      * ValueError only if a non-SCC edge occurs more than once in a list (impossible for a list a walk can contain).
    The safe lists themselves (maximal_safe_sequences_via_dominators, get_longest_incompatible_sequences) are callee results: arbitrary lists here;
    their safety / incompatibility is decided by the bounded oracle.  Counter is trusted (keys = the distinct elements, value = number of occurrences)."""
    st = {}
    PT, PH = z3.Function("list_edge_tail", INT, INT, INT), z3.Function("list_edge_head", INT, INT, INT)
    PLEN = z3.Function("list_length", INT, INT)
    KT, KH, NK = z3.Function("counter_key_tail", INT, INT, INT), z3.Function("counter_key_head", INT, INT, INT), z3.Function("counter_size", INT, INT)
    OCC = z3.Function("occurrences_in_list", INT, INT, INT, INT)        # (layer, tail, head)
    SCC = z3.Function("is_scc_edge", INT, INT, BOOL)

    def listed(i, u, v):
        j = z3.Int("lj")
        return z3.Exists([j], z3.And(j >= 0, j < PLEN(i), PT(i, j) == u, PH(i, j) == v))

    class Var:
        def __init__(self, u, v, i): self.k = (lift(u), lift(v), lift(i))
        def __eq__(self, o): return ("eq", self.k, o)
        def __ge__(self, o): return ("ge", self.k, o)
        __hash__ = None

    class EdgeVars:
        def __getitem__(self, key): return Var(*key)

    def layer_ok(i):
        return z3.And(i >= 0, i < st["nW"], i < st["k"])

    class SolverStub:
        def _lower(self, k, m, how):
            c = core.ctx()
            u, v, i = k
            m = lift(m)
            c.prove("%s:lower-bound-only-for-an-edge-of-the-layer's-safe-list,-at-most-its-number-of-occurrences" % how,
                    z3.And(listed(i, u, v), m <= OCC(i, u, v)), prop=P, kind="xpost")
            c.prove("%s(auxiliary):SCC-edge,-the-bound-is-exactly-the-number-of-occurrences,-layer-in-range" % how, z3.And(SCC(u, v), m == OCC(i, u, v), layer_ok(i)), prop=None, kind="xpost")

        def _one(self, k, val, how):
            c = core.ctx()
            u, v, i = k
            c.prove("%s:fixed-to-1-only-for-a-non-SCC-edge-of-the-layer's-safe-list" % how, z3.And(listed(i, u, v), z3.Not(SCC(u, v)), lift(val) == 1), prop=P, kind="xpost")
            c.prove("%s(auxiliary):layer-in-range" % how, layer_ok(i), prop=None, kind="xpost")

        def queue_set_var_lower_bound(self, var, m): self._lower(var.k, m, "queue_set_var_lower_bound")
        def queue_fix_variable(self, var, val): self._one(var.k, val, "queue_fix_variable")

        def add_constraint(self, row, name=None):
            if not (isinstance(row, tuple) and row[0] in ("eq", "ge")):
                raise Unsupported("add_constraint with an expression other than edge_vars[...] (==|>=) constant")
            (self._one if row[0] == "eq" else self._lower)(row[1], row[2], "add_constraint")

    class Sink(dict):
        def __setitem__(self, k, v): pass

    def list_at(i):
        i = lift(i)
        return SymSeq(PLEN(i), lambda j: (Sym(PT(i, lift(j))), Sym(PH(i, lift(j)))), ESH, "safe_list")

    class CounterStub:
        def __init__(self, walk):
            self.i = st["layer"]()
        def items(self):
            i = self.i
            c = core.ctx()
            j = z3.Int("cj")
            # Counter semantics (trusted): every key is an element of the list, its value is the number of its occurrences (>= 1)
            c.assume(z3.ForAll([j], z3.Implies(z3.And(j >= 0, j < NK(i)), z3.And(listed(i, KT(i, j), KH(i, j)), OCC(i, KT(i, j), KH(i, j)) >= 1))))
            c.assume(NK(i) >= 0)
            return SymSeq(NK(i), lambda q: ((Sym(KT(i, lift(q))), Sym(KH(i, lift(q)))), Sym(OCC(i, KT(i, lift(q)), KH(i, lift(q))))), None, "counter.items")

    class OpaqueList:
        """a list whose elements this function never looks at: length + the record of what was appended (by identity)"""
        def __init__(self, n, name, appended=()):
            self.n, self.name, self.appended = lift(n), name, list(appended)
        def __iadd__(self, other):
            self.n = self.n + lift(other.n)
            self.appended.append(getattr(other, "name", "?"))
            return self
        def __add__(self, other):            # a new list with the same beginning: `x = x + y` is as good as `x += y`
            return OpaqueList(self.n + lift(other.n), self.name, self.appended + [getattr(other, "name", "?")])

    class Dom:
        @staticmethod
        def maximal_safe_sequences_via_dominators(G=None, X=None):
            st["dom_called"] = True
            return st["SL"]

    class GStub:
        def is_scc_edge(self, u, v): return Sym(SCC(lift(u), lift(v)))

    def h(c, f):
        nW, k, nS, nC = c.fresh_const("n_walks_to_fix", INT), c.fresh_const("k", INT), c.fresh_const("n_safe_lists", INT), c.fresh_const("n_subset_constraints", INT)
        c.assume(z3.And(nW >= 0, nS >= 0, nC >= 0))
        a = z3.Int("ha")
        c.assume(z3.ForAll([a], PLEN(a) >= 0))
        st.update(nW=nW, k=k, dom_called=False, mk_empty=lambda: OpaqueList(0, "safe_lists"))
        SLT, SLH, SLL = z3.Function("safe_list_tail", INT, INT, INT), z3.Function("safe_list_head", INT, INT, INT), z3.Function("safe_list_len", INT, INT)
        st["SL"] = OpaqueList(nS, "maximal_safe_sequences_via_dominators()")
        SC = OpaqueList(nC, "subset_constraints")
        calls = []

        class Me(Tracked):
            def _get_walks_to_fix_from_safe_lists(self):
                calls.append("walks_to_fix")
                return SymSeq(nW, lambda i: list_at(i), None, "walks_to_fix")
            def _apply_safety_optimizations_fix_zero_edges(self):
                calls.append("fix_zero")
        me = Me()
        flags = {}
        for nm in ("optimize_with_safe_sequences", "optimize_with_safety_as_subset_constraints", "optimize_with_max_safe_antichain_as_subset_constraints",
                   "optimize_with_safe_sequences_fix_zero_edges", "optimize_with_safe_sequences_allow_geq_constraints", "optimize_with_safe_sequences_fix_via_bounds"):
            flags[nm] = c.fresh_const(nm, BOOL)
            setattr(me, nm, Sym(flags[nm]))
        me.k, me.G, me.solver, me.edge_vars = Sym(k), GStub(), SolverStub(), EdgeVars()
        me.edges_set_to_one, me.solve_statistics, me.trusted_edges_for_safety = Sink(), {}, None
        me.subset_constraints = SC
        sc0_n = SC.n
        st["me"] = me
        try:
            f(me)
        except ValueError:
            i, q = z3.Ints("vi vq")
            c.prove("xpost:ValueError-only-if-a-non-SCC-edge-occurs-more-than-once-in-a-safe-list",
                    z3.Exists([i, q], z3.And(i >= 0, i < nW, q >= 0, q < NK(i), z3.Not(SCC(KT(i, q), KH(i, q))), OCC(i, KT(i, q), KH(i, q)) != 1)), prop=P, kind="xpost")
            return
        any_opt = z3.Or(flags["optimize_with_safe_sequences"], flags["optimize_with_safety_as_subset_constraints"], flags["optimize_with_max_safe_antichain_as_subset_constraints"])
        c.prove("post:safe-sequences-are-computed-iff-some-safety-option-is-on", z3.BoolVal(st["dom_called"]) == any_opt, prop=None)
        sc = me.subset_constraints
        c.prove("post:the-subset-constraints-still-begin-with-the-caller's-constraints", z3.BoolVal(isinstance(sc, OpaqueList) and sc.name == "subset_constraints"), prop=P)
        safe_only = all(x in ("safe_lists", "walks_to_fix") for x in sc.appended)
        c.prove("post:only-collections-of-safe-sequences-are-ever-appended-to-the-subset-constraints", z3.BoolVal(safe_only), prop=P)
        if "walks_to_fix" not in calls:
            c.prove("post(auxiliary):without-walks-to-fix-only-safety-as-subset-constraints-returns-early", flags["optimize_with_safety_as_subset_constraints"], prop=None)
            c.prove("post(auxiliary):safety-as-subset-constraints-appends-exactly-the-safe-lists", z3.BoolVal(sc.appended == ["safe_lists"]), prop=None)
        else:
            c.prove("post(auxiliary):zero-fixing-runs-iff-its-option-is-on", z3.BoolVal("fix_zero" in calls) == flags["optimize_with_safe_sequences_fix_zero_edges"], prop=None)
            want = z3.If(flags["optimize_with_max_safe_antichain_as_subset_constraints"], 1, 0)
            c.prove("post(auxiliary):subset-constraints-grow-exactly-by-the-antichain-of-walks-to-fix-when-that-option-is-on",
                    z3.And(z3.BoolVal(all(x == "walks_to_fix" for x in sc.appended)), z3.IntVal(len(sc.appended)) == want), prop=None)

    def inv0(ns, seq, done):
        st["i_cur"] = lift(done)
        return {}
    st["layer"] = lambda: st["i_cur"]
    tmp = ("u", "v", "m", "walk", "edge_multiplicities")
    loops = {0: dict(inv=inv0, prop=P, keep=tmp), 1: dict(inv=lambda ns, seq, done: {}, prop=P, keep=tmp)}
    empty = lambda: st["mk_empty"]()
    return Unit("flowpaths/abstractwalkmodeldigraph.py", "AbstractWalkModelDiGraph._apply_safety_optimizations", h,
                globs=dict(utils=UtilsStub, safetypathcoverscycles=Dom, Counter=CounterStub, min=min_), loops=loops, props=[P], literals=dict(list=empty),
                assumptions=["collections.Counter: keys = distinct elements of the list, value = number of occurrences (trusted)",
                             "A4'' (not proved): a walk that contains a safe list as a subsequence traverses each listed edge at least as often as it is listed, and an edge "
                             "outside every SCC at most once",
                             "callee results (safe sequences, walks to fix) are arbitrary lists here; their safety / incompatibility is decided by the bounded oracle"],
                abstractions=["node names are integers compared by ==", "subset constraints are opaque list elements", "statistics counters are plain integers"])


def u_flow_safe_paths():
    """safetyflowdecomp.compute_inexact_flow_decomp_safe_paths: the two-pointer algorithm over one decomposition path.
    With  leak(j) = (sum of the upper bounds leaving path[j]) - upper(path[j], path[j+1])  and
          excess(L, R) = lower(path[L], path[L+1]) - sum of leak(j) for L < j < R                (0 for L = R)
    ensures (property clauses): the running value `inexact_excess` IS excess(L, R) for the current window; every reported path is a window path[L..R] with
        L < R of the given decomposition path whose excess is POSITIVE (the safety criterion of the cited papers: A4f, assumed); the edge lists returned
        are the consecutive pairs of the reported windows; the two `assert`s of the code hold; ValueError exactly for a path edge with negative lower bound,
        lower > upper, or upper = 0.
    ensures (auxiliary): a reported window cannot be extended to the right (its excess would drop to <= 0, or the path ends)."""
    st = {}
    PN = z3.Function("path_node", INT, INT)
    LB, UB = z3.Function("lower_bound", INT, INT, z3.RealSort()), z3.Function("upper_bound", INT, INT, z3.RealSort())
    OUTSUM = z3.Function("sum_of_upper_bounds_leaving", INT, z3.RealSort())
    S = z3.Function("leak_prefix_sum", INT, z3.RealSort())
    REAL_ = z3.RealSort()

    def lbv(j): return LB(PN(j), PN(j + 1))
    def ubv(j): return UB(PN(j), PN(j + 1))
    def leak(j): return OUTSUM(PN(j)) - ubv(j)
    def exc(L, R): return z3.If(L == R, z3.RealVal(0), lbv(L) - (S(R) - S(L + 1)))

    class Attr:
        def __init__(self, u, v): self.u, self.v = lift(u), lift(v)
        def __contains__(self, a): return True                         # requires: both attributes are present on the path edges
        def __getitem__(self, a): return Sym((LB if a == "lo" else UB)(self.u, self.v))

    class EdgeView:
        def __getitem__(self, key): return Attr(key[0], key[1])

    class OutEdges(SymSeq):
        pass

    class GS:
        edges = EdgeView()
        @staticmethod
        def out_edges(x):
            x = lift(x)
            c = core.ctx()
            n = c.fresh_const("out_degree", INT)
            c.assume(n >= 0)
            hd = z3.Function(c.name("out_head"), INT, INT)
            s_ = OutEdges(n, lambda q: (Sym(x), Sym(hd(lift(q)))), ESH, "out_edges")
            s_.outnode = x
            return s_

    def sum__(it):
        from pyvc.heap import LazyMap
        if isinstance(it, LazyMap) and isinstance(it.seq, OutEdges) and it.flt is None:
            c = core.ctx()
            q = c.fresh_const("arbitrary_out_edge", INT)
            el = it.seq._at(q)
            if c._valid(lift(it.fn(el)) == UB(lift(el[0]), lift(el[1]))):      # the summand is the upper bound of the out-edge
                return Sym(OUTSUM(it.seq.outnode))
            raise Unsupported("sum over the out-edges of something else than their upper bounds")
        from pyvc.rt import BUILTINS
        return BUILTINS["sum"](it)

    class Deque:
        """safe_path: always a window path[lo..hi] of the current path (checked at every append)"""
        def __init__(self): self.lo, self.hi = None, None
        def append(self, x):
            c = core.ctx()
            if self.lo is None:
                c.prove("row:the-window-starts-at-the-first-node-of-the-path", lift(x) == PN(0), prop=P, kind="xpost")
                self.lo = self.hi = z3.IntVal(0)
                return
            c.prove("row:the-node-appended-to-the-window-is-the-next-node-of-the-path", lift(x) == PN(self.hi + 1), prop=P, kind="xpost")
            self.hi = self.hi + 1
        def popleft(self):
            self.lo = self.lo + 1
        def copy(self):
            lo, hi = self.lo, self.hi
            w = SymSeq(hi - lo + 1, lambda q: Sym(PN(lo + lift(q))), SInt, "window")
            w.lo, w.hi = lo, hi
            return w
        def length(self): return Sym(self.hi - self.lo + 1)

    def len__(x):
        if isinstance(x, Deque):
            return x.length()
        from pyvc.rt import BUILTINS
        return BUILTINS["len"](x)

    class Reported(list):
        def append(self, w):
            c = core.ctx()
            L, R = st["L"](), st["R"]()
            c.prove("row:a-reported-path-is-the-current-window-path[L..R]-with-L<R", z3.And(w.lo == L, w.hi == R, L < R, L >= 0, R <= st["n"] - 1), prop=P, kind="xpost")
            c.prove("row:a-reported-path-has-positive-excess-flow", exc(L, R) > 0, prop=P, kind="xpost")
            c.prove("row(auxiliary):a-reported-path-cannot-be-extended-to-the-right", z3.Or(R + 1 >= st["n"], exc(L, R) - leak(R) <= 0), prop=None, kind="xpost")
            list.append(self, w)

    def zip__(a, b):
        if not isinstance(a, SymSeq):
            return zip(a, b)
        n = z3.If(a.n <= b.n, a.n, b.n)
        return SymSeq(n, lambda q: (a._at(q), b._at(q)), ESH, "zip")

    # ---- concrete instances: the same extracted body, natively (real networkx graph, real deque), on small exact flows; compared with the windows of positive
    #      excess found by brute force (maximal ones, one per left end unless it is a suffix of the previous one)
    FLOWS = [
        ([("s", "a", 5), ("a", "b", 3), ("a", "c", 2), ("b", "t", 3), ("c", "t", 2)], [["s", "a", "b", "t"], ["s", "a", "c", "t"]]),
        ([("s", "a", 4), ("a", "b", 4), ("b", "c", 1), ("b", "d", 3), ("c", "t", 1), ("d", "t", 3)], [["s", "a", "b", "d", "t"], ["s", "a", "b", "c", "t"]]),
        ([("s", "a", 6), ("a", "b", 2), ("a", "c", 4), ("b", "d", 2), ("c", "d", 4), ("d", "e", 5), ("d", "f", 1), ("e", "t", 5), ("f", "t", 1)],
         [["s", "a", "c", "d", "e", "t"], ["s", "a", "b", "d", "e", "t"], ["s", "a", "b", "d", "f", "t"]]),
        ([("s", "t", 7)], [["s", "t"]]),
        ([("s", "a", 2.5), ("a", "t", 1.5), ("a", "b", 1.0), ("b", "t", 1.0)], [["s", "a", "t"], ["s", "a", "b", "t"]]),
    ]

    def instances():
        out = []
        for E, paths in FLOWS:
            def hc(c, f, E=E, paths=paths):
                import networkx
                g = networkx.DiGraph()
                for a, b, w in E:
                    g.add_edge(a, b, lo=w, hi=w)
                st.clear()
                st["concrete"] = True
                rt_ = f.__globals__["__pv"]
                rt_.native_whiles, rt_._ticks, rt_.native_budget = True, 0, 5000
                try:
                    got = f(g, "lo", "hi", [list(p) for p in paths], False)
                finally:
                    st["concrete"] = False
                flow = {(a, b): w for a, b, w in E}
                outsum = {v: sum(w for (a, b), w in flow.items() if a == v) for v in g}
                want = []
                for p in paths:
                    prevR = 0
                    for L in range(len(p) - 1):
                        ex, R = flow[(p[L], p[L + 1])], L + 1
                        while R + 1 < len(p) and ex - (outsum[p[R]] - flow[(p[R], p[R + 1])]) > 0:
                            ex -= outsum[p[R]] - flow[(p[R], p[R + 1])]
                            R += 1
                        if R > prevR:
                            want.append([(p[i], p[i + 1]) for i in range(L, R)])
                        prevR = R
                norm = lambda ls: sorted(tuple(tuple(e) for e in x) for x in ls)
                c.prove("instance:the-reported-paths-are-exactly-the-maximal-windows-of-positive-excess-of-the-decomposition-paths", z3.BoolVal(norm(got) == norm(want)), prop=P,
                        info=dict(got=str(norm(got))[:300], want=str(norm(want))[:300]))
            out.append(("exact flow %s, decomposition %s" % (E, paths), hc))
        return out

    def edge_ok(j): return z3.And(lbv(j) >= 0, lbv(j) <= ubv(j), ubv(j) != 0)

    def inv_validate(ns, seq, done):
        j = z3.Int("vj")
        return {"path-edges-checked-so-far-have-0<=lower<=upper-and-upper!=0": z3.ForAll([j], z3.Implies(z3.And(j >= 0, j < lift(done)), edge_ok(j)))}

    def window(ns):
        L, R, e, sp = lift(ns["L"]), lift(ns["R"]), lift(ns["inexact_excess"]), ns["safe_path"]
        e = z3.ToReal(e) if e.sort() == INT else e
        pn = ns["path_not_suffix_of_previous"]
        pn = lift(pn) if isinstance(pn, Sym) else z3.BoolVal(bool(pn))
        return L, R, e, sp, pn

    def inv_outer(ns, seq, done):
        L, R, e, sp, pn = window(ns)
        st["L"], st["R"] = (lambda: lift(ns["L"])), (lambda: lift(ns["R"]))
        return {"window:0<=L<=R<n,-safe_path=path[L..R]": z3.And(L >= 0, L <= R, R < st["n"], sp.lo == L, sp.hi == R),
                "inexact_excess=excess(L,R)": e == exc(L, R),
                "a-window-with-an-edge-that-is-about-to-be-reported-has-positive-excess": z3.Implies(z3.And(pn, L < R), exc(L, R) > 0)}

    def inv_inner(ns, seq, done):
        cl = inv_outer(ns, seq, done)
        L, R, e, sp, pn = window(ns)
        cl["the-window-has-at-least-one-edge-while-it-is-extended"] = L < R
        cl["a-window-that-will-be-reported-has-positive-excess"] = z3.Implies(pn, exc(L, R) > 0)
        return cl

    def inv_edges(ns, seq, done):
        spe, sp = ns["safe_path_edges"], ns["safe_path"]
        j = z3.Int("cj")
        if not isinstance(spe, SymSeq):
            return {"no-edge-yet": lift(done) == 0}
        return {"edges-so-far=consecutive-pairs-of-the-reported-window": z3.And(spe.n == lift(done), z3.ForAll([j], z3.Implies(z3.And(j >= 0, j < lift(done)), z3.And(
            lift(spe._at(j)[0]) == lift(sp._at(j)), lift(spe._at(j)[1]) == lift(sp._at(j + 1))))))}

    def h(c, f):
        n = c.fresh_const("path_length", INT)
        c.assume(n >= 0)
        st.clear()
        st["n"] = n
        q, q2 = z3.Ints("hq hq2")
        c.assume(S(0) == 0)
        c.assume(z3.ForAll([q], z3.Implies(q >= 0, S(q + 1) == S(q) + leak(q))))                 # definition of the ghost prefix sum of the leaks
        c.assume(z3.ForAll([q, q2], z3.Implies(z3.And(q >= 0, q < q2, q2 < n), PN(q) != PN(q2))))  # a path of a DAG visits no node twice
        c.assume(z3.ForAll([q], z3.Implies(z3.And(q >= 0, q < n - 1), lbv(q) > 0)))               # requires (C06 speaks of flows): positive lower bounds on the path edges
        st["idx_of"] = lambda x: st["L"]() if "L" in st else z3.IntVal(0)
        path = SymSeq(n, lambda j: Sym(PN(lift(j))), SInt, "path")
        st["first"] = True
        try:
            out = f(GS, "lo", "hi", [path], False)
        except ValueError:
            c.prove("xpost:ValueError-only-for-a-path-edge-with-negative-lower-bound,-lower>upper-or-upper=0", z3.Exists([q], z3.And(q >= 0, q < n - 1, z3.Not(edge_ok(q)))), prop=P, kind="xpost")
            return

        c.prove("post:normal-return-only-if-every-path-edge-has-0<=lower<=upper,-upper!=0", z3.ForAll([q], z3.Implies(z3.And(q >= 0, q < n - 1), edge_ok(q))), prop=P)
        ok = isinstance(out, list) and all(isinstance(x, SymSeq) for x in out)
        c.prove("post:the-result-is-a-list-of-edge-lists", z3.BoolVal(ok), prop=P)
        if ok:
            rep = st.get("reported", [])
            c.prove("post:one-edge-list-per-reported-path", z3.BoolVal(len(out) == len(rep)), prop=P)
            for el, w in zip(out, rep):
                j = z3.Int("pj")
                c.prove("post:each-edge-list-is-the-consecutive-pairs-of-its-reported-window", z3.And(el.n == w.n - 1, z3.ForAll([j], z3.Implies(z3.And(j >= 0, j < el.n), z3.And(
                    lift(el._at(j)[0]) == PN(w.lo + j), lift(el._at(j)[1]) == PN(w.lo + j + 1))))), prop=P)

    def new_list():
        # list displays in source order: safe_paths_list, then (per reported path) safe_path_edges, and safe_paths_list_edges
        if st.get("concrete"):
            return []
        k = st.get("nlists", 0)
        st["nlists"] = k + 1
        if k == 0:
            st["reported"] = Reported()
            return st["reported"]
        if st.get("want_edges"):
            st["want_edges"] = False
            return SymSeq(z3.IntVal(0), lambda j: (Sym(z3.IntVal(0)), Sym(z3.IntVal(0))), ESH, "safe_path_edges")
        return []

    def enter_conv(ns, it=None):
        pass

    def enter_main(ns, it=None):
        pass

    # the precondition under which C06 speaks about this function: exact positive flows (lower = upper > 0) - stated as: lower > 0 on path edges
    def inv_outer_pre(ns, seq, done):
        cl = inv_outer(ns, seq, done)
        return cl

    hv_seq = lambda old: SymSeq.fresh("safe_path_edges", ESH)
    ident = lambda old: old          # the containers of reported paths keep their identity; what is put into them is checked at the moment it is put in

    def some_reported(old):
        """after any number of iterations the list holds reported windows; ONE arbitrary window stands for them in the conversion loops that follow
        (what a window must satisfy was checked when it was put in; the conversion only needs lo < hi)"""
        c = core.ctx()
        lo, hi = c.fresh_const("reported_lo", INT), c.fresh_const("reported_hi", INT)
        c.assume(z3.And(lo >= 0, lo < hi, hi <= st["n"] - 1))
        w = SymSeq(hi - lo + 1, lambda q: Sym(PN(lo + lift(q))), SInt, "window")
        w.lo, w.hi = lo, hi
        del old[:]
        list.append(old, w)
        return old

    def dq_havoc(old):
        d = Deque()
        c = core.ctx()
        d.lo, d.hi = c.fresh_const("window_lo", INT), c.fresh_const("window_hi", INT)
        return d

    class DequeFactory:
        def __call__(self):
            if st.get("concrete"):
                from collections import deque as real_deque
                return real_deque()
            return Deque()

    loops = {1: dict(inv=inv_validate, prop=P, keep=("u", "v", "flow_attr")),
             4: dict(inv=inv_outer, prop=P, havoc={"safe_path": dq_havoc, "safe_paths_list": some_reported, "safe_paths_set": ident}, keep=("rightdiff",)),
             5: dict(inv=inv_inner, prop=P, havoc={"safe_path": dq_havoc, "safe_paths_list": ident, "safe_paths_set": ident}, keep=("rightdiff",)),
             7: dict(inv=inv_edges, prop=P, havoc={"safe_path_edges": hv_seq}, on_entry=lambda ns, it=None: None)}
    return Unit("flowpaths/utils/safetyflowdecomp.py", "compute_inexact_flow_decomp_safe_paths", h,
                globs=dict(utils=UtilsStub, deque=DequeFactory(), sum=sum__, len=len__, zip=zip__, set=lambda: set()), loops=loops, props=[P], literals=dict(list=new_list), instances=instances,
                assumptions=["A4f (not proved; Khan et al. / the papers cited in the source): a path of positive excess flow is contained in some path of every flow decomposition",
                             "requires: both bound attributes are present on the path edges; the path visits no node twice (DAG); lower bounds on the path edges are positive (C06 speaks of flows; "
                             "with a lower bound of 0 the function reports a single edge of excess 0 - an observation outside the property, see DESIGN 7.4)",
                             "one decomposition path of arbitrary length per call (the outer loops over the list of paths run natively)"],
                abstractions=["nodes are integers; the window `safe_path` is its pair of indices into the path; sums over out-edges are the function sum_of_upper_bounds_leaving (the summand is checked to be the upper bound)"])


def all_units():
    # The DAG twin (AbstractPathModelDAG._apply_safety_optimizations_fix_zero_edges) is NOT registered: on the pinned tree it is unreachable
    # (`paths_to_fix` is only set by _apply_safety_optimizations, which no DAG model calls; the DAG models fix safe paths inside _encode_paths) and
    # it calls a reachability API stDAG does not have (nodes_reaching(x) / nodes_reachable(x) are stDiGraph methods; stDAG exposes dict
    # properties), so it would raise if it were ever reached.  u_fix_zero_edges(..., dag=True) verifies against the same contract should it be revived.
    # safetypathcovers.get_endpoints_of_longest_safe_path_in is likewise called by nothing and is not under contract.
    return [u_process_edge(),
            u_fix_zero_edges("flowpaths/abstractwalkmodeldigraph.py", "AbstractWalkModelDiGraph._apply_safety_optimizations_fix_zero_edges", "walks_to_fix", False),
            u_apply_safety_walk(), u_flow_safe_paths()]
