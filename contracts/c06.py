"""Sidecar contracts for C06 (proof piece): safetypathcovers.safe_paths.process_edge (the nested function that builds the safe path of an edge).

ensures  the result is a contiguous path of edges of G that contains e; every edge placed BEFORE e enters a node of in-degree 1, every edge
         placed AFTER e leaves a node of out-degree 1.   (Safety of such a path for {e} is then the two-line argument: any route through e
         must enter u through its only in-edge and leave v through its only out-edge - A4, not proved here.)
Termination of the two extension loops (needs acyclicity) is not proved."""
import z3
from pyvc import core
from pyvc.core import Sym, lift, INT, BOOL, Unsupported
from pyvc.heap import SymSeq, SInt, STuple
from pyvc.unit import Unit, NoopLogger

P = "C06"
EDGE = z3.Function("is_edge", INT, INT, BOOL)
INDEG, OUTDEG = z3.Function("in_degree", INT, INT), z3.Function("out_degree", INT, INT)
PRED, SUCC = z3.Function("the_predecessor", INT, INT), z3.Function("the_successor", INT, INT)
ESH = STuple(SInt, SInt)


class _It:
    def __init__(self, kind, v):
        self.kind, self.v = kind, v


def next_(it):
    if isinstance(it, _It):
        c = core.ctx()
        v = lift(it.v)
        if it.kind == "pred":
            if not c.decide(INDEG(v) >= 1, "has-a-predecessor"):
                raise StopIteration
            c.assume(EDGE(PRED(v), v))
            return Sym(PRED(v))
        if not c.decide(OUTDEG(v) >= 1, "has-a-successor"):
            raise StopIteration
        c.assume(EDGE(v, SUCC(v)))
        return Sym(SUCC(v))
    return next(it)


class G:
    @staticmethod
    def in_degree(v): return Sym(INDEG(lift(v)))
    @staticmethod
    def out_degree(v): return Sym(OUTDEG(lift(v)))
    @staticmethod
    def predecessors(v): return _It("pred", v)
    @staticmethod
    def successors(v): return _It("succ", v)


def u_process_edge():
    st = {}

    def as_seq(p):
        if isinstance(p, SymSeq):
            return p
        from pyvc.rt import concrete_to_seq
        return concrete_to_seq(list(p)) if len(p) else SymSeq(z3.IntVal(0), lambda j: (Sym(z3.IntVal(0)), Sym(z3.IntVal(0))), ESH)

    def inv_back(ns, seq, done):
        p = as_seq(ns["path"])
        u = lift(ns["u"])
        j = z3.Int("jb")
        a = lambda q: lift(p._at(q)[0])
        b = lambda q: lift(p._at(q)[1])
        n = p.n
        return {"backward-chain-starts-at-the-tail-of-e-and-is-contiguous(reversed)": z3.And(
                    z3.Implies(n > 0, b(0) == st["u0"]), z3.ForAll([j], z3.Implies(z3.And(j >= 1, j < n), b(j) == a(j - 1))),
                    u == z3.If(n > 0, a(n - 1), st["u0"])),
                "every-prepended-edge-is-an-edge-entering-a-node-of-in-degree-1": z3.ForAll([j], z3.Implies(z3.And(j >= 0, j < n), z3.And(EDGE(a(j), b(j)), INDEG(b(j)) == 1)))}

    def on_entry_fwd(ns, it=None):
        st["k"] = as_seq(ns["path"]).n - 1                 # position of e in the final path

    def inv_fwd(ns, seq, done):
        p = as_seq(ns["path"])
        v = lift(ns["v"])
        j = z3.Int("jf")
        a = lambda q: lift(p._at(q)[0])
        b = lambda q: lift(p._at(q)[1])
        n, k = p.n, st["k"]
        return {"path-is-contiguous-and-ends-at-the-current-node": z3.And(n >= 1, k >= 0, k < n, z3.ForAll([j], z3.Implies(z3.And(j >= 0, j < n - 1), b(j) == a(j + 1))), v == b(n - 1)),
                "e-sits-at-its-position": z3.And(a(k) == st["u0"], b(k) == st["v0"]),
                "edges-before-e-enter-in-degree-1-nodes": z3.ForAll([j], z3.Implies(z3.And(j >= 0, j < k), z3.And(EDGE(a(j), b(j)), INDEG(b(j)) == 1))),
                "edges-after-e-leave-out-degree-1-nodes": z3.ForAll([j], z3.Implies(z3.And(j > k, j < n), z3.And(EDGE(a(j), b(j)), OUTDEG(a(j)) == 1)))}

    def h(c, f):
        u0, v0 = z3.Ints("e_tail e_head")
        c.assume(EDGE(u0, v0))
        st.update(u0=u0, v0=v0)
        try:
            res = f((Sym(u0), Sym(v0)))
        except StopIteration:
            c.prove("xpost:next()-is-only-called-on-a-non-empty-neighbourhood", False, prop=P, kind="xpost")
            return
        p = as_seq(res)
        j = z3.Int("jp")
        a = lambda q: lift(p._at(q)[0])
        b = lambda q: lift(p._at(q)[1])
        k = st["k"]
        c.prove("post:contiguous-path-of-edges-containing-e", z3.And(p.n >= 1, k >= 0, k < p.n, a(k) == u0, b(k) == v0,
                                                                      z3.ForAll([j], z3.Implies(z3.And(j >= 0, j < p.n - 1), b(j) == a(j + 1))),
                                                                      z3.ForAll([j], z3.Implies(z3.And(j >= 0, j < p.n, j != k), EDGE(a(j), b(j))))), prop=P)
        c.prove("post:left-extension-only-through-unique-in-edges", z3.ForAll([j], z3.Implies(z3.And(j >= 0, j < k), INDEG(b(j)) == 1)), prop=P)
        c.prove("post:right-extension-only-through-unique-out-edges", z3.ForAll([j], z3.Implies(z3.And(j > k, j < p.n), OUTDEG(a(j)) == 1)), prop=P)

    hv = lambda old: SymSeq.fresh("path", ESH)
    loops = {0: dict(inv=inv_back, prop=P, havoc={"path": hv}, keep=("x",)),
             1: dict(inv=inv_fwd, prop=P, on_entry=on_entry_fwd, havoc={"path": hv}, keep=("x",))}
    return Unit("flowpaths/utils/safetypathcovers.py", "safe_paths.process_edge", h, globs=dict(G=G, no_duplicates=False, next=next_), loops=loops, props=[P],
                assumptions=["a node of in-degree (out-degree) >= 1 has a predecessor (successor) edge; next(G.predecessors(u)) returns one",
                             "A4 (not proved): a path extended only through unique in-/out-edges is safe for {e}", "termination of the extension loops not proved"],
                abstractions=["nested function extracted on its own; its free variables G and no_duplicates are bound in the sidecar"])


def all_units():
    return [u_process_edge()]
