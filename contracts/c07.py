"""Sidecar contracts for C07 / C08 (proof pieces): the reported objective is recomputed from the solution the way the model's objective is defined.
  k-Least-Absolute-Errors:  get_objective_value() = sum over edges of  error_scaling(edge, default 1) * edge_error(edge)
  k-Min-Path-Error:         get_objective_value() = sum of the path/walk slacks"""
import z3
from pyvc import core
from pyvc.core import Sym, lift, INT, REAL, BOOL, Unsupported
from pyvc.heap import SymSeq, SymMap, SInt, SReal, STuple
from pyvc.rt import Tracked
from pyvc.unit import Unit, NoopLogger


class UtilsStub:
    logger = NoopLogger()


EDGE = STuple(SInt, SInt)


def _lae(relpath, cls):
    def h(c, f):
        class Me(Tracked):
            pass
        me = Me()
        me.check_is_solved = lambda: None
        ERR = z3.Function("edge_error", INT, INT, REAL)
        SC = z3.Function("scaling_factor", INT, INT, REAL)
        HASSC = z3.Function("has_scaling", INT, INT, BOOL)
        INSOL = z3.Function("edge_in_solution", INT, INT, BOOL)
        errors = SymMap(EDGE, SReal, lambda k: INSOL(lift(k[0]), lift(k[1])), lambda k: Sym(ERR(lift(k[0]), lift(k[1]))), "edge_errors")
        me.edge_error_scaling = SymMap(EDGE, SReal, lambda k: HASSC(lift(k[0]), lift(k[1])), lambda k: Sym(SC(lift(k[0]), lift(k[1]))), "edge_error_scaling")
        me.get_solution = lambda *a, **k: {"edge_errors": errors}
        r = f(me)
        S = c.sums[-1]
        c.assume(S.defn())
        en = errors.enum()
        j = z3.Int("jo")
        key = lambda q: en._at(q)
        term = lambda q: ERR(lift(key(q)[0]), lift(key(q)[1])) * z3.If(HASSC(lift(key(q)[0]), lift(key(q)[1])), SC(lift(key(q)[0]), lift(key(q)[1])), z3.RealVal(1))
        c.prove("post:objective-is-the-prefix-sum-over-all-solution-edges", z3.And(lift(r) == S.S(en.n), S.S(0) == 0), prop="C07")
        c.prove("post:each-edge-contributes-its-error-times-its-scaling-factor(default 1)", z3.Implies(z3.And(j >= 0, j < en.n), S.S(j + 1) == S.S(j) + term(j)), prop="C07")
    return Unit(relpath, cls + ".get_objective_value", h, globs=dict(utils=UtilsStub), props=["C07"],
                callee_contracts=["get_solution()['edge_errors'] (per-edge absolute errors read from the solver)"])


def _mpe(relpath, cls):
    def h(c, f):
        class Me(Tracked):
            pass
        me = Me()
        me.check_is_solved = lambda: None
        slacks = SymSeq.fresh("slacks", SReal)
        me._solution = {"slacks": slacks}
        me.get_solution = lambda *a, **k: me._solution
        r = f(me)
        S = c.sums[-1]
        j = z3.Int("js")
        c.assume(S.defn())          # meaning of sum(): S(j+1) = S(j) + (j-th summand as the real code computed it)
        c.prove("post:objective-is-the-sum-of-the-slacks", z3.And(lift(r) == S.S(slacks.n), S.S(0) == 0,
                                                                    z3.Implies(z3.And(j >= 0, j < slacks.n), S.S(j + 1) == S.S(j) + lift(slacks._at(j)))), prop="C08")
    return Unit(relpath, cls + ".get_objective_value", h, globs=dict(utils=UtilsStub), props=["C08"])


def all_units():
    return [_lae("flowpaths/kleastabserrors.py", "kLeastAbsErrors"), _lae("flowpaths/kleastabserrorscycles.py", "kLeastAbsErrorsCycles"),
            _mpe("flowpaths/kminpatherror.py", "kMinPathError"), _mpe("flowpaths/kminpatherrorcycles.py", "kMinPathErrorCycles")]
