"""Sidecar contracts for C09 (proof piece): stDAG.get_width caching clause - the cached width is read and written only when nothing is ignored;
with a non-empty ignore list the result is always the maximum-antichain value of the weight function that is 1 exactly on the non-ignored edges."""
from pyvc.unit import Unit, NoopLogger
from contracts.stubs import Poisoned, DataRead

P = "C09"


class U:
    logger = NoopLogger()


def u_stdag_get_width():
    EDGES = [("s", "a"), ("a", "b"), ("a", "c"), ("b", "t"), ("c", "t")]

    def h(c, f):
        def antichain(get_antichain=False, weight_function=None):
            return ("ANTICHAIN", tuple(sorted((weight_function or {}).items())), weight_function is None)
        full = ("ANTICHAIN", tuple(sorted((e, 1) for e in EDGES)), False)
        for cached in (None, "CACHED_WIDTH"):
            for ign in (None, [], [("a", "b")], [("a", "b"), ("c", "t")]):
                me = Poisoned(width=cached, edges=lambda: list(EDGES), compute_max_edge_antichain=antichain)
                tag = "cache=%s,ignore=%s" % ("set" if cached else "empty", ign)
                try:
                    r = f(me, ign)
                except DataRead as e:
                    c.prove("post[%s]:reads-only-width/edges/antichain" % tag, False, prop=P, info=dict(read=e.args[0]))
                    continue
                written = dict(object.__getattribute__(me, "_written"))
                if ign:
                    want = ("ANTICHAIN", tuple(sorted((e, 1) for e in EDGES if e not in ign)), False)
                    c.prove("post[%s]:width-of-the-non-ignored-edges-is-recomputed(cache not read)" % tag, r == want, prop=P, info=dict(got=str(r)))
                    c.prove("post[%s]:cache-not-written" % tag, "width" not in written, prop=P)
                else:
                    c.prove("post[%s]:%s" % (tag, "cached-value-returned" if cached else "full-width-computed"), r == (cached if cached else full), prop=P, info=dict(got=str(r)))
                    c.prove("post[%s]:cache-holds-the-full-width-afterwards" % tag, (written.get("width", cached)) == (cached if cached else full), prop=P)
    u = Unit("flowpaths/stdag.py", "stDAG.get_width", h, globs=dict(utils=U), props=[P],
                abstractions=["concrete scenario runs (cache empty/set x ignore list None/[]/1 edge/2 edges) on a poisoned self: any other attribute read is reported",
                              "compute_max_edge_antichain is an uninterpreted function of its weight function"])
    u.scenario = True           # every clause of this unit is a check on a concrete scenario: reported as bounded evaluations, not as discharged obligations
    return u


def u_stdigraph_get_width():
    """stDiGraph.get_width on REAL stDiGraph objects of small digraphs (concrete scenarios, the antichain routine replaced by an uninterpreted recorder):
    the weight function handed to the antichain routine is, for every ignore list tried,
        bundle between two SCCs            ->  its multiplicity minus the number of (distinct) ignored edges in it
        node edge of a non-trivial SCC     ->  0 if every member edge is ignored, else 1;   node edge of a trivial SCC -> 1
    the result is the routine's value for that function; the cached width is read / written only when nothing is ignored."""
    import z3
    GRAPHS = [
        [("s", "a"), ("a", "b"), ("b", "a"), ("a", "t"), ("b", "t")],
        [("s", "a"), ("a", "b"), ("b", "c"), ("c", "a"), ("a", "t"), ("b", "t"), ("c", "t")],
        [("s", "a"), ("s", "b"), ("a", "b"), ("b", "a"), ("a", "x"), ("x", "x"), ("x", "t"), ("b", "t")],
        [("s", "a"), ("a", "t"), ("s", "t")],
    ]

    def h(c, f):
        import itertools
        import networkx as nx
        import flowpaths as fp
        for gi, E in enumerate(GRAPHS):
            g = nx.DiGraph(E)
            scc_of = {}
            for i, comp in enumerate(nx.strongly_connected_components(g)):
                for v in comp:
                    scc_of[v] = i
            ign_lists = [None, []] + [[e] for e in E] + [list(p) for p in itertools.combinations(E, 2)]
            if gi == 1:
                ign_lists.append([("a", "t"), ("b", "t"), ("c", "t")])
                ign_lists.append([("a", "b"), ("b", "c"), ("c", "a")])
            for cached in (False, True):
                for ign in ign_lists:
                    H = fp.stDiGraph(g)
                    calls = []

                    def rec(get_antichain=False, weight_function=None, calls=calls):
                        calls.append(dict(weight_function))
                        return ("ANTICHAIN", len(calls))
                    H._condensation_expanded.compute_max_edge_antichain = rec
                    if cached:
                        H.condensation_width = "CACHED"
                    tag = "graph %d,cache=%s,ignore=%s" % (gi, "set" if cached else "empty", ign)
                    r = f(H, None if ign is None else [tuple(e) for e in ign])
                    if not ign:
                        if cached:
                            c.prove("post[%s]:cached-width-returned,-nothing-recomputed" % tag, z3.BoolVal(r == "CACHED" and not calls), prop=P)
                            continue
                        c.prove("post[%s]:the-full-width-is-cached" % tag, z3.BoolVal(H.condensation_width == r), prop=P)
                    else:
                        c.prove("post[%s]:cache-neither-read-nor-written" % tag, z3.BoolVal(H.condensation_width == ("CACHED" if cached else None) and r != "CACHED"), prop=P)
                    ok = len(calls) == 1 and r == ("ANTICHAIN", 1)
                    c.prove("post[%s]:result=the-antichain-routine's-value-for-one-weight-function" % tag, z3.BoolVal(ok), prop=P)
                    if not ok:
                        continue
                    wf = calls[0]
                    igs = set(tuple(e) for e in (ign or []))
                    # specification of the weights, from the graph alone; the names of the expanded edges are taken from the object (C17 / A2), their MEANING from the spec
                    want = {}
                    C = H._condensation
                    for (c1, c2) in C.edges():
                        bundle = [(u, v) for (u, v) in H.edges() if C.graph["mapping"][u] == c1 and C.graph["mapping"][v] == c2]
                        want[H._condensation_edge_to_condensation_expanded_edge(c1, c2)] = len(bundle) - len([e for e in bundle if e in igs])
                    for node in C.nodes():
                        members = [(u, v) for (u, v) in H.edges() if C.graph["mapping"][u] == node and C.graph["mapping"][v] == node]
                        want[(str(node), H._expanded(node))] = 0 if (members and all(e in igs for e in members)) else 1
                    got = {e: w for e, w in wf.items() if e in want or w != 0}
                    c.prove("post[%s]:weights=bundle-multiplicity-minus-ignored-edges;-node-edge-0-iff-every-member-edge-of-a-non-trivial-SCC-is-ignored" % tag,
                            z3.BoolVal(got == want), prop=P, info=dict(got=str(sorted(got.items()))[:300], want=str(sorted(want.items()))[:300]))
    import copy as _copy
    from vf.replay import replay_stdigraph_width
    u = Unit("flowpaths/stdigraph.py", "stDiGraph.get_width", h, globs=dict(utils=U, copy=_copy), props=[P], replay=replay_stdigraph_width,
                abstractions=["concrete scenario runs: 4 small digraphs (2-cycle and 3-cycle with bundles of 2 / 3 parallel inter-SCC edges, a self-loop SCC, a DAG) x (no list, empty list, every "
                              "single edge, every pair of edges, two triples) x (cache empty / set), on real stDiGraph objects; bounded in the scenario, not in the antichain routine",
                              "compute_max_edge_antichain is replaced by a recorder (uninterpreted); the names of the expanded edges are the object's own"],
                assumptions=["A2 networkx condensation: mapping / bundles as read from the object", "A4 (not proved): width = maximum weighted antichain of the expanded condensation"])
    u.scenario = True
    return u


def u_cover_lowerbound():
    """MinPathCoverCycles.get_lowerbound_k: the width of the s-t digraph built from THIS graph with the model's additional starts / ends, computed with the synthetic
    source / sink edges AND the ignored edges left out (the convention of every k-model); cached, a second call does not recompute."""
    import z3
    from pyvc.core import Sym, lift, INT
    from pyvc.rt import Tracked
    from pyvc import core

    def h(c, f):
        width = c.fresh_const("width_without_synthetic_and_ignored_edges", INT)
        calls = []

        class Union:
            def __init__(self, parts): self.parts = parts

        class SSE:
            def union(self, other): return Union(("source_sink_edges", "edges_to_ignore") if other is me.edges_to_ignore else ("source_sink_edges", "?"))

        class StG:
            def __init__(self, G, additional_starts=None, additional_ends=None):
                calls.append("build")
                c.prove("pre:the-s-t-digraph-is-built-from-this-graph-with-the-model's-additional-starts-and-ends",
                        z3.BoolVal(G is me.G and additional_starts is me.additional_starts and additional_ends is me.additional_ends), prop=P, kind="pre")
                self.source_sink_edges = SSE()
            def get_width(self, edges_to_ignore=None):
                calls.append("width")
                c.prove("pre:the-width-is-taken-with-the-synthetic-source/sink-edges-and-the-ignored-edges-left-out",
                        z3.BoolVal(isinstance(edges_to_ignore, Union) and edges_to_ignore.parts == ("source_sink_edges", "edges_to_ignore")), prop=P, kind="pre")
                return Sym(width)

        class Me(Tracked):
            pass
        me = Me()
        me._lowerbound_k = None
        me.G, me.additional_starts, me.additional_ends, me.edges_to_ignore = "GRAPH", ["S"], ["E"], ("IGN",)
        st["StG"] = StG
        r = f(me)
        c.prove("post:the-bound-is-that-width", lift(r) == width, prop=P)
        n0 = len(calls)
        r2 = f(me)
        c.prove("post:the-bound-is-cached:-a-second-call-returns-it-without-recomputing", z3.And(z3.BoolVal(len(calls) == n0), lift(r2) == width), prop=P)
    st = {}

    class Mod:
        @staticmethod
        def stDiGraph(G, additional_starts=None, additional_ends=None): return st["StG"](G, additional_starts=additional_starts, additional_ends=additional_ends)
    return Unit("flowpaths/minpathcovercycles.py", "MinPathCoverCycles.get_lowerbound_k", h, globs=dict(utils=U, stdigraph=Mod, list=lambda x: x), props=[P],
                callee_contracts=["stDiGraph.get_width (its own unit / bounded layer)"], assumptions=["A4 (not proved): the width is the minimum number of covering walks"])


def all_units():
    return [u_stdag_get_width(), u_stdigraph_get_width(), u_cover_lowerbound()]
