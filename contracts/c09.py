"""Sidecar contracts for C09 (proof piece): stDAG.get_width caching clause - the cached width is read and written only when nothing is ignored;
with a non-empty ignore list the result is always the maximum-antichain value of the weight function that is 1 exactly on the non-ignored edges."""
from pyvc.unit import Unit, NoopLogger
from contracts.stubs import Poisoned, DataRead

P = "C09"


class U:
    logger = NoopLogger()


def u_stdag_get_width():
    EDGES = [("s", "a"), ("a", "b"), ("a", "c"), ("b", "t"), ("c", "t")]

    def h(c, f):
        def antichain(get_antichain=False, weight_function=None):
            return ("ANTICHAIN", tuple(sorted((weight_function or {}).items())), weight_function is None)
        full = ("ANTICHAIN", tuple(sorted((e, 1) for e in EDGES)), False)
        for cached in (None, "CACHED_WIDTH"):
            for ign in (None, [], [("a", "b")], [("a", "b"), ("c", "t")]):
                me = Poisoned(width=cached, edges=lambda: list(EDGES), compute_max_edge_antichain=antichain)
                tag = "cache=%s,ignore=%s" % ("set" if cached else "empty", ign)
                try:
                    r = f(me, ign)
                except DataRead as e:
                    c.prove("post[%s]:reads-only-width/edges/antichain" % tag, False, prop=P, info=dict(read=e.args[0]))
                    continue
                written = dict(object.__getattribute__(me, "_written"))
                if ign:
                    want = ("ANTICHAIN", tuple(sorted((e, 1) for e in EDGES if e not in ign)), False)
                    c.prove("post[%s]:width-of-the-non-ignored-edges-is-recomputed(cache not read)" % tag, r == want, prop=P, info=dict(got=str(r)))
                    c.prove("post[%s]:cache-not-written" % tag, "width" not in written, prop=P)
                else:
                    c.prove("post[%s]:%s" % (tag, "cached-value-returned" if cached else "full-width-computed"), r == (cached if cached else full), prop=P, info=dict(got=str(r)))
                    c.prove("post[%s]:cache-holds-the-full-width-afterwards" % tag, (written.get("width", cached)) == (cached if cached else full), prop=P)
    return Unit("flowpaths/stdag.py", "stDAG.get_width", h, globs=dict(utils=U), props=[P],
                abstractions=["concrete scenario runs (cache empty/set x ignore list None/[]/1 edge/2 edges) on a poisoned self: any other attribute read is reported",
                              "compute_max_edge_antichain is an uninterpreted function of its weight function"])


def all_units():
    return [u_stdag_get_width()]
