"""Sidecar contracts for C19 (proof pieces).

1. Guard obligations: in every k-model constructor the REAL guard statement on k is (a) found at the top level of __init__,
   (b) placed before the parent constructor call that builds the solver (no `return` in between), and (c) exact:
   symbolically executed with an arbitrary integer k it raises ValueError iff k <= 0 (and for non-integers always).
2. Validators under contract: AbstractSourceSinkGraph.get_max_flow_value_and_check_non_negative_flow,
   AbstractPathModelDAG._check_valid_subpath_constraints."""
import ast
import os
import time
import z3
from pyvc import core, smt
from pyvc.core import Sym, lift, INT, REAL, BOOL, STR, Unsupported, explore
from pyvc.heap import SymSeq, SymMap, SInt, SReal, SBool, STuple, SObj
from pyvc.rt import Tracked, BUILTINS
from pyvc.unit import Unit, NoopLogger, REPO, find_function
import hashlib

P = "C19"
KMODELS = [("flowpaths/kflowdecomp.py", "kFlowDecomp"), ("flowpaths/kleastabserrors.py", "kLeastAbsErrors"), ("flowpaths/kminpatherror.py", "kMinPathError"),
           ("flowpaths/kpathcover.py", "kPathCover"), ("flowpaths/kflowdecompcycles.py", "kFlowDecompCycles"), ("flowpaths/kleastabserrorscycles.py", "kLeastAbsErrorsCycles"),
           ("flowpaths/kminpatherrorcycles.py", "kMinPathErrorCycles"), ("flowpaths/kpathcovercycles.py", "kPathCoverCycles")]


class UtilsStub:
    logger = NoopLogger()


def _mentions_k(test):
    for n in ast.walk(test):
        if isinstance(n, ast.Name) and n.id == "k":
            return True
        if isinstance(n, ast.Attribute) and n.attr == "k" and isinstance(n.value, ast.Name) and n.value.id == "self":
            return True
    return False


def _raises_value_error(body):
    for st in body:
        if isinstance(st, ast.Raise) and st.exc is not None:
            f = st.exc.func if isinstance(st.exc, ast.Call) else st.exc
            if isinstance(f, ast.Name) and f.id == "ValueError":
                return True
    return False


class GuardUnit:
    def __init__(self, relpath, cls):
        self.relpath, self.cls = relpath, cls
        self.name = "%s:%s.__init__[guard on k]" % (relpath, cls)
        self.props = [P]

    def execute(self, cross=False):
        t0 = time.time()
        res = dict(unit=self.name, file=self.relpath, function=self.cls + ".__init__", props=[P], status="ok", assumptions=[], obligations=[], paths=0, aborted_paths=0,
                   abstractions=["only the guard statement is executed symbolically; its position is checked syntactically (top level of __init__, before super().__init__, no return before it)"],
                   callee_contracts=[])
        path = os.path.join(REPO, self.relpath)
        src = open(path, encoding="utf-8").read()
        tree = ast.parse(src)
        try:
            fn = find_function(tree, self.cls + ".__init__")
        except LookupError as e:
            res.update(status="unsupported", reason=str(e), wall_s=0)
            return res
        res["sha256"] = hashlib.sha256((ast.get_source_segment(src, fn) or "").encode()).hexdigest()
        res["first_line"], res["last_line"] = fn.lineno, fn.end_lineno
        guards = [(i, st) for i, st in enumerate(fn.body) if isinstance(st, ast.If) and _mentions_k(st.test) and _raises_value_error(st.body)]
        supers = [i for i, st in enumerate(fn.body) for n in ast.walk(st)
                  if isinstance(n, ast.Call) and isinstance(n.func, ast.Attribute) and n.func.attr == "__init__" and isinstance(n.func.value, ast.Call)
                  and isinstance(n.func.value.func, ast.Name) and n.func.value.func.id == "super"]
        returns = [i for i, st in enumerate(fn.body) for n in ast.walk(st) if isinstance(n, ast.Return)]

        def ob(name, ok, info=None, line=None):
            res["obligations"].append(dict(name="%s::%s" % (self.name, name), base=name, kind="xpost", prop=P, line=line, backend="pyvc(guard)", time_s=0.0,
                                           status="discharged" if ok else "failed", info=info or {}, model=None if ok else (info or {})))
        ob("guard:a-top-level-guard-on-k-raising-ValueError-exists", bool(guards))
        if not guards:
            res["wall_s"] = round(time.time() - t0, 3)
            return res
        gi, gst = guards[0]
        ob("guard:it-precedes-the-parent-constructor-call(solver creation)", bool(supers) and gi < min(supers), dict(guard_stmt=gi, super_stmt=supers[:1]), gst.lineno)
        ob("guard:no-return-before-it", not [r for r in returns if r < gi], line=gst.lineno)
        # data flow: the value tested by the guard is the caller's k: before the guard self.k may only be assigned from the parameter k,
        # or inside an `if ... is None:` block (documented default k = width); any other assignment (e.g. k := len(weights superset)) would
        # let an invalid k slip through
        bad = []
        for i, st2 in enumerate(fn.body[:gi]):
            for n in ast.walk(st2):
                if isinstance(n, ast.Assign) and any(isinstance(t, ast.Attribute) and t.attr == "k" and isinstance(t.value, ast.Name) and t.value.id == "self" for t in n.targets):
                    from_param = isinstance(n.value, ast.Name) and n.value.id == "k"
                    in_none_default = isinstance(st2, ast.If) and any(isinstance(c2, ast.Compare) and any(isinstance(o, ast.Is) for o in c2.ops) for c2 in ast.walk(st2.test))
                    if not (from_param or in_none_default):
                        bad.append(n.lineno)
        ob("guard:the-guarded-value-is-the-constructor-argument-k", not bad, dict(other_assignments_to_self_k_before_the_guard=bad), gst.lineno)
        # symbolic execution of the real guard statement
        mod = ast.Module(body=[ast.FunctionDef(name="__guard", args=ast.arguments(posonlyargs=[], args=[ast.arg("self"), ast.arg("k")], kwonlyargs=[], kw_defaults=[], defaults=[]),
                                               body=[gst, ast.Return(ast.Constant("passed"))], decorator_list=[], lineno=gst.lineno, col_offset=0, end_lineno=gst.end_lineno, end_col_offset=0)], type_ignores=[])
        ast.fix_missing_locations(mod)
        g = dict(BUILTINS)
        g.update(utils=UtilsStub, __name__="flowpaths.<guard>")
        exec(compile(mod, path, "exec"), g)
        guard = g["__guard"]
        obls_all = []
        for kind in ("int", "float", "str", "none"):
            def run(c, kind=kind):
                class Me:
                    pass
                me = Me()
                if kind == "int":
                    k = Sym(z3.Int("k"))
                elif kind == "float":
                    k = Sym(z3.Real("k"))
                elif kind == "str":
                    k = "2"
                else:
                    k = None
                me.k = k
                try:
                    r = guard(me, k)
                    raised = False
                except ValueError:
                    raised = True
                except TypeError:
                    c.prove("guard:%s-k-raises-ValueError-not-TypeError" % kind, False, prop=P, kind="xpost")
                    return
                if kind == "int":
                    c.prove("guard:int-k:%s-only-if-%s" % ("rejected" if raised else "accepted", "k<=0" if raised else "k>=1"), (k.t <= 0) if raised else (k.t >= 1), prop=P, kind="xpost")
                else:
                    c.prove("guard:%s-k-raises-ValueError-not-TypeError" % kind, raised, prop=P, kind="xpost")
            try:
                obls, npaths, aborted, notes = explore(run)
            except Unsupported as e:
                res.update(status="unsupported", reason=str(e))
                break
            res["paths"] += npaths
            obls_all += obls
        for o in obls_all:
            r = smt.discharge_one(o)
            r.pop("_model_obj", None)
            r["name"] = "%s::%s" % (self.name, o.name)
            r["base"] = o.name
            res["obligations"].append(r)
        res["wall_s"] = round(time.time() - t0, 3)
        res["solver_time_s"] = 0.0
        return res


class CoverageGuardUnit:
    """the coverage guard of the abstract model constructors: the REAL top-level `if len(<constraints>) > 0:` statement of __init__ that checks the
    coverage parameters is executed symbolically with an arbitrary number of constraints, an arbitrary real coverage and (DAG class) an arbitrary /
    absent length coverage and length attribute; it must raise ValueError exactly for the documented invalid combinations."""

    def __init__(self, relpath, cls, par, cov, covlen=None):
        self.relpath, self.cls, self.par, self.cov, self.covlen = relpath, cls, par, cov, covlen
        self.name = "%s:%s.__init__[guard on %s]" % (relpath, cls, cov)
        self.props = [P, "C10"]

    def execute(self, cross=False):
        t0 = time.time()
        res = dict(unit=self.name, file=self.relpath, function=self.cls + ".__init__", props=self.props, status="ok", assumptions=[], obligations=[], paths=0, aborted_paths=0,
                   abstractions=["only the coverage-guard statement is executed symbolically; that it sits at the top level of __init__ (always executed) is checked syntactically"],
                   callee_contracts=[])
        path = os.path.join(REPO, self.relpath)
        src = open(path, encoding="utf-8").read()
        tree = ast.parse(src)
        try:
            fn = find_function(tree, self.cls + ".__init__")
        except LookupError as e:
            res.update(status="unsupported", reason=str(e), wall_s=0)
            return res
        res["sha256"] = hashlib.sha256((ast.get_source_segment(src, fn) or "").encode()).hexdigest()

        def mentions(node, attr):
            return any(isinstance(n, ast.Attribute) and n.attr == attr for n in ast.walk(node))
        cands = [st for st in fn.body if isinstance(st, ast.If) and mentions(st, self.cov) and _raises_value_error([n for n in ast.walk(st) if isinstance(n, ast.Raise)] or [])]

        def ob(name, ok, info=None, line=None):
            res["obligations"].append(dict(name="%s::%s" % (self.name, name), base=name, kind="xpost", prop=",".join(self.props), line=line, backend="pyvc(guard)", time_s=0.0,
                                           status="discharged" if ok else "failed", info=info or {}, model=None if ok else (info or {})))
        ob("guard:a-top-level-statement-of-__init__-checks-%s-and-raises-ValueError" % self.cov, bool(cands))
        if not cands:
            res["wall_s"] = round(time.time() - t0, 3)
            return res
        gst = cands[0]
        mod = ast.Module(body=[ast.FunctionDef(name="__guard", args=ast.arguments(posonlyargs=[], args=[ast.arg("self"), ast.arg(self.par)], kwonlyargs=[], kw_defaults=[], defaults=[]),
                                               body=[gst, ast.Return(ast.Constant("passed"))], decorator_list=[], lineno=gst.lineno, col_offset=0, end_lineno=gst.end_lineno, end_col_offset=0)], type_ignores=[])
        ast.fix_missing_locations(mod)
        g = dict(BUILTINS)
        g.update(utils=UtilsStub, __name__="flowpaths.<guard>")
        exec(compile(mod, path, "exec"), g)
        guard = g["__guard"]
        variants = [(False, False)] if self.covlen is None else [(False, False), (True, False), (True, True)]
        obls_all = []
        for has_len, has_attr in variants:
            def run(c, has_len=has_len, has_attr=has_attr):
                class Me:
                    pass
                me = Me()
                m = c.fresh_const("n_constraints", INT)
                c.assume(m >= 0)
                cov = c.fresh_const("coverage", REAL)
                setattr(me, self.cov, Sym(cov))
                cl = None
                if self.covlen is not None:
                    cl = c.fresh_const("coverage_length", REAL) if has_len else None
                    setattr(me, self.covlen, Sym(cl) if has_len else None)
                    me.length_attr = "len" if has_attr else None
                cons = SymSeq(m, lambda j: Sym(z3.IntVal(0)), SInt, self.par)
                setattr(me, self.par, cons)
                try:
                    guard(me, cons)
                    raised = False
                except ValueError:
                    raised = True
                bad = z3.Or(cov <= 0, cov > 1)
                if has_len:
                    bad = z3.Or(bad, cl <= 0, cl > 1, z3.BoolVal(not has_attr), cov < 1)
                invalid = z3.And(m > 0, bad)
                tag = "length-coverage-%s,length_attr-%s" % ("given" if has_len else "absent", "given" if has_attr else "absent")
                c.prove("guard[%s]:%s-only-if-%s" % (tag, "rejected" if raised else "accepted", "constraints-are-given-and-a-coverage-parameter-is-invalid" if raised else "there-are-no-constraints-or-all-coverage-parameters-are-valid"),
                        invalid if raised else z3.Not(invalid), prop=",".join(self.props), kind="xpost")
            try:
                obls, npaths, aborted, notes = explore(run)
            except Unsupported as e:
                res.update(status="unsupported", reason=str(e))
                break
            res["paths"] += npaths
            obls_all += obls
        seen = set()
        for o in obls_all:
            key = (o.name, o.goal.get_id(), tuple(h.get_id() for h in o.hyps))
            if key in seen:
                continue
            seen.add(key)
            r = smt.discharge_one(o)
            r.pop("_model_obj", None)
            n = sum(1 for x in res["obligations"] if x.get("base") == o.name)
            r["name"] = "%s::%s%s" % (self.name, o.name, "" if n == 0 else "~%d" % n)
            r["base"] = o.name
            res["obligations"].append(r)
        res["wall_s"] = round(time.time() - t0, 3)
        res["solver_time_s"] = 0.0
        return res


# ---------------------------------------------------------------------------------------------
# validators

def u_max_flow_check():
    F = "flowpaths/abstractsourcesinkgraph.py"
    HASATTR = z3.Function("has_flow_attr", INT, BOOL)
    VAL = z3.Function("flow_value", INT, REAL)
    IGN = z3.Function("is_ignored", INT, BOOL)

    class Data:
        def __init__(self, e): self.e = e

        def __contains__(self, key):
            return core.ctx().decide(HASATTR(lift(self.e)), "has-flow-attr")

        def __getitem__(self, key):
            return Sym(VAL(lift(self.e)))

    class Ign:
        def __contains__(self, uv):
            return core.ctx().decide(IGN(lift(uv[0])), "ignored")

    class SEdge(SObj):
        pass

    def inv(ns, seq, done):
        j = z3.Int("je")
        w = lift(ns["w_max"]) if isinstance(ns["w_max"], Sym) else None
        d = lift(done)
        ok = z3.ForAll([j], z3.Implies(z3.And(j >= 0, j < d, z3.Not(IGN(j))), z3.And(HASATTR(j), VAL(j) >= 0)))
        cl = {"every-non-ignored-edge-so-far-has-a-non-negative-value": ok}
        if w is not None:
            cl["w_max-bounds-the-values-so-far"] = z3.ForAll([j], z3.Implies(z3.And(j >= 0, j < d, z3.Not(IGN(j))), VAL(j) <= w))
        return cl

    def h(c, f):
        class G(Tracked):
            pass
        me = G()
        n = c.fresh_const("n_edges", INT)
        c.assume(n >= 0)
        # edge j is (j, j): u identifies the edge; data is a view on its attributes
        me.edges = lambda data=True: SymSeq(n, lambda j: (Sym(lift(j)), Sym(lift(j)), Data(Sym(lift(j)))), None, "edges")
        j = z3.Int("jq")
        try:
            r = f(me, "flow", Ign())
        except ValueError:
            c.prove("xpost:ValueError-only-if-some-non-ignored-edge-lacks-the-attribute-or-is-negative",
                    z3.Exists([j], z3.And(j >= 0, j < n, z3.Not(IGN(j)), z3.Or(z3.Not(HASATTR(j)), VAL(j) < 0))), prop=P, kind="xpost")
            return
        c.prove("post:normal-return-only-if-every-non-ignored-edge-has-a-non-negative-value",
                z3.ForAll([j], z3.Implies(z3.And(j >= 0, j < n, z3.Not(IGN(j))), z3.And(HASATTR(j), VAL(j) >= 0))), prop=P)
        if isinstance(r, Sym):
            c.prove("post:result-bounds-every-non-ignored-value", z3.ForAll([j], z3.Implies(z3.And(j >= 0, j < n, z3.Not(IGN(j))), VAL(j) <= r.t)), prop=P)

    def havoc_w(old):
        return Sym(core.ctx().fresh_const("w_max", REAL))
    loops = {0: dict(inv=inv, prop=P, havoc={"w_max": havoc_w}, keep=("u", "v", "data"))}

    def float_(x):
        if x == "-inf":
            return Sym(core.ctx().fresh_const("minus_infinity", REAL))     # only compared through max(): any value below all flows
        from pyvc.rt import float_ as f0
        return f0(x)
    return Unit(F, "AbstractSourceSinkGraph.get_max_flow_value_and_check_non_negative_flow", h, globs=dict(utils=UtilsStub, float=float_), loops=loops, props=[P],
                abstractions=["float('-inf') is an arbitrary real (the result for an edge-less/fully ignored graph is not claimed)"])


def u_constraint_validators():
    """AbstractPathModelDAG._check_valid_subpath_constraints / AbstractWalkModelDiGraph._check_valid_subset_constraints:
    normal return  <=>  every constraint is a non-empty list of 2-tuples that are edges of the graph;  otherwise ValueError."""
    ISLIST = z3.Function("constraint_is_a_list", INT, BOOL)
    CL = z3.Function("constraint_len", INT, INT)
    ISTUP = z3.Function("element_is_a_tuple", INT, INT, BOOL)
    ELEN = z3.Function("element_len", INT, INT, INT)
    CU, CV = z3.Function("element_first", INT, INT, INT), z3.Function("element_second", INT, INT, INT)
    EDGE = z3.Function("is_edge", INT, INT, BOOL)

    class Elem:
        def __init__(self, j, t): self.j, self.t = lift(j), lift(t)
        def __getitem__(self, i):
            if i not in (0, 1):
                raise Unsupported("element index")
            core.ctx().prove("pre:e[%d]-only-on-a-2-tuple" % i, z3.And(ISTUP(self.j, self.t), ELEN(self.j, self.t) == 2), kind="pre")
            return Sym((CU if i == 0 else CV)(self.j, self.t))

    class Cons(SymSeq):
        pass

    def isinstance_(x, T):
        if isinstance(x, Elem) and T is tuple:
            return Sym(ISTUP(x.j, x.t))
        if isinstance(x, Cons) and T is BUILTINS["list"]:
            return Sym(ISLIST(x.j))
        if isinstance(x, (Elem, Cons)):
            raise Unsupported("isinstance(%s, %s)" % (type(x).__name__, T))
        return BUILTINS["isinstance"](x, T)

    def len_(x):
        if isinstance(x, Elem):
            return Sym(ELEN(x.j, x.t))
        return BUILTINS["len"](x)

    def good(j):
        t = z3.Int("gt")
        return z3.And(ISLIST(j), CL(j) >= 1, z3.ForAll([t], z3.Implies(z3.And(t >= 0, t < CL(j)), z3.And(ISTUP(j, t), ELEN(j, t) == 2, EDGE(CU(j, t), CV(j, t))))))

    def mk(relpath, qual, attr):
        st = {}

        def inv0(ns, seq, done):
            j = z3.Int("vj")
            return {"every-constraint-so-far-is-a-non-empty-list-of-edges-of-the-graph": z3.ForAll([j], z3.Implies(z3.And(j >= 0, j < lift(done)), good(j)))}

        def on_entry1(ns, it=None):
            st["cur"] = ns["subpath" if "subpath" in ns else "subset"].j

        def inv1(ns, seq, done):
            t = z3.Int("vt")
            j = st["cur"]
            return {"every-element-so-far-is-an-edge": z3.ForAll([t], z3.Implies(z3.And(t >= 0, t < lift(done)), EDGE(CU(j, t), CV(j, t))))}

        def h(c, f):
            m = c.fresh_const("n_constraints", INT)
            c.assume(m >= 0)
            j, t = z3.Ints("hj ht")
            c.assume(z3.ForAll([j], CL(j) >= 0))

            def cons_at(jx):
                s_ = Cons(CL(lift(jx)), lambda tx: Elem(jx, tx), None, "constraint")
                s_.j = lift(jx)
                return s_

            class G:
                def has_edge(self, a, b): return core.ctx().decide(EDGE(lift(a), lift(b)), "has-edge")

            class Me(Tracked):
                pass
            me = Me()
            me.G = G()
            setattr(me, attr, SymSeq(m, cons_at, None, attr))
            try:
                f(me)
            except ValueError:
                c.prove("xpost:ValueError-only-if-some-constraint-is-not-a-non-empty-list-of-edges-of-the-graph", z3.Exists([j], z3.And(j >= 0, j < m, z3.Not(good(j)))), prop=P, kind="xpost")
                return
            c.prove("post:normal-return-only-if-every-constraint-is-a-non-empty-list-of-2-tuples-that-are-edges-of-the-graph", z3.ForAll([j], z3.Implies(z3.And(j >= 0, j < m), good(j))), prop=P)
        var = "subpath" if "subpath" in attr else "subset"
        loops = {0: dict(inv=inv0, prop=P, keep=(var, "e")), 1: dict(inv=inv1, prop=P, on_entry=on_entry1, keep=("e",))}
        return Unit(relpath, qual, h, globs=dict(utils=UtilsStub, isinstance=isinstance_, len=len_), loops=loops, props=[P],
                    assumptions=["elements are modelled by what the validator reads: is-a-tuple, length, first and second component; has_edge answers edge membership (A2)"])
    return [mk("flowpaths/abstractpathmodeldag.py", "AbstractPathModelDAG._check_valid_subpath_constraints", "subpath_constraints"),
            mk("flowpaths/abstractwalkmodeldigraph.py", "AbstractWalkModelDiGraph._check_valid_subset_constraints", "subset_constraints")]


def all_units():
    return [GuardUnit(r, c) for r, c in KMODELS] + [u_max_flow_check()] + u_constraint_validators() + [
        CoverageGuardUnit("flowpaths/abstractpathmodeldag.py", "AbstractPathModelDAG", "subpath_constraints", "subpath_constraints_coverage", "subpath_constraints_coverage_length"),
        CoverageGuardUnit("flowpaths/abstractwalkmodeldigraph.py", "AbstractWalkModelDiGraph", "subset_constraints", "subset_constraints_coverage")]
